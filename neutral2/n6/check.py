"""Differential check: optimized FQP.__add__/__sub__/__neg__ (helper + map forms) vs the original comprehensions."""
import random
import sys

from py_ecc import fields as F
from py_ecc.fields.optimized_field_elements import FQP

rng = random.Random(6)
fails = 0
count = 0


def old_add(self, other):
    if not isinstance(other, type(self)):
        raise TypeError(
            f"Expected an FQP object, but got object of type {type(other)}"
        )

    return type(self)(
        [int(x + y) % self.field_modulus for x, y in zip(self.coeffs, other.coeffs)]
    )


def old_sub(self, other):
    if not isinstance(other, type(self)):
        raise TypeError(
            f"Expected an FQP object, but got object of type {type(other)}"
        )

    return type(self)(
        [int(x - y) % self.field_modulus for x, y in zip(self.coeffs, other.coeffs)]
    )


def old_neg(self):
    return type(self)([-c for c in self.coeffs])


def raw(v):
    if isinstance(v, FQP):
        return (type(v), tuple((type(c), int(c)) for c in v.coeffs), v.degree, v.modulus_coeffs)
    return (type(v), v)


def outcome(f, *args):
    try:
        return ("ok", raw(f(*args)))
    except Exception as e:  # noqa: BLE001
        return ("exc", type(e), str(e))


def cmp(label, old, new, *args):
    global fails, count
    count += 1
    o, w = outcome(old, *args), outcome(new, *args)
    if o != w:
        fails += 1
        print("MISMATCH", label, args, o, w)


for FQ, FQ2, FQ12, oFQ2, oFQ12, plain2 in (
    (F.optimized_bn128_FQ, F.optimized_bn128_FQ2, F.optimized_bn128_FQ12, F.optimized_bls12_381_FQ2, F.optimized_bls12_381_FQ12, F.bn128_FQ2),
    (F.optimized_bls12_381_FQ, F.optimized_bls12_381_FQ2, F.optimized_bls12_381_FQ12, F.optimized_bn128_FQ2, F.optimized_bn128_FQ12, F.bls12_381_FQ2),
):
    p = FQ2.field_modulus
    Sub2 = type("Sub2", (FQ2,), {})

    def r():
        return rng.choice([0, 1, p - 1, rng.randrange(p)])

    e2 = [FQ2([0, 0]), FQ2([1, 0]), FQ2([p - 1, p - 1]), FQ2([-1, -5]), FQ2([p, 2 * p + 3])]
    e2 += [FQ2([r(), r()]) for _ in range(25)]
    # coefficients held as FQ objects (the constructor keeps non-int coefficients as they are)
    e2 += [FQ2([FQ(r()), FQ(r())]) for _ in range(4)] + [FQ2([FQ(3), 7]), FQ2((FQ(0), FQ(0)))]
    e2 += [Sub2([r(), r()]), Sub2([0, 0])]
    # an element whose coefficient tuple was tampered with (length mismatch -> zip/map truncation)
    short = FQ2([5, 6])
    short.coeffs = (5,)
    long_ = FQ2([5, 6])
    long_.coeffs = (5, 6, 7)
    unreduced = FQ2([1, 2])
    unreduced.coeffs = (p + 5, -3)
    e2 += [short, long_, unreduced]
    e12 = [FQ12([0] * 12), FQ12([1] + [0] * 11)] + [FQ12([r() for _ in range(12)]) for _ in range(8)]
    foreign = [oFQ2([1, 2]), oFQ12([1] * 12), plain2([1, 2]), FQ(3), 0, 1, -1, True, None, "x", 1.5, [1, 2], (1, 2), FQ12([1] * 12)]
    for a in e2:
        cmp("neg", old_neg, type(a).__neg__, a)
        for b in e2 + foreign:
            cmp("add", old_add, FQ2.__add__, a, b)
            cmp("sub", old_sub, FQ2.__sub__, a, b)
            cmp("add-op", old_add, lambda x, y: x + y, a, b)
            cmp("sub-op", old_sub, lambda x, y: x - y, a, b)
    for a in e12:
        cmp("neg", old_neg, type(a).__neg__, a)
        for b in e12 + foreign[:6] + [e2[5]]:
            cmp("add", old_add, FQ12.__add__, a, b)
            cmp("sub", old_sub, FQ12.__sub__, a, b)
    # base class FQP instances cannot be rebuilt (type(self)(coeffs) lacks modulus_coeffs): same Exception
    base = type("B", (FQP,), {"field_modulus": p})
    b1, b2 = base([1, 2], [1, 0]), base([3, 4], [1, 0])
    cmp("base add", old_add, base.__add__, b1, b2)
    cmp("base sub", old_sub, base.__sub__, b1, b2)
    cmp("base neg", old_neg, base.__neg__, b1)

print(f"{count} comparisons, {fails} mismatches")
sys.exit(1 if fails else 0)
