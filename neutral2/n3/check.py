"""Differential check: iterative multiply() in the four curve modules vs the original recursive definition.
Compares raw coordinates (not just projective equality), identity for n == 1 and exception types."""
import random
import sys
import time

from py_ecc import bn128, bls12_381, optimized_bn128, optimized_bls12_381

T0 = time.time()
rng = random.Random(3)
fails = 0
count = 0


def make_old(double, add, inf):
    def multiply(pt, n):
        if n == 0:
            return inf(pt)
        elif n == 1:
            return pt
        elif not n % 2:
            return multiply(double(pt), n // 2)
        else:
            return add(multiply(double(pt), int(n // 2)), pt)

    return multiply


def raw(v):
    """Exact structural value: class name + ints."""
    if v is None or isinstance(v, (int, bool)):
        return v
    if isinstance(v, tuple):
        return tuple(raw(c) for c in v)
    if hasattr(v, "coeffs"):
        return (type(v).__name__, tuple(int(c) for c in v.coeffs), tuple(type(c).__name__ for c in v.coeffs))
    if hasattr(v, "n"):
        return (type(v).__name__, v.n)
    raise TypeError(v)


def outcome(f, pt, n):
    try:
        return ("ok", raw(f(pt, n)))
    except RecursionError:
        return ("exc", RecursionError)
    except Exception as e:  # noqa: BLE001
        return ("exc", type(e))


def cmp(name, old, new, pt, n):
    global fails, count
    count += 1
    o, w = outcome(old, pt, n), outcome(new, pt, n)
    if o != w:
        fails += 1
        print("MISMATCH", name, n, o, w)


SMALL = list(range(0, 20)) + [True, False, 31, 32, 33, 2**32 + 1, 2**64 - 1]
NEG = [-1, -6]  # each costs ~1000 doublings in the recursive original

for mod, optimized in ((bn128, False), (bls12_381, False), (optimized_bn128, True), (optimized_bls12_381, True)):
    name = mod.__name__
    order = mod.curve_order
    FQ, FQ2, FQ12 = mod.FQ, mod.FQ2, mod.FQ12
    p = mod.field_modulus
    if optimized:
        old = make_old(mod.double, mod.add, lambda pt: (pt[0].one(), pt[0].one(), pt[0].zero()))
    else:
        old = make_old(mod.double, mod.add, lambda pt: None)
    new = mod.multiply
    big = [order - 1, order, order + 1, 2**255, 2**256 - 1, rng.randrange(1, order), rng.randrange(1, order)]
    huge = [rng.getrandbits(636) | 1, rng.getrandbits(900) | (1 << 899)]
    if optimized:
        G1s = [mod.G1, mod.Z1, (FQ(5), FQ(7), FQ(0)),
               tuple(c * 12345 for c in mod.G1),  # non-canonical z
               (FQ(3), FQ(4), FQ(5)),  # off curve
               (FQ(3), FQ(0), FQ(1)),  # y == 0
               mod.neg(mod.double(mod.G1))]
        G2s = [mod.G2, mod.Z2, tuple(c * FQ2([3, 9]) for c in mod.G2), (FQ2([1, 2]), FQ2([3, 4]), FQ2([5, 6]))]
    else:
        G1s = [mod.G1, None, (FQ(3), FQ(4)), (FQ(3), FQ(0)), mod.neg(mod.double(mod.G1))]
        G2s = [mod.G2, None, (FQ2([1, 2]), FQ2([3, 4]))]
    for k, pt in enumerate(G1s):
        for n in SMALL + (big if k < 5 else big[:3]) + (huge if k == 0 else []):
            cmp(name + ".G1", old, new, pt, n)
        if k in (0, 1):
            for n in NEG:
                cmp(name + ".G1neg", old, new, pt, n)
        for n in (1, True):
            count += 1
            if new(pt, n) is not pt:
                fails += 1
                print("identity lost", name)
    for k, pt in enumerate(G2s):
        for n in SMALL[:12] + [True, 2**64 - 1] + (big[:3] + huge[:1] if k == 0 else big[:1] if optimized else []):
            cmp(name + ".G2", old, new, pt, n)
        if optimized and k == 0:
            cmp(name + ".G2neg", old, new, pt, -3)
    for n in [0, 1, 2, 3, 5, 6, 7] + ([2**64 - 1] if optimized else []):
        cmp(name + ".G12", old, new, mod.G12, n)
    # malformed points: same exception kind
    for bad in [(), (FQ(1),), "ab", 5, (1, 2, 3) if optimized else (1, 2)]:
        for n in (0, 1, 2, 3):
            cmp(name + ".bad", old, new, bad, n)
    # the group law still holds
    assert mod.eq(new(mod.G1, order - 1), mod.neg(mod.G1))
    assert mod.is_inf(new(mod.G1, order))
    print(name, "done", round(time.time() - T0, 1), "s")

print(f"{count} comparisons, {fails} mismatches")
sys.exit(1 if fails else 0)
