"""Differential check: py_ecc.bls.hash hkdf_expand / expand_message_xmd (patched) vs embedded originals."""
import hashlib
import hmac
import math
import random
import sys

from py_ecc.bls import hash as new

rng = random.Random(7)
fails = 0
count = 0


def i2osp(x, xlen):
    return x.to_bytes(xlen, byteorder="big", signed=False)


def xor(a, b):
    return bytes(_a ^ _b for _a, _b in zip(a, b))


def old_hkdf_expand(prk, info, length):
    n = math.ceil(length / 32)
    okm = bytearray(0)
    previous = bytearray(0)
    for i in range(0, n):
        text = previous + info + bytes([i + 1])
        previous = bytearray(hmac.new(prk, text, hashlib.sha256).digest())
        okm.extend(previous)
    return okm[:length]


def old_expand_message_xmd(msg, DST, len_in_bytes, hash_function):
    b_in_bytes = hash_function().digest_size
    r_in_bytes = hash_function().block_size
    if len(DST) > 255:
        raise ValueError("DST must be <= 255 bytes")
    ell = math.ceil(len_in_bytes / b_in_bytes)
    if ell > 255:
        raise ValueError("invalid len in bytes for hash function")
    DST_prime = DST + i2osp(len(DST), 1)
    Z_pad = b"\x00" * r_in_bytes
    l_i_b_str = i2osp(len_in_bytes, 2)
    b_0 = hash_function(Z_pad + msg + l_i_b_str + b"\x00" + DST_prime).digest()
    b = [hash_function(b_0 + b"\x01" + DST_prime).digest()]
    for i in range(2, ell + 1):
        b.append(hash_function(xor(b_0, b[i - 2]) + i2osp(i, 1) + DST_prime).digest())
    pseudo_random_bytes = b"".join(b)
    return pseudo_random_bytes[:len_in_bytes]


def outcome(f, *args):
    try:
        r = f(*args)
        return ("ok", type(r), bytes(r))
    except Exception as e:  # noqa: BLE001
        # messages are compared for the library's own ValueErrors only; interpreter-generated
        # TypeError / ZeroDivisionError texts for malformed arguments are not part of the contract
        return ("exc", type(e), str(e) if isinstance(e, ValueError) else "")


def cmp(label, old, new_f, *args):
    global fails, count
    count += 1
    o, w = outcome(old, *args), outcome(new_f, *args)
    if o != w:
        fails += 1
        print("MISMATCH", label, [a if not isinstance(a, (bytes, bytearray)) or len(a) < 40 else len(a) for a in args], o[:2], w[:2])


# the arithmetic identity behind the change, exhaustively over the practical range
for bsz in (16, 20, 28, 32, 48, 64):
    for a in range(-300, 70001):
        if math.ceil(a / bsz) != -(-a // bsz):
            fails += 1
            print("ceil mismatch", a, bsz)
    for a in [2**31, 2**40 + 1, 2**52 - 1, 2**52 + 1, True, False] + [rng.randrange(2**52) for _ in range(2000)]:
        if math.ceil(a / bsz) != -(-a // bsz):
            fails += 1
            print("ceil mismatch", a, bsz)
count += 1

# ---- hkdf_expand
prks = [b"", b"\x00" * 32, rng.randbytes(32), bytearray(rng.randbytes(32)), rng.randbytes(100)]
infos = [b"", b"info", bytearray(b"abc"), rng.randbytes(80), b"\x00\x30"]
lengths = list(range(0, 70)) + [95, 96, 97, 255, 256, 1000, 8159, 8160, 8161, 8192, 10000, 2**20, 2**53 + 1, 2**70,
                                  -1, -31, -32, -33, -1000, True, False]
for prk in prks:
    for info in infos:
        for L in lengths if prk is prks[2] and info is infos[1] else rng.sample(lengths, 12) + [0, 48, 8160, 8161, -1]:
            cmp("hkdf_expand", old_hkdf_expand, new.hkdf_expand, prk, info, L)
for bad in [("prk", b"i", 10), (b"prk", "info", 10), (b"prk", b"i", 10.0), (b"prk", b"i", 40.5), (b"prk", b"i", None),
            (b"prk", b"i", "5"), (None, b"i", 10), (b"prk", None, 10), ("prk", "info", 0), (None, None, 0), (b"p", b"i", -5.5),
            (memoryview(b"prk"), memoryview(b"info"), 33)]:
    cmp("hkdf_expand bad", old_hkdf_expand, new.hkdf_expand, *bad)

# ---- expand_message_xmd
hashes = [hashlib.sha256, hashlib.sha512, hashlib.sha384, hashlib.sha1, hashlib.sha224, hashlib.md5, hashlib.sha3_256, hashlib.blake2b]
msgs = [b"", b"abc", b"abcdef0123456789", rng.randbytes(200), bytearray(b"abc"), b"q128_" + b"q" * 128]
dsts = [b"", b"QUUX-V01-CS02-with-expander", b"x" * 255, b"x" * 256, bytearray(b"dst"), rng.randbytes(17)]
lens = list(range(0, 40)) + [63, 64, 65, 96, 128, 255, 256, 257, 0x80, 8159, 8160, 8161, 12240, 16320, 16321, 65535, 65536,
                             2**20, 2**53 + 7, 2**200, -1, -32, -33, -65536, True, False]
for h in hashes:
    for msg in msgs[:3] if h is not hashlib.sha256 else msgs:
        for dst in dsts[:3] if h is not hashlib.sha256 else dsts:
            for L in lens if (h is hashlib.sha256 and msg is msgs[1] and dst is dsts[1]) else rng.sample(lens, 10) + [0, 32, 256, 8161, 65536, -1]:
                cmp("xmd " + h.__name__, old_expand_message_xmd, new.expand_message_xmd, msg, dst, L, h)
for bad in [("abc", b"dst", 32), (b"abc", "dst", 32), (b"abc", b"dst", 32.0), (b"abc", b"dst", 10.5), (b"abc", b"dst", None),
            (b"abc", b"dst", "32"), (None, b"dst", 32), (b"abc", None, 32), ([1, 2], b"dst", 32), (b"abc", [1, 2], 32),
            (memoryview(b"abc"), b"dst", 32), (b"abc", b"x" * 300, 10**9), (b"abc", b"x" * 300, None)]:
    cmp("xmd bad", old_expand_message_xmd, new.expand_message_xmd, *bad, hashlib.sha256)
cmp("xmd shake", old_expand_message_xmd, new.expand_message_xmd, b"abc", b"dst", 32, hashlib.shake_128)  # digest_size 0
cmp("xmd nohash", old_expand_message_xmd, new.expand_message_xmd, b"abc", b"dst", 32, None)

# known answer (RFC 9380 K.1, SHA-256, DST QUUX-V01-CS02-with-expander-SHA256-128)
kat = new.expand_message_xmd(b"", b"QUUX-V01-CS02-with-expander-SHA256-128", 0x20, hashlib.sha256).hex()
if kat != "68a985b87eb6b46952128911f2a4412bbc302a9d759667f87f7a21d803f07235":
    fails += 1
    print("KAT mismatch", kat)

# helpers are still there and unchanged
assert new.i2osp(258, 2) == b"\x01\x02" and new.os2ip(b"\x01\x02") == 258 and new.xor(b"\x0f\xf0", b"\xff") == b"\xf0"
assert new.sha256(b"") == hashlib.sha256(b"").digest()

print(f"{count} comparisons, {fails} mismatches")
sys.exit(1 if fails else 0)
