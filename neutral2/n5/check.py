"""Differential check: FQ dunder methods using the _int_value helper vs the original inlined dispatch."""
import operator
import random
import sys

from py_ecc import fields as F
from py_ecc.fields.field_elements import FQ
from py_ecc.utils import prime_field_inv

rng = random.Random(5)
fails = 0
count = 0


def _on(other):
    # the original inlined block
    if isinstance(other, FQ):
        on = other.n
    elif isinstance(other, int):
        on = other
    else:
        raise TypeError(
            f"Expected an int or FQ object, but got object of type {type(other)}"
        )
    return on


def old_add(self, other):
    on = _on(other)
    return type(self)((self.n + on) % self.field_modulus)


def old_mul(self, other):
    on = _on(other)
    return type(self)((self.n * on) % self.field_modulus)


def old_rsub(self, other):
    on = _on(other)
    return type(self)((on - self.n) % self.field_modulus)


def old_sub(self, other):
    on = _on(other)
    return type(self)((self.n - on) % self.field_modulus)


def old_div(self, other):
    on = _on(other)
    return type(self)(self.n * prime_field_inv(on, self.field_modulus) % self.field_modulus)


def old_rdiv(self, other):
    on = _on(other)
    return type(self)(prime_field_inv(self.n, self.field_modulus) * on % self.field_modulus)


def old_eq(self, other):
    if isinstance(other, FQ):
        return self.n == other.n
    elif isinstance(other, int):
        return self.n == other
    else:
        raise TypeError(
            f"Expected an int or FQ object, but got object of type {type(other)}"
        )


def old_ne(self, other):
    return not old_eq(self, other)


def old_lt(self, other):
    on = _on(other)
    return self.n < on


def old_le(self, other):  # functools.total_ordering: lt or eq
    return old_lt(self, other) or old_eq(self, other)


def old_gt(self, other):  # not lt and ne
    return not old_lt(self, other) and old_ne(self, other)


def old_ge(self, other):
    return not old_lt(self, other)


def outcome(f, *args):
    try:
        r = f(*args)
        if isinstance(r, FQ):
            return ("ok", type(r), r.n)
        return ("ok", type(r), r)
    except Exception as e:  # noqa: BLE001
        return ("exc", type(e), str(e))


def cmp(label, old, new, *args):
    global fails, count
    count += 1
    o, w = outcome(old, *args), outcome(new, *args)
    if o != w:
        fails += 1
        print("MISMATCH", label, args, o, w)


class MyInt(int):
    pass


PAIRS = [
    ("__add__", old_add), ("__radd__", old_add), ("__mul__", old_mul), ("__rmul__", old_mul),
    ("__sub__", old_sub), ("__rsub__", old_rsub), ("__div__", old_div), ("__truediv__", old_div),
    ("__rdiv__", old_rdiv), ("__rtruediv__", old_rdiv), ("__eq__", old_eq), ("__ne__", old_ne),
    ("__lt__", old_lt), ("__le__", old_le), ("__gt__", old_gt), ("__ge__", old_ge),
]
OPS = [
    (operator.add, old_add, old_add), (operator.mul, old_mul, old_mul), (operator.sub, old_sub, old_rsub),
    (operator.truediv, old_div, old_rdiv),
]

for cls, other_cls in ((F.bn128_FQ, F.bls12_381_FQ), (F.bls12_381_FQ, F.bn128_FQ)):
    p = cls.field_modulus
    xs = [cls(0), cls(1), cls(2), cls(p - 1)] + [cls(rng.randrange(p)) for _ in range(12)]
    sub = type("SubFQ", (cls,), {})
    others = [0, 1, 2, -1, -2, p - 1, p, p + 1, -p, 2 * p, 2**600, -(2**600), True, False, MyInt(7), MyInt(-7),
              cls(0), cls(1), cls(p - 1), cls(rng.randrange(p)), sub(5), sub(0),
              other_cls(0), other_cls(3), other_cls(other_cls.field_modulus - 1),
              1.0, 0.0, 2.5, "1", b"1", None, [1], (1,), 1j, object,
              F.optimized_bn128_FQ(3), F.optimized_bls12_381_FQ(0), F.bn128_FQ2([1, 2]), F.bls12_381_FQ2([0, 0])]
    others += [rng.randrange(-(p**2), p**2) for _ in range(10)] + [cls(rng.randrange(p)) for _ in range(10)]
    for x in xs:
        for y in others:
            for name, old in PAIRS:
                cmp(name, old, getattr(cls, name), x, y)
            # operator level, both operand orders (reflected methods)
            for op, old_l, old_r in OPS:
                cmp(op.__name__, old_l, op, x, y)
                if not isinstance(y, FQ) and isinstance(y, int):
                    cmp("r" + op.__name__, lambda a, b, old_r=old_r: old_r(a, b), lambda a, b, op=op: op(b, a), x, y)
    # result types follow type(self)
    count += 1
    if type(sub(5) + 1) is not sub or type(cls(5) * sub(2)) is not cls:
        fails += 1
        print("result type changed")

print(f"{count} comparisons, {fails} mismatches")
sys.exit(1 if fails else 0)
