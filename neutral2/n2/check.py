"""Differential check: secp256k1.bytes_to_int / inv (patched) vs embedded originals, plus sign/recover end to end."""
import importlib.util
import random
import sys

import py_ecc.secp256k1.secp256k1 as new


def safe_ord(value):
    if isinstance(value, int):
        return value
    else:
        return ord(value)


def old_bytes_to_int(x):
    o = 0
    for b in x:
        o = (o << 8) + safe_ord(b)
    return o


def old_inv(a, n):
    if a == 0:
        return 0
    lm, hm = 1, 0
    low, high = a % n, n
    while low > 1:
        r = high // low
        nm, new = hm - lm * r, high - low * r
        lm, low, hm, high = nm, new, lm, low
    return lm % n


def outcome(f, *args):
    try:
        r = f(*args)
        return ("ok", type(r), r)
    except Exception as e:  # noqa: BLE001
        return ("exc", type(e))


rng = random.Random(2)
fails = 0
count = 0


def cmp(fo, fn, mk):
    """mk builds fresh arguments (generators can only be consumed once)."""
    global fails, count
    count += 1
    o, w = outcome(fo, *mk()), outcome(fn, *mk())
    if o != w:
        fails += 1
        print("MISMATCH", fo.__name__, mk(), o, w)


class MyBytes(bytes):
    pass


class MyBA(bytearray):
    pass


# ---- bytes_to_int
samples = [b"", b"\x00", b"\x00\x00\x01", b"\xff" * 32, b"\x80" + b"\x00" * 31, bytes(range(256))]
for _ in range(200):
    samples.append(rng.randbytes(rng.randrange(0, 70)))
for s in samples:
    cmp(old_bytes_to_int, new.bytes_to_int, lambda s=s: (s,))
    cmp(old_bytes_to_int, new.bytes_to_int, lambda s=s: (bytearray(s),))
    cmp(old_bytes_to_int, new.bytes_to_int, lambda s=s: (list(s),))
    cmp(old_bytes_to_int, new.bytes_to_int, lambda s=s: (tuple(s),))
    cmp(old_bytes_to_int, new.bytes_to_int, lambda s=s: (memoryview(s),))
    cmp(old_bytes_to_int, new.bytes_to_int, lambda s=s: (MyBytes(s),))
    cmp(old_bytes_to_int, new.bytes_to_int, lambda s=s: (MyBA(s),))
    cmp(old_bytes_to_int, new.bytes_to_int, lambda s=s: (s.decode("latin-1"),))
    cmp(old_bytes_to_int, new.bytes_to_int, lambda s=s: ([chr(c) for c in s],))
    cmp(old_bytes_to_int, new.bytes_to_int, lambda s=s: ([bytes([c]) for c in s],))
    cmp(old_bytes_to_int, new.bytes_to_int, lambda s=s: (iter(s),))
    cmp(old_bytes_to_int, new.bytes_to_int, lambda s=s: ((c for c in s),))
odd = [[256], [1, 256, 3], [-1], [0, -5, 7], [2**70, 1], "€", "a\U0001F600", [True, False, True],
       ["ab"], [b"ab"], [None], None, 5, 1.5, [1.5], [[1]], {1: 2}, {3}, range(5), "", [], (), ["", "a"]]
for x in odd:
    cmp(old_bytes_to_int, new.bytes_to_int, lambda x=x: (x,))

# ---- inv
PRIMES = [2, 3, 5, 7, 11, 13, 101, 65537, new.P, new.N]
for n in PRIMES[:7]:
    for a in range(-3 * n, 3 * n + 1):
        cmp(old_inv, new.inv, lambda a=a, n=n: (a, n))
for n in PRIMES:
    for a in [0, 1, 2, n - 1, n, n + 1, 2 * n, 3 * n, -n, -2 * n, -1, -n - 1, n * n, 2**600, -(2**600), True, False]:
        cmp(old_inv, new.inv, lambda a=a, n=n: (a, n))
    for _ in range(300):
        a = rng.choice([rng.randrange(0, n), rng.randrange(-(n**2), n**2), rng.randrange(-(2**700), 2**700)])
        cmp(old_inv, new.inv, lambda a=a, n=n: (a, n))
for a in [0, 1, 5, -3, True, False]:
    cmp(old_inv, new.inv, lambda a=a: (a, 1))
    cmp(old_inv, new.inv, lambda a=a: (a, 0))
for bad in ["x", "%d", None, b"a", [1]]:
    cmp(old_inv, new.inv, lambda bad=bad: (bad, 7))
    cmp(old_inv, new.inv, lambda bad=bad: (3, bad))

# ---- end to end: a second copy of the module with the original helpers put back
spec = importlib.util.spec_from_file_location("secp_old", new.__file__)
old = importlib.util.module_from_spec(spec)
spec.loader.exec_module(old)
old.bytes_to_int = old_bytes_to_int
old.inv = old_inv

keys = [b"\x00" * 31 + b"\x01", b"\xff" * 32, (new.N - 1).to_bytes(32, "big"), new.N.to_bytes(32, "big"),
        (new.N + 1).to_bytes(32, "big"), b"\x00" * 32, b"", b"\x01"]
keys += [rng.randbytes(32) for _ in range(12)]
for k in keys:
    cmp(old.privtopub, new.privtopub, lambda k=k: (k,))
    cmp(old.privtopub, new.privtopub, lambda k=k: (bytearray(k),))
    for m in [b"\x00" * 32, b"\xff" * 32, rng.randbytes(32)]:
        cmp(old.ecdsa_raw_sign, new.ecdsa_raw_sign, lambda k=k, m=m: (m, k))
        cmp(old.deterministic_generate_k, new.deterministic_generate_k, lambda k=k, m=m: (m, k))
        r = outcome(new.ecdsa_raw_sign, m, k)
        if r[0] == "ok":
            vrs = r[2]
            cmp(old.ecdsa_raw_recover, new.ecdsa_raw_recover, lambda m=m, vrs=vrs: (m, vrs))
            cmp(old.ecdsa_raw_recover, new.ecdsa_raw_recover, lambda m=m, vrs=vrs: (m, (vrs[0], vrs[1], vrs[2] + new.N)))
            cmp(old.ecdsa_raw_recover, new.ecdsa_raw_recover, lambda m=m, vrs=vrs: (m, (55 - vrs[0], vrs[1], vrs[2])))
            cmp(old.ecdsa_raw_recover, new.ecdsa_raw_recover, lambda m=m, vrs=vrs: (m, (vrs[0], 0, vrs[2])))
            cmp(old.ecdsa_raw_recover, new.ecdsa_raw_recover, lambda m=m, vrs=vrs: (m, (26, vrs[1], vrs[2])))
# from_jacobian goes through inv, also with z == 0 and z a multiple of P
for pt in [(5, 7, 0), (5, 7, 1), (5, 7, new.P), (5, 7, 2 * new.P), (5, 7, -3), (new.Gx, new.Gy, 12345)]:
    cmp(old.from_jacobian, new.from_jacobian, lambda pt=pt: (pt,))
for n in [0, 1, 2, 3, new.N - 1, new.N, new.N + 1, -1, -5, 2**300 + 7]:
    cmp(old.multiply, new.multiply, lambda n=n: (new.G, n))

print(f"{count} comparisons, {fails} mismatches")
sys.exit(1 if fails else 0)
