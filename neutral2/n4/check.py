"""Differential check: restructured FQ.__pow__ / FQP.__pow__ vs the original loops (both field implementations)."""
import random
import sys

from py_ecc import fields as F

rng = random.Random(4)
fails = 0
count = 0


def old_fq_pow(self, other):
    o = type(self)(1)
    t = self
    while other > 0:
        if other & 1:
            o = o * t
        other >>= 1
        t = t * t
    return o


def old_fqp_pow(self, other):
    o = type(self)([1] + [0] * (self.degree - 1))
    t = self
    while other > 0:
        if other & 1:
            o = o * t
        other >>= 1
        t = t * t
    return o


def raw(v):
    if hasattr(v, "coeffs"):
        return (type(v), tuple((type(c).__name__, int(c)) for c in v.coeffs))
    return (type(v), v.n)


def outcome(f, x, e):
    try:
        return ("ok", raw(f(x, e)))
    except Exception as ex:  # noqa: BLE001
        return ("exc", type(ex))


def cmp(old, x, e):
    global fails, count
    count += 1
    o, w = outcome(old, x, e), outcome(lambda a, b: a**b, x, e)
    if o != w:
        fails += 1
        print("MISMATCH", type(x).__name__, x, e, o, w)


class MyInt(int):
    pass


BAD = [1.0, 2.5, 0.0, -1.5, "3", None, b"\x01", [2], (2,), 1j]

for FQ in (F.bn128_FQ, F.bls12_381_FQ, F.optimized_bn128_FQ, F.optimized_bls12_381_FQ):
    p = FQ.field_modulus
    bases = [FQ(0), FQ(1), FQ(2), FQ(p - 1), FQ(p - 2)] + [FQ(rng.randrange(p)) for _ in range(12)]
    exps = list(range(0, 20)) + [True, False, MyInt(5), -1, -2, -(2**70), p - 2, p - 1, p, p + 1, (p - 1) // 2, (p + 1) // 4,
                                  2**64, 2**64 - 1, 2**381, p**2 - 1, 2**1500 + 12345]
    exps += [rng.getrandbits(rng.randrange(1, 520)) for _ in range(25)]
    for b in bases:
        for e in exps:
            cmp(old_fq_pow, b, e)
        for e in BAD:
            cmp(old_fq_pow, b, e)
        count += 1
        if (b**1) is b or (b**0) is b:
            fails += 1
            print("identity changed")

for FQ2, FQ12 in ((F.bn128_FQ2, F.bn128_FQ12), (F.bls12_381_FQ2, F.bls12_381_FQ12),
                  (F.optimized_bn128_FQ2, F.optimized_bn128_FQ12), (F.optimized_bls12_381_FQ2, F.optimized_bls12_381_FQ12)):
    p = FQ2.field_modulus
    optimized = FQ2.__module__.endswith("optimized_field_elements")
    b2 = [FQ2([0, 0]), FQ2([1, 0]), FQ2([0, 1]), FQ2([p - 1, p - 1])] + [FQ2([rng.randrange(p), rng.randrange(p)]) for _ in range(6)]
    e2 = list(range(0, 12)) + [True, False, -1, -9, p, p - 1, p + 1, p * p - 1, (p * p - 9) // 16, 2**64 - 1, 2**800 + 3]
    e2 += [rng.getrandbits(rng.randrange(1, 800)) for _ in range(10)]
    for b in b2:
        for e in e2:
            cmp(old_fqp_pow, b, e)
        for e in BAD:
            cmp(old_fqp_pow, b, e)
    b12 = [FQ12([0] * 12), FQ12([1] + [0] * 11), FQ12([0, 1] + [0] * 10), FQ12([rng.randrange(p) for _ in range(12)])]
    e12 = list(range(0, 9)) + [True, -3, 2**64 + 1, rng.getrandbits(200)] + ([p, rng.getrandbits(700)] if optimized else [])
    for b in b12:
        for e in e12:
            cmp(old_fqp_pow, b, e)
        for e in BAD[:4]:
            cmp(old_fqp_pow, b, e)

print(f"{count} comparisons, {fails} mismatches")
sys.exit(1 if fails else 0)
