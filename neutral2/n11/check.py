"""Differential check: miller_loop / pairing in bls12_381 and optimized_bls12_381 (patched) vs embedded originals."""
import random
import sys
import time

from py_ecc import bls12_381 as plain, optimized_bls12_381 as opt
from py_ecc.bls12_381 import bls12_381_pairing as pp
from py_ecc.optimized_bls12_381 import optimized_pairing as op

T0 = time.time()
rng = random.Random(11)
fails = 0
count = 0


def old_plain_miller_loop(Q, P):
    FQ12 = pp.FQ12
    if Q is None or P is None:
        return FQ12.one()
    R = Q
    f = FQ12.one()
    for i in range(pp.log_ate_loop_count, -1, -1):
        f = f * f * pp.linefunc(R, R, P)
        R = pp.double(R)
        if pp.ate_loop_count & (2**i):
            f = f * pp.linefunc(R, Q, P)
            R = pp.add(R, Q)
    return f ** ((pp.field_modulus**12 - 1) // pp.curve_order)


def old_plain_pairing(Q, P):
    if not pp.is_on_curve(Q, pp.b2):
        raise ValueError("Invalid input - point Q is not on the correct curve")
    if not pp.is_on_curve(P, pp.b):
        raise ValueError("Invalid input - point P is not on the correct curves")
    return old_plain_miller_loop(pp.twist(Q), pp.cast_point_to_fq12(P))


def old_opt_miller_loop(Q, P, final_exponentiate=True):
    FQ12 = op.FQ12
    if Q is None or P is None:
        return FQ12.one()
    cast_P = op.cast_point_to_fq12(P)
    twist_R = twist_Q = op.twist(Q)
    R = Q
    f_num, f_den = FQ12.one(), FQ12.one()
    for v in op.pseudo_binary_encoding[62::-1]:
        _n, _d = op.linefunc(twist_R, twist_R, cast_P)
        f_num = f_num * f_num * _n
        f_den = f_den * f_den * _d
        R = op.double(R)
        twist_R = op.twist(R)
        if v == 1:
            _n, _d = op.linefunc(twist_R, twist_Q, cast_P)
            f_num = f_num * _n
            f_den = f_den * _d
            R = op.add(R, Q)
            twist_R = op.twist(R)
    f = f_num / f_den
    if final_exponentiate:
        return f ** ((op.field_modulus**12 - 1) // op.curve_order)
    else:
        return f


def old_opt_pairing(Q, P, final_exponentiate=True):
    if not op.is_on_curve(Q, op.b2):
        raise ValueError("Invalid input - point Q is not on the correct curve")
    if not op.is_on_curve(P, op.b):
        raise ValueError("Invalid input - point P is not on the correct curves")
    if P[-1] == (P[-1].zero()) or Q[-1] == (Q[-1].zero()):
        return op.FQ12.one()
    return old_opt_miller_loop(Q, P, final_exponentiate=final_exponentiate)


def raw(v):
    return (type(v).__name__, tuple((type(c).__name__, int(c)) for c in v.coeffs))


def outcome(f, *args, **kw):
    try:
        return ("ok", raw(f(*args, **kw)))
    except Exception as e:  # noqa: BLE001
        return ("exc", type(e), str(e) if isinstance(e, ValueError) else "")


def cmp(label, old, new_f, *args, **kw):
    global fails, count
    count += 1
    o, w = outcome(old, *args, **kw), outcome(new_f, *args, **kw)
    if o != w:
        fails += 1
        print("MISMATCH", label, o, w)


# the digit sequences themselves
count += 2
bits_old = [1 if pp.ate_loop_count & (2**i) else 0 for i in range(pp.log_ate_loop_count, -1, -1)]
bits_new = [(pp.ate_loop_count >> i) & 1 for i in range(pp.log_ate_loop_count, -1, -1)]
if bits_old != bits_new:
    fails += 1
    print("bit list differs")
if list(op.pseudo_binary_encoding[62::-1]) != list(reversed(op.pseudo_binary_encoding[: op.log_ate_loop_count + 1])):
    fails += 1
    print("digit list differs")

# ---- optimized
FQ, FQ2 = opt.FQ, opt.FQ2
q = opt.field_modulus
P1s = [opt.G1, opt.multiply(opt.G1, 5), opt.neg(opt.G1), tuple(c * 987654321 for c in opt.multiply(opt.G1, rng.randrange(1, opt.curve_order)))]
Q2s = [opt.G2, opt.multiply(opt.G2, 7), tuple(c * FQ2([3, 5]) for c in opt.multiply(opt.G2, rng.randrange(1, opt.curve_order)))]
for i, Q in enumerate(Q2s):
    for j, P in enumerate(P1s):
        if (i + j) % 2 == 0 or i == 0:
            cmp("opt pairing", old_opt_pairing, op.pairing, Q, P)
            cmp("opt pairing nofe", old_opt_pairing, op.pairing, Q, P, final_exponentiate=False)
cmp("opt miller direct", old_opt_miller_loop, op.miller_loop, opt.G2, opt.G1)
cmp("opt miller direct nofe", old_opt_miller_loop, op.miller_loop, opt.G2, opt.G1, False)
cmp("opt miller positional", old_opt_miller_loop, op.miller_loop, Q2s[1], P1s[1], True)
# infinity / None / off-curve
for Q, P in [(opt.Z2, opt.G1), (opt.G2, opt.Z1), (opt.Z2, opt.Z1), ((FQ2([1, 2]), FQ2([3, 4]), FQ2([0, 0])), opt.G1)]:
    cmp("opt pairing inf", old_opt_pairing, op.pairing, Q, P)
    cmp("opt pairing inf nofe", old_opt_pairing, op.pairing, Q, P, final_exponentiate=False)
    cmp("opt miller inf", old_opt_miller_loop, op.miller_loop, Q, P)  # degenerate: f_den == 0 path
for Q, P in [(None, opt.G1), (opt.G2, None), (None, None)]:
    cmp("opt miller None", old_opt_miller_loop, op.miller_loop, Q, P)
    cmp("opt miller None nofe", old_opt_miller_loop, op.miller_loop, Q, P, False)
for Q, P in [((FQ2([1, 2]), FQ2([3, 4]), FQ2([1, 0])), opt.G1), (opt.G2, (FQ(1), FQ(2), FQ(1))), (opt.G1, opt.G2), (opt.G2, opt.G2)]:
    cmp("opt pairing off-curve", old_opt_pairing, op.pairing, Q, P)
# miller loop on an off-curve Q (no validation there)
cmp("opt miller off-curve", old_opt_miller_loop, op.miller_loop, (FQ2([1, 2]), FQ2([3, 4]), FQ2([1, 0])), opt.G1, False)
# bilinearity sanity on the patched code
e1 = op.pairing(opt.multiply(opt.G2, 3), opt.multiply(opt.G1, 5))
e2 = op.pairing(opt.G2, opt.G1) ** 15
count += 1
if e1 != e2:
    fails += 1
    print("bilinearity broken (optimized)")
print("optimized done", round(time.time() - T0, 1), "s")

# ---- plain (slow: a pairing takes seconds)
cases = [(plain.G2, plain.G1), (plain.multiply(plain.G2, 3), plain.multiply(plain.G1, rng.randrange(1, plain.curve_order)))]
for Q, P in cases:
    cmp("plain pairing", old_plain_pairing, pp.pairing, Q, P)
for Q, P in [(None, plain.G1), (plain.G2, None), (None, None)]:
    cmp("plain pairing None", old_plain_pairing, pp.pairing, Q, P)
    cmp("plain miller None", old_plain_miller_loop, pp.miller_loop, pp.twist(Q), pp.cast_point_to_fq12(P))
for Q, P in [((plain.FQ2([1, 2]), plain.FQ2([3, 4])), plain.G1), (plain.G2, (plain.FQ(1), plain.FQ(2))), (plain.G1, plain.G2)]:
    cmp("plain pairing off-curve", old_plain_pairing, pp.pairing, Q, P)
cmp("plain miller direct", old_plain_miller_loop, pp.miller_loop, plain.G12, pp.cast_point_to_fq12(plain.multiply(plain.G1, 2)))
f = plain.FQ12([rng.randrange(q) for _ in range(12)])
count += 1
if raw(pp.final_exponentiate(f)) != raw(f ** ((pp.field_modulus**12 - 1) // pp.curve_order)):
    fails += 1
    print("final_exponentiate differs")
print("plain done", round(time.time() - T0, 1), "s")

print(f"{count} comparisons, {fails} mismatches")
sys.exit(1 if fails else 0)
