"""Check: field_properties (re-expressed constants) equals the original literal values, with identical types,
and everything derived from it is unchanged."""
import random
import sys

from py_ecc import bls12_381, bn128, fields, optimized_bls12_381, optimized_bn128
from py_ecc.fields.field_properties import field_properties

fails = 0
count = 0

ORIGINAL = {
    "bn128": {
        "field_modulus": 21888242871839275222246405745257275088696311157297823662689037894645226208583,
        "fq2_modulus_coeffs": (1, 0),
        "fq12_modulus_coeffs": (82, 0, 0, 0, 0, 0, -18, 0, 0, 0, 0, 0),
    },
    "bls12_381": {
        "field_modulus": 4002409555221667393417789825735904156556882819939007885332058136124031650490837864442687629129015664037894272559787,
        "fq2_modulus_coeffs": (1, 0),
        "fq12_modulus_coeffs": (2, 0, 0, 0, 0, 0, -2, 0, 0, 0, 0, 0),
    },
}


def check(cond, msg):
    global fails, count
    count += 1
    if not cond:
        fails += 1
        print("MISMATCH", msg)


def shape(v):
    if isinstance(v, tuple):
        return ("tuple", tuple(shape(c) for c in v))
    if isinstance(v, dict):
        return ("dict", tuple((k, shape(x)) for k, x in v.items()))
    return (type(v).__name__, v)


check(type(field_properties) is dict, "container type")
check(shape(field_properties) == shape(ORIGINAL), "value / type / key-order equality")
check(list(field_properties) == ["bn128", "bls12_381"], "key order")
for curve, props in ORIGINAL.items():
    check(type(field_properties[curve]) is dict, "inner container type")
    check(list(field_properties[curve]) == list(props), "inner key order " + curve)
    for k, v in props.items():
        got = field_properties[curve][k]
        check(got == v and type(got) is type(v), f"{curve}.{k}")
        if isinstance(v, tuple):
            check(all(type(c) is int for c in got) and len(got) == len(v), f"{curve}.{k} element types")

# derived class attributes
for curve, prefix in (("bn128", "bn128"), ("bls12_381", "bls12_381")):
    o = ORIGINAL[curve]
    for opt in ("", "optimized_"):
        FQ = getattr(fields, f"{opt}{prefix}_FQ")
        FQP = getattr(fields, f"{opt}{prefix}_FQP")
        FQ2 = getattr(fields, f"{opt}{prefix}_FQ2")
        FQ12 = getattr(fields, f"{opt}{prefix}_FQ12")
        for c in (FQ, FQP, FQ2, FQ12):
            check(c.field_modulus == o["field_modulus"] and type(c.field_modulus) is int, f"{c.__name__}.field_modulus")
        check(shape(FQ2.FQ2_MODULUS_COEFFS) == shape(o["fq2_modulus_coeffs"]), f"{FQ2.__name__} coeffs")
        check(shape(FQ12.FQ12_MODULUS_COEFFS) == shape(o["fq12_modulus_coeffs"]), f"{FQ12.__name__} coeffs")
        a, b = FQ2([3, 4]), FQ12(list(range(1, 13)))
        check(shape(a.modulus_coeffs) == shape(o["fq2_modulus_coeffs"]) and a.degree == 2, "instance modulus_coeffs FQ2")
        check(shape(b.modulus_coeffs) == shape(o["fq12_modulus_coeffs"]) and b.degree == 12, "instance modulus_coeffs FQ12")
        if opt:
            check(a.mc_tuples == [(0, 1)], "mc_tuples FQ2")
            check(b.mc_tuples == [(0, o["fq12_modulus_coeffs"][0]), (6, o["fq12_modulus_coeffs"][6])], "mc_tuples FQ12")
for mod, curve in ((bn128, "bn128"), (optimized_bn128, "bn128"), (bls12_381, "bls12_381"), (optimized_bls12_381, "bls12_381")):
    check(mod.field_modulus == ORIGINAL[curve]["field_modulus"] and type(mod.field_modulus) is int, mod.__name__ + ".field_modulus")

# a little arithmetic with recorded results (computed with the original constants)
p = ORIGINAL["bls12_381"]["field_modulus"]
FQ2, FQ12 = fields.optimized_bls12_381_FQ2, fields.optimized_bls12_381_FQ12
check((FQ2([1, 1]) * FQ2([1, 1])).coeffs == (0, 2), "i^2 == -1 (bls)")
check((fields.bn128_FQ2([0, 1]) ** 2) == fields.bn128_FQ2([-1, 0]), "i^2 == -1 (bn128)")
w = FQ12([0, 1] + [0] * 10)
check((w**12).coeffs == (p - 2, 0, 0, 0, 0, 0, 2, 0, 0, 0, 0, 0), "w^12 == 2 w^6 - 2 (bls)")
w = fields.bn128_FQ12([0, 1] + [0] * 10)
check(w**12 == fields.bn128_FQ12([-82, 0, 0, 0, 0, 0, 18, 0, 0, 0, 0, 0]), "w^12 == 18 w^6 - 82 (bn128)")
rng = random.Random(12)
for F in (fields.bn128_FQ12, fields.optimized_bn128_FQ12, fields.bls12_381_FQ12, fields.optimized_bls12_381_FQ12):
    x = F([rng.randrange(F.field_modulus) for _ in range(12)])
    check(x * x.inv() == F.one(), F.__name__ + " inverse")
check(optimized_bls12_381.pairing(optimized_bls12_381.G2, optimized_bls12_381.G1) ** optimized_bls12_381.curve_order == FQ12.one(), "pairing order")

print(f"{count} checks, {fails} mismatches")
sys.exit(1 if fails else 0)
