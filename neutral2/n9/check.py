"""Differential check: ciphersuites KeyGen / Aggregate / _AggregatePKs (reduce / while-True forms) vs embedded originals."""
import random
import sys
from math import ceil, log2

from eth_utils import ValidationError

from py_ecc.bls import G2Basic, G2MessageAugmentation, G2ProofOfPossession
from py_ecc.bls import ciphersuites as cs

rng = random.Random(9)
fails = 0
count = 0


# originals; helper functions are looked up in the patched module's namespace at call time (as the
# originals did), so that the monkeypatching below affects both sides equally
def old_KeyGen(cls, IKM, key_info=b""):
    salt = b"BLS-SIG-KEYGEN-SALT-"
    SK = 0
    while SK == 0:
        salt = cls.xmd_hash_function(salt).digest()
        prk = cs.hkdf_extract(salt, IKM + b"\x00")
        l = ceil((1.5 * ceil(log2(cs.curve_order))) / 8)  # noqa: E741
        okm = cs.hkdf_expand(prk, key_info + cs.i2osp(l, 2), l)
        SK = cs.os2ip(okm) % cs.curve_order
    return SK


def old_Aggregate(cls, signatures):
    if len(signatures) < 1:
        raise ValidationError("Insufficient number of signatures. (n < 1)")
    for signature in signatures:
        if not cls._is_valid_signature(signature):
            raise ValidationError("Invalid signature")
    aggregate = cs.Z2
    for signature in signatures:
        signature_point = cs.signature_to_G2(signature)
        aggregate = cs.add(aggregate, signature_point)
    return cs.G2_to_signature(aggregate)


def old_AggregatePKs(PKs):
    if len(PKs) < 1:
        raise ValidationError("Insufficient number of PKs. (n < 1)")
    aggregate = cs.Z1
    for pk in PKs:
        pubkey_point = cs.pubkey_to_G1(pk)
        aggregate = cs.add(aggregate, pubkey_point)
    return cs.G1_to_pubkey(aggregate)


def outcome(f, *args):
    try:
        r = f(*args)
        return ("ok", type(r), r)
    except Exception as e:  # noqa: BLE001
        return ("exc", type(e), str(e) if isinstance(e, (ValueError, ValidationError)) else "")


def cmp(label, old, new_f, *args):
    global fails, count
    count += 1
    o, w = outcome(old, *args), outcome(new_f, *args)
    if o != w:
        fails += 1
        print("MISMATCH", label, o, w)


SUITES = (G2Basic, G2MessageAugmentation, G2ProofOfPossession)

# ---- KeyGen
ikms = [b"", b"\x00", b"\x00" * 32, b"\xff" * 32, bytes(range(64)), bytearray(b"abc" * 11)] + [rng.randbytes(rng.randrange(0, 80)) for _ in range(40)]
infos = [b"", b"info", rng.randbytes(40), bytearray(b"ki")]
for i, ikm in enumerate(ikms):
    for cls in SUITES if i < 6 else (G2ProofOfPossession,):
        cmp("KeyGen", lambda a: old_KeyGen(cls, a), cls.KeyGen, ikm)
        info = infos[i % len(infos)]
        cmp("KeyGen info", lambda a, b: old_KeyGen(cls, a, b), cls.KeyGen, ikm, info)
for bad in [("str", b""), (b"ikm", "str"), (None, b""), (b"ikm", None), ([1, 2], b""), (5, b"")]:
    cmp("KeyGen bad", lambda a, b: old_KeyGen(G2Basic, a, b), G2Basic.KeyGen, *bad)

# the retry path (SK == 0): force os2ip to yield 0 for the first k calls, for both sides
real_os2ip = cs.os2ip
for k in (1, 2, 5):
    for ikm in ikms[:4]:
        def run(f):
            calls = {"n": 0}

            def fake(x):
                calls["n"] += 1
                return 0 if calls["n"] <= k else real_os2ip(x)

            cs.os2ip = fake
            try:
                return outcome(f, ikm), calls["n"]
            finally:
                cs.os2ip = real_os2ip

        count += 1
        o, w = run(lambda a: old_KeyGen(G2Basic, a)), run(G2Basic.KeyGen)
        if o != w or o[1] != k + 1:
            fails += 1
            print("MISMATCH KeyGen retry", k, o, w)
# multiples of the curve order also count as zero
for mult in (cs.curve_order, 3 * cs.curve_order):
    def run(f):
        calls = {"n": 0}

        def fake(x):
            calls["n"] += 1
            return mult if calls["n"] == 1 else real_os2ip(x)

        cs.os2ip = fake
        try:
            return outcome(f, b"seed"), calls["n"]
        finally:
            cs.os2ip = real_os2ip

    count += 1
    o, w = run(lambda a: old_KeyGen(G2Basic, a)), run(G2Basic.KeyGen)
    if o != w or o[1] != 2:
        fails += 1
        print("MISMATCH KeyGen retry multiple", o, w)

# ---- material
sks = [1, 2, 3, cs.curve_order - 1] + [rng.randrange(1, cs.curve_order) for _ in range(6)]
pks = [G2ProofOfPossession.SkToPk(sk) for sk in sks]
sigs = [G2ProofOfPossession.Sign(sk, b"msg %d" % i) for i, sk in enumerate(sks[:6])]
inf_pk = cs.G1_to_pubkey(cs.Z1)
inf_sig = cs.G2_to_signature(cs.Z2)
neg_pk0 = cs.G1_to_pubkey(cs.neg(cs.pubkey_to_G1(pks[0])))
neg_sig0 = cs.G2_to_signature(cs.neg(cs.signature_to_G2(sigs[0])))
bad_sigs = [b"", b"\x00" * 96, b"\xff" * 96, b"\x00" * 95, sigs[0] + b"\x00", bytearray(sigs[0]), "x" * 96, None, 5,
            b"\x80" + b"\x00" * 95, b"\xc0" + b"\x00" * 94 + b"\x01", sigs[0][:48] + b"\xff" * 48]
bad_pks = [b"", b"\x00" * 48, b"\xff" * 48, b"\x00" * 47, pks[0] + b"\x00", bytearray(pks[0]), "x" * 48, None, 5,
           b"\x80" + b"\x00" * 47, b"\xe0" + b"\x00" * 47, b"\xc0" + b"\x00" * 46 + b"\x01"]

# ---- Aggregate
sig_lists = [[], (), [sigs[0]], (sigs[0],), sigs[:2], tuple(sigs[:3]), sigs, [sigs[0], sigs[0]], [sigs[0], neg_sig0], [inf_sig], [inf_sig, inf_sig],
             [inf_sig, sigs[1]], [sigs[1], inf_sig, sigs[2]], [neg_sig0, sigs[0], sigs[1]]]
for bad in bad_sigs:
    sig_lists += [[bad], [sigs[0], bad], [bad, sigs[0]], [sigs[0], sigs[1], bad, sigs[2]]]
for _ in range(10):
    sig_lists.append([rng.choice(sigs + [inf_sig, neg_sig0]) for _ in range(rng.randrange(1, 6))])
for sl in sig_lists:
    for cls in (G2Basic, G2ProofOfPossession) if len(sl) < 3 else (G2ProofOfPossession,):
        cmp("Aggregate", lambda a: old_Aggregate(cls, a), cls.Aggregate, sl)
for bad in [None, 5, iter([sigs[0]]), (s for s in sigs), {sigs[0]: 1}, {sigs[0]}, b"", sigs[0], "abc"]:
    mk = bad
    cmp("Aggregate bad container", lambda a: old_Aggregate(G2Basic, a), G2Basic.Aggregate, mk)

# ---- _AggregatePKs
pk_lists = [[], (), [pks[0]], (pks[0],), pks[:2], tuple(pks[:3]), pks, [pks[0], pks[0]], [pks[0], neg_pk0], [inf_pk], [inf_pk, inf_pk],
            [inf_pk, pks[1]], [pks[1], inf_pk, pks[2]], [neg_pk0, pks[0], pks[1]]]
for bad in bad_pks:
    pk_lists += [[bad], [pks[0], bad], [bad, pks[0]], [pks[0], pks[1], bad, pks[2]]]
for _ in range(15):
    pk_lists.append([rng.choice(pks + [inf_pk, neg_pk0]) for _ in range(rng.randrange(1, 8))])
for pl in pk_lists:
    cmp("_AggregatePKs", old_AggregatePKs, G2ProofOfPossession._AggregatePKs, pl)
for bad in [None, 5, iter([pks[0]]), (p for p in pks), {pks[0]: 1}, b"", pks[0], "abc"]:
    cmp("_AggregatePKs bad container", old_AggregatePKs, G2ProofOfPossession._AggregatePKs, bad)

# ---- users of the aggregates still agree
msg = b"same message"
fsigs = [G2ProofOfPossession.Sign(sk, msg) for sk in sks[:4]]
agg = G2ProofOfPossession.Aggregate(fsigs)
count += 3
if not G2ProofOfPossession.FastAggregateVerify(pks[:4], msg, agg):
    fails += 1
    print("FastAggregateVerify failed")
if G2ProofOfPossession.FastAggregateVerify(pks[:3], msg, agg) or G2ProofOfPossession.FastAggregateVerify([], msg, agg):
    fails += 1
    print("FastAggregateVerify accepted a wrong key set")
if G2ProofOfPossession.FastAggregateVerify([pks[0], neg_pk0], msg, agg):
    fails += 1
    print("FastAggregateVerify accepted the infinity aggregate")

print(f"{count} comparisons, {fails} mismatches")
sys.exit(1 if fails else 0)
