"""Differential check: py_ecc.bls.point_compression (shift/mask forms) vs embedded original arithmetic forms."""
import random
import sys

from py_ecc.bls import point_compression as new
from py_ecc.bls.constants import POW_2_381, POW_2_382, POW_2_383, POW_2_384
from py_ecc.bls.point_compression import modular_squareroot_in_FQ2
from py_ecc.fields import optimized_bls12_381_FQ as FQ, optimized_bls12_381_FQ2 as FQ2
from py_ecc.optimized_bls12_381 import G1, G2, Z1, Z2, b, b2, field_modulus as q, is_inf, is_on_curve, multiply, normalize, add, neg

rng = random.Random(8)
fails = 0
count = 0


def old_get_flags(z):
    c_flag = bool((z >> 383) & 1)
    b_flag = bool((z >> 382) & 1)
    a_flag = bool((z >> 381) & 1)
    return c_flag, b_flag, a_flag


def old_is_point_at_infinity(z1, z2=None):
    return (z1 % POW_2_381 == 0) and (z2 is None or z2 == 0)


def old_compress_G1(pt):
    if is_inf(pt):
        return POW_2_383 + POW_2_382
    else:
        x, y = normalize(pt)
        a_flag = (y.n * 2) // q
        return x.n + a_flag * POW_2_381 + POW_2_383


def old_decompress_G1(z):
    c_flag, b_flag, a_flag = old_get_flags(z)
    if not c_flag:
        raise ValueError("c_flag should be 1")
    is_inf_pt = old_is_point_at_infinity(z)
    if b_flag != is_inf_pt:
        raise ValueError(f"b_flag should be {int(is_inf_pt)}")
    if is_inf_pt:
        if a_flag:
            raise ValueError("a point at infinity should have a_flag == 0")
        return Z1
    x = z % POW_2_381
    if x >= q:
        raise ValueError(f"Point value should be less than field modulus. Got {x}")
    y = pow((x**3 + b.n) % q, (q + 1) // 4, q)
    if pow(y, 2, q) != (x**3 + b.n) % q:
        raise ValueError("The given point is not on G1: y**2 = x**3 + b")
    if (y * 2) // q != int(a_flag):
        y = q - y
    return (FQ(x), FQ(y), FQ(1))


def old_compress_G2(pt):
    if not is_on_curve(pt, b2):
        raise ValueError("The given point is not on the twisted curve over FQ**2")
    if is_inf(pt):
        return (POW_2_383 + POW_2_382, 0)
    x, y = normalize(pt)
    x_re, x_im = x.coeffs
    y_re, y_im = y.coeffs
    a_flag1 = (int(y_im) * 2) // q if y_im > 0 else (int(y_re) * 2) // q
    z1 = x_im + a_flag1 * POW_2_381 + POW_2_383
    z2 = x_re
    return (int(z1), int(z2))


def old_decompress_G2(p):
    z1, z2 = p
    c_flag1, b_flag1, a_flag1 = old_get_flags(z1)
    if not c_flag1:
        raise ValueError("c_flag should be 1")
    is_inf_pt = old_is_point_at_infinity(z1, z2)
    if b_flag1 != is_inf_pt:
        raise ValueError(f"b_flag should be {int(is_inf_pt)}")
    if is_inf_pt:
        if a_flag1:
            raise ValueError("a point at infinity should have a_flag == 0")
        return Z2
    x1 = z1 % POW_2_381
    if x1 >= q:
        raise ValueError(f"x1 value should be less than field modulus. Got {x1}")
    if z2 >= q:
        raise ValueError(f"z2 point value should be less than field modulus. Got {z2}")
    x2 = z2
    x = FQ2([x2, x1])
    y = modular_squareroot_in_FQ2(x**3 + b2)
    if y is None:
        raise ValueError("Failed to find a modular squareroot")
    y_re, y_im = y.coeffs
    if (y_im > 0 and (int(y_im) * 2) // q != int(a_flag1)) or (
        y_im == 0 and (int(y_re) * 2) // q != int(a_flag1)
    ):
        y = FQ2((y * -1).coeffs)
    if not is_on_curve((x, y, FQ2([1, 0])), b2):
        raise ValueError("The given point is not on the twisted curve over FQ**2")
    return (x, y, FQ2([1, 0]))


def raw(v):
    if isinstance(v, tuple):
        return tuple(raw(c) for c in v)
    if hasattr(v, "coeffs"):
        return (type(v).__name__, tuple((type(c).__name__, int(c)) for c in v.coeffs))
    if hasattr(v, "n"):
        return (type(v).__name__, v.n)
    return (type(v).__name__, v)


def outcome(f, *args):
    try:
        return ("ok", raw(f(*args)))
    except Exception as e:  # noqa: BLE001
        return ("exc", type(e), str(e) if isinstance(e, ValueError) else "")


def cmp(label, old, new_f, *args):
    global fails, count
    count += 1
    o, w = outcome(old, *args), outcome(new_f, *args)
    if o != w:
        fails += 1
        print("MISMATCH", label, args, o, w)


# ---- integers for the pure bit functions
ints = [0, 1, -1, 2, True, False, q, q - 1, q + 1, POW_2_381 - 1, POW_2_381, POW_2_381 + 1, POW_2_382 - 1, POW_2_382, POW_2_382 + 1,
        POW_2_383 - 1, POW_2_383, POW_2_383 + 1, POW_2_384 - 1, POW_2_384, POW_2_384 + 1, POW_2_383 + POW_2_382,
        POW_2_383 + POW_2_382 + POW_2_381, 7 * POW_2_381, 15 * POW_2_381, 2**500, 2**500 + POW_2_383, -POW_2_381, -POW_2_383, -(2**500),
        -POW_2_381 - 1, -POW_2_381 + 1]
ints += [rng.getrandbits(384) for _ in range(300)] + [-rng.getrandbits(390) for _ in range(100)] + [rng.getrandbits(700) for _ in range(50)]
ints += [f * POW_2_381 for f in range(-8, 24)] + [f * POW_2_381 + rng.randrange(q) for f in range(-8, 24)]
for z in ints:
    cmp("get_flags", old_get_flags, new.get_flags, z)
    cmp("is_inf1", old_is_point_at_infinity, new.is_point_at_infinity, z)
    for z2 in (None, 0, 1, -1, False, True, q, rng.getrandbits(381)):
        cmp("is_inf2", old_is_point_at_infinity, new.is_point_at_infinity, z, z2)
for bad in ["1", None, b"\x01", [1]]:
    cmp("get_flags bad", old_get_flags, new.get_flags, bad)
    cmp("is_inf bad", old_is_point_at_infinity, new.is_point_at_infinity, bad)

# ---- G1
pts1 = [Z1, (FQ(3), FQ(4), FQ(0)), G1, neg(G1), multiply(G1, 2)]
for _ in range(25):
    P = multiply(G1, rng.randrange(1, 2**255))
    pts1.append(P)
    pts1.append(tuple(c * rng.randrange(2, q) for c in P))  # non-canonical z
pts1 += [(FQ(3), FQ(4), FQ(5)), (FQ(0), FQ(2), FQ(1)), (FQ(0), FQ(q - 2), FQ(1))]  # compress_G1 does not check the curve
enc1 = []
for P in pts1:
    cmp("compress_G1", old_compress_G1, new.compress_G1, P)
    enc1.append(old_compress_G1(P))
for bad in [(), (FQ(1), FQ(2)), None, (1, 2, 3)]:
    cmp("compress_G1 bad", old_compress_G1, new.compress_G1, bad)
zs = list(ints)
for z in enc1:
    x = z % POW_2_381
    for f in range(8):
        zs.append(x + f * POW_2_381)
    zs += [z + POW_2_384, z + 5 * 2**400, z - POW_2_384, z ^ POW_2_381, z ^ 1]
zs += [POW_2_383 + v for v in (0, 1, 2, 3, 4, 5, q - 1, q, q + 1, POW_2_381 - 1)] + [POW_2_383 + rng.randrange(q) for _ in range(150)]
for z in zs:
    cmp("decompress_G1", old_decompress_G1, new.decompress_G1, z)

# ---- G2
pts2 = [Z2, (FQ2([1, 2]), FQ2([3, 4]), FQ2([0, 0])), G2, neg(G2), multiply(G2, 2)]
for _ in range(8):
    P = multiply(G2, rng.randrange(1, 2**255))
    pts2.append(P)
    pts2.append(tuple(c * FQ2([rng.randrange(q), rng.randrange(q)]) for c in P))
pts2 += [(FQ2([1, 2]), FQ2([3, 4]), FQ2([1, 0])), (FQ2([1, 2]), FQ2([3, 4]), FQ2([5, 6]))]  # off curve -> ValueError
enc2 = []
for P in pts2:
    cmp("compress_G2", old_compress_G2, new.compress_G2, P)
    r = outcome(old_compress_G2, P)
    if r[0] == "ok":
        enc2.append(old_compress_G2(P))
# points with y_im == 0 (a_flag taken from y_re): x in FQ with x^3 + 4 a square in FQ... search a few
found = 0
xr = 0
while found < 3:
    xr += 1
    y = modular_squareroot_in_FQ2(FQ2([xr, 0]) ** 3 + b2)
    if y is not None:
        found += 1
        P = (FQ2([xr, 0]), y, FQ2([1, 0]))
        cmp("compress_G2 searched", old_compress_G2, new.compress_G2, P)
        enc2.append(old_compress_G2(P))
ps = []
for z1, z2 in enc2:
    x1 = z1 % POW_2_381
    for f in range(8):
        ps.append((x1 + f * POW_2_381, z2))
    ps += [(z1, z2 + 1), (z1, q), (z1, q + 5), (z1, z2 + POW_2_383), (z1 + POW_2_384, z2), (z1 - POW_2_384, z2), (z1, -1), (z1, 0),
           (z1 ^ 1, z2), (z2, z1)]
ps += [(z, 0) for z in ints[:60]] + [(z, 1) for z in ints[:40]]
ps += [(POW_2_383 + rng.randrange(q), rng.randrange(q)) for _ in range(25)]
ps += [(POW_2_383 + q, 5), (POW_2_383 + q - 1, q - 1), (POW_2_383 + POW_2_381 - 1, 0), (POW_2_383, q)]
for p in ps:
    cmp("decompress_G2", old_decompress_G2, new.decompress_G2, p)
for bad in [(1,), (1, 2, 3), None, 5, ("1", 2), (POW_2_383 + 5, None), (POW_2_383 + 5, "7")]:
    cmp("decompress_G2 bad", old_decompress_G2, new.decompress_G2, bad)

print(f"{count} comparisons, {fails} mismatches")
sys.exit(1 if fails else 0)
