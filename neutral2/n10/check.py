"""Differential check: hash_to_curve.hash_to_field_* and optimized_swu (patched) vs embedded originals."""
import hashlib
import random
import sys

from py_ecc.bls import hash_to_curve as h2c
from py_ecc.bls.constants import HASH_TO_FIELD_L
from py_ecc.bls.hash import expand_message_xmd, os2ip
from py_ecc.fields import optimized_bls12_381_FQ as FQ, optimized_bls12_381_FQ2 as FQ2
from py_ecc.optimized_bls12_381 import add, field_modulus, multiply_clear_cofactor_G1, multiply_clear_cofactor_G2
from py_ecc.optimized_bls12_381 import optimized_swu as swu
from py_ecc.optimized_bls12_381.constants import (
    ETAS, ISO_3_A, ISO_3_B, ISO_3_Z, ISO_11_A, ISO_11_B, ISO_11_MAP_COEFFICIENTS, ISO_11_Z,
    P_MINUS_9_DIV_16, POSITIVE_EIGHTH_ROOTS_OF_UNITY, SQRT_MINUS_11_CUBED,
)

rng = random.Random(10)
fails = 0
count = 0
p = field_modulus


# ---------------- originals
def old_hash_to_field_FQ2(message, count, DST, hash_function):
    M = 2
    len_in_bytes = count * M * HASH_TO_FIELD_L
    pseudo_random_bytes = expand_message_xmd(message, DST, len_in_bytes, hash_function)
    u = []
    for i in range(0, count):
        e = []
        for j in range(0, M):
            elem_offset = HASH_TO_FIELD_L * (j + i * M)
            tv = pseudo_random_bytes[elem_offset : elem_offset + HASH_TO_FIELD_L]
            e.append(os2ip(tv) % field_modulus)
        u.append(FQ2(e))
    return tuple(u)


def old_hash_to_field_FQ(message, count, DST, hash_function):
    M = 1
    len_in_bytes = count * M * HASH_TO_FIELD_L
    pseudo_random_bytes = expand_message_xmd(message, DST, len_in_bytes, hash_function)
    u = []
    for i in range(0, count):
        elem_offset = HASH_TO_FIELD_L * (i * M)
        tv = pseudo_random_bytes[elem_offset : elem_offset + HASH_TO_FIELD_L]
        u.append(FQ(os2ip(tv) % field_modulus))
    return tuple(u)


def old_swu_G1(t):
    t2 = t**2
    iso_11_z_t2 = ISO_11_Z * t2
    temp = iso_11_z_t2 + iso_11_z_t2**2
    denominator = -(ISO_11_A * temp)
    temp = temp + FQ.one()
    numerator = ISO_11_B * temp
    if denominator == FQ.zero():
        denominator = ISO_11_Z * ISO_11_A
    v = denominator**3
    u = (numerator**3) + (ISO_11_A * numerator * (denominator**2)) + (ISO_11_B * v)
    (is_root, y) = swu.sqrt_division_FQ(u, v)
    if not is_root:
        y = y * t**3 * SQRT_MINUS_11_CUBED
        numerator = numerator * iso_11_z_t2
    if t.sgn0 != y.sgn0:
        y = -y
    y = y * denominator
    return numerator, y, denominator


def old_sqrt_division_FQ2(u, v):
    temp1 = u * v**7
    temp2 = temp1 * v**8
    gamma = temp2**P_MINUS_9_DIV_16
    gamma = gamma * temp1
    is_valid_root = False
    result = gamma
    roots = POSITIVE_EIGHTH_ROOTS_OF_UNITY
    for root in roots:
        sqrt_candidate = root * gamma
        temp2 = sqrt_candidate**2 * v - u
        if temp2 == FQ2.zero() and not is_valid_root:
            is_valid_root = True
            result = sqrt_candidate
    return (is_valid_root, result)


def old_swu_G2(t):
    t2 = t**2
    iso_3_z_t2 = ISO_3_Z * t2
    temp = iso_3_z_t2 + iso_3_z_t2**2
    denominator = -(ISO_3_A * temp)
    temp = temp + FQ2.one()
    numerator = ISO_3_B * temp
    if denominator == FQ2.zero():
        denominator = ISO_3_Z * ISO_3_A
    v = denominator**3
    u = (numerator**3) + (ISO_3_A * numerator * (denominator**2)) + (ISO_3_B * v)
    (success, sqrt_candidate) = old_sqrt_division_FQ2(u, v)
    y = sqrt_candidate
    sqrt_candidate = sqrt_candidate * t**3
    u = (iso_3_z_t2) ** 3 * u
    success_2 = False
    etas = ETAS
    for eta in etas:
        eta_sqrt_candidate = eta * sqrt_candidate
        temp1 = eta_sqrt_candidate**2 * v - u
        if temp1 == FQ2.zero() and not success and not success_2:
            y = eta_sqrt_candidate
            success_2 = True
    if not success and not success_2:
        raise Exception("Hash to Curve - Optimized SWU failure")
    if not success:
        numerator = numerator * iso_3_z_t2
    if t.sgn0 != y.sgn0:
        y = -y
    y = y * denominator
    return (numerator, y, denominator)


def old_iso_map_G1(x, y, z):
    mapped_values = [FQ.zero(), FQ.zero(), FQ.zero(), FQ.zero()]
    z_powers = [z, z**2, z**3, z**4, z**5, z**6, z**7, z**8, z**9, z**10, z**11, z**12, z**13, z**14, z**15]
    for i, k_i in enumerate(ISO_11_MAP_COEFFICIENTS):
        mapped_values[i] = k_i[-1:][0]
        for j, k_i_j in enumerate(reversed(k_i[:-1])):
            mapped_values[i] = mapped_values[i] * x + z_powers[j] * k_i_j
    mapped_values[1] = mapped_values[1] * z
    mapped_values[2] = mapped_values[2] * y
    mapped_values[3] = mapped_values[3] * z
    z_G1 = mapped_values[1] * mapped_values[3]
    x_G1 = mapped_values[0] * mapped_values[3]
    y_G1 = mapped_values[1] * mapped_values[2]
    return (x_G1, y_G1, z_G1)


def old_hash_to_G2(message, DST, hash_function):
    u0, u1 = old_hash_to_field_FQ2(message, 2, DST, hash_function)
    q0 = swu.iso_map_G2(*old_swu_G2(u0))
    q1 = swu.iso_map_G2(*old_swu_G2(u1))
    return multiply_clear_cofactor_G2(add(q0, q1))


def old_hash_to_G1(message, DST, hash_function):
    u0, u1 = old_hash_to_field_FQ(message, 2, DST, hash_function)
    q0 = old_iso_map_G1(*old_swu_G1(u0))
    q1 = old_iso_map_G1(*old_swu_G1(u1))
    return multiply_clear_cofactor_G1(add(q0, q1))


# ---------------- harness
def raw(v):
    if isinstance(v, tuple):
        return ("tuple", tuple(raw(c) for c in v))
    if hasattr(v, "coeffs"):
        return (type(v).__name__, tuple((type(c).__name__, int(c)) for c in v.coeffs))
    if hasattr(v, "n"):
        return (type(v).__name__, v.n)
    return (type(v).__name__, v)


def outcome(f, *args):
    try:
        return ("ok", raw(f(*args)))
    except Exception as e:  # noqa: BLE001
        return ("exc", type(e), str(e) if isinstance(e, ValueError) or type(e) is Exception else "")


def cmp(label, old, new_f, *args):
    global fails, count
    count += 1
    o, w = outcome(old, *args), outcome(new_f, *args)
    if o != w:
        fails += 1
        print("MISMATCH", label, args, o, w)


def fq2():
    return FQ2([rng.choice([0, 1, 2, p - 1, p - 2, rng.randrange(p)]), rng.choice([0, 1, 2, p - 1, rng.randrange(p)])])


# ---- hash_to_field
hashes = [hashlib.sha256, hashlib.sha512, hashlib.sha384, hashlib.sha1, hashlib.sha3_256]
msgs = [b"", b"abc", rng.randbytes(100), bytearray(b"xyz")]
dsts = [b"QUUX-V01-CS02-with-BLS12381G2_XMD:SHA-256_SSWU_RO_", b"", b"d" * 255, b"d" * 256]
for h in hashes:
    for m in msgs:
        for d in dsts:
            for c in (0, 1, 2, 3, 5, 8, 63, 64, 127, 128, 200, True, False, -1, -2, 1000):
                if h is hashlib.sha256 or c in (0, 1, 2, 3, -1, True):
                    cmp("h2f FQ2", old_hash_to_field_FQ2, h2c.hash_to_field_FQ2, m, c, d, h)
                    cmp("h2f FQ", old_hash_to_field_FQ, h2c.hash_to_field_FQ, m, c, d, h)
for badc in (1.0, 2.5, None, "2", [2]):
    cmp("h2f FQ2 bad", old_hash_to_field_FQ2, h2c.hash_to_field_FQ2, b"m", badc, b"d", hashlib.sha256)
    cmp("h2f FQ bad", old_hash_to_field_FQ, h2c.hash_to_field_FQ, b"m", badc, b"d", hashlib.sha256)
cmp("h2f str msg", old_hash_to_field_FQ2, h2c.hash_to_field_FQ2, "m", 2, b"d", hashlib.sha256)

# ---- SWU G1
ts1 = [FQ(v) for v in (0, 1, 2, 3, p - 1, p - 2, (p - 1) // 2, (p + 1) // 2)] + [FQ(rng.randrange(p)) for _ in range(150)]
# exceptional case: Z*t^2 == -1  (denominator == 0)
target = FQ(-1) / ISO_11_Z
cand = target ** ((p + 1) // 4)
if cand * cand == target:
    ts1 += [cand, -cand]
branches = set()
for t in ts1:
    cmp("swu_G1", old_swu_G1, swu.optimized_swu_G1, t)
    xyz = swu.optimized_swu_G1(t)
    cmp("iso_map_G1", old_iso_map_G1, swu.iso_map_G1, *xyz)
for _ in range(20):
    cmp("iso_map_G1 rnd", old_iso_map_G1, swu.iso_map_G1, FQ(rng.randrange(p)), FQ(rng.randrange(p)), FQ(rng.choice([0, 1, rng.randrange(p)])))

# ---- SWU G2 / sqrt_division_FQ2
ts2 = [FQ2([0, 0]), FQ2([1, 0]), FQ2([0, 1]), FQ2([2, 1]), FQ2([2, 0]), FQ2([0, 2]), FQ2([p - 1, p - 1]), FQ2([p - 1, 0]), FQ2([4, 3]), FQ2([4, 2])]
ts2 += [fq2() for _ in range(90)]
ts2 += [FQ2([FQ(rng.randrange(p)), FQ(rng.randrange(p))]) for _ in range(3)]  # coefficients held as FQ objects
# exceptional case for G2: Z*t^2 == -1
tgt = FQ2([p - 1, 0]) / ISO_3_Z
ok, r = old_sqrt_division_FQ2(tgt, FQ2.one())
if ok:
    ts2 += [r, -r]
stat = {"first": 0, "second": 0}
for t in ts2:
    cmp("swu_G2", old_swu_G2, swu.optimized_swu_G2, t)
sq = [(fq2(), fq2()) for _ in range(60)]
sq += [(FQ2.zero(), fq2()), (fq2(), FQ2.zero()), (FQ2.zero(), FQ2.zero()), (FQ2.one(), FQ2.one())]
for _ in range(30):  # guaranteed squares: u = s^2 * v
    s_, v_ = fq2(), fq2()
    sq.append((s_ * s_ * v_, v_))
for u_, v_ in sq:
    cmp("sqrt_division_FQ2", old_sqrt_division_FQ2, swu.sqrt_division_FQ2, u_, v_)
    flag = swu.sqrt_division_FQ2(u_, v_)[0]
    count += 1
    if type(flag) is not bool:
        fails += 1
        print("flag type", type(flag))
    stat["first" if flag else "second"] += 1
assert stat["first"] > 10 and stat["second"] > 10, stat  # both branches exercised

# ---- whole pipeline
DST = b"QUUX-V01-CS02-with-BLS12381G2_XMD:SHA-256_SSWU_RO_"
for m in [b"", b"abc", b"abcdef0123456789", rng.randbytes(64), rng.randbytes(5)]:
    cmp("hash_to_G2", old_hash_to_G2, h2c.hash_to_G2, m, DST, hashlib.sha256)
    cmp("hash_to_G1", old_hash_to_G1, h2c.hash_to_G1, m, DST, hashlib.sha256)
cmp("hash_to_G2 sha512", old_hash_to_G2, h2c.hash_to_G2, b"abc", DST, hashlib.sha512)

print(f"{count} comparisons, {fails} mismatches")
sys.exit(1 if fails else 0)
