"""Differential check: py_ecc.utils.prime_field_inv (patched) vs the original extended-Euclid code."""
import random
import sys

from py_ecc.utils import prime_field_inv as new_inv
from py_ecc.fields.field_properties import field_properties
from py_ecc.fields import bn128_FQ, bls12_381_FQ, optimized_bn128_FQ, optimized_bls12_381_FQ
from py_ecc.fields import optimized_bls12_381_FQ2, bls12_381_FQ2


def old_inv(a, n):
    a %= n

    if a == 0:
        return 0
    lm, hm = 1, 0
    low, high = a % n, n
    while low > 1:
        r = high // low
        nm, new = hm - lm * r, high - low * r
        lm, low, hm, high = nm, new, lm, low
    return lm % n


def outcome(f, *args):
    try:
        r = f(*args)
        return ("ok", type(r), r)
    except Exception as e:  # noqa: BLE001
        return ("exc", type(e))


rng = random.Random(20261001)
SMALL_PRIMES = [2, 3, 5, 7, 11, 13, 17, 19, 23, 101, 257, 65537, 2**31 - 1, 2**61 - 1, 2**127 - 1]
BIG_PRIMES = [
    field_properties["bn128"]["field_modulus"],
    field_properties["bls12_381"]["field_modulus"],
    21888242871839275222246405745257275088548364400416034343698204186575808495617,  # bn128 curve order
    52435875175126190479447740508185965837690552500527637822603658699938581184513,  # bls12-381 curve order
    2**256 - 2**32 - 977,  # secp256k1 P
    115792089237316195423570985008687907852837564279074904382605163141518161494337,  # secp256k1 N
]
fails = 0
count = 0


def cmp(a, n):
    global fails, count
    count += 1
    o, w = outcome(old_inv, a, n), outcome(new_inv, a, n)
    if o != w:
        fails += 1
        print("MISMATCH", a, n, o, w)


# exhaustive on small primes, a in [-3n, 3n]
for n in SMALL_PRIMES[:10]:
    for a in range(-3 * n, 3 * n + 1):
        cmp(a, n)
for n in SMALL_PRIMES + BIG_PRIMES:
    edge = [0, 1, 2, n - 2, n - 1, n, n + 1, 2 * n, 2 * n - 1, 2 * n + 1, -1, -2, -n, -n + 1, -n - 1,
            -5 * n, n * n, n * n + 1, n**3 - 1, 2**600, -(2**600), 2**600 + 1, True, False,
            (n - 1) // 2, (n + 1) // 2]
    for a in edge:
        cmp(a, n)
    for _ in range(200):
        cmp(rng.randrange(0, n), n)
        cmp(rng.randrange(-(n**2), n**2), n)
        cmp(rng.randrange(-(2**800), 2**800), n)
    # results are real inverses
    for _ in range(20):
        a = rng.randrange(1, n)
        assert a * new_inv(a, n) % n == 1
# modulus 1 and error cases
for a in [0, 1, 5, -7]:
    cmp(a, 1)
    cmp(a, 0)  # ZeroDivisionError in both
for bad in ["x", None, b"ab", [1], (1,)]:
    cmp(bad, 7)
    cmp(3, bad)

# callers: FQ / FQP division goes through prime_field_inv
for FQ in (bn128_FQ, bls12_381_FQ, optimized_bn128_FQ, optimized_bls12_381_FQ):
    p = FQ.field_modulus
    for _ in range(50):
        x, y = rng.randrange(p), rng.randrange(p)
        count += 1
        exp = x * old_inv(y, p) % p
        got = FQ(x) / FQ(y)
        got2 = FQ(x) / y
        got3 = x / FQ(y)
        if not (type(got) is FQ and got.n == exp and got2.n == exp and got3.n == exp):
            fails += 1
            print("MISMATCH FQ div", FQ, x, y)
    for y in (0, p, -p, 2 * p):
        count += 1
        if (FQ(5) / y).n != 0 or (FQ(5) / FQ(0)).n != 0:
            fails += 1
            print("MISMATCH FQ div by zero", FQ, y)
for FQ2 in (optimized_bls12_381_FQ2, bls12_381_FQ2):
    p = FQ2.field_modulus
    for _ in range(20):
        a = FQ2([rng.randrange(p), rng.randrange(p)])
        count += 1
        if a != FQ2([0, 0]) and not (a * a.inv() == FQ2.one() and (a / a) == FQ2.one()):
            fails += 1
            print("MISMATCH FQ2 inv", a)

print(f"{count} comparisons, {fails} mismatches")
sys.exit(1 if fails else 0)
