"""run every replay_* function of checks/replays.py on the UNCHANGED tree: none may claim a reproduction (except the listed known finding).
usage: /venv/bin/python tools_replay_selftest.py"""
import sys, time, traceback
sys.path.insert(0, "/verif")
sys.set_int_max_str_digits(0)
from checks import replays
DEFAULT_ARGS = {
    "replay_c07_small": {"curve": "bn128", "p": 7, "b": 2}, "replay_c07_small_opt": {"curve": "bn128", "p": 7, "b": 2},
    "replay_c18_small": {"p": 7, "b": 3, "N": 13}, "replay_c07_twist": {"curve": "bls12_381", "impl": "ref"},
    "replay_c07_ref": {"curve": "bn128"}, "replay_c07_multiply": {"module": "py_ecc.optimized_bn128"},
    "replay_bls_sign_verify": {"suite": "G2ProofOfPossession"}, "replay_c05_pairing": {"impl": "opt", "curve": "bn128"}, "replay_c12_pairing": {"curve": "bn128"},
    "replay_import": {"module": "py_ecc.bls"}, "replay_c11_g1_point": {"x": "5"},
}
bad = 0
for name in sorted(dir(replays)):
    if not name.startswith("replay_"):
        continue
    fn = getattr(replays, name)
    t0 = time.time()
    try:
        rep, msg = fn(dict(DEFAULT_ARGS.get(name, {})))
    except Exception as e:
        print("%-34s ERROR %r" % (name, e))
        continue
    flag = "REPRODUCES-ON-CLEAN-TREE" if rep else "ok"
    if rep:
        bad += 1
    print("%-34s %-26s %.1fs %s" % (name, flag, time.time() - t0, msg[:110] if rep else ""))
sys.exit(1 if bad else 0)
