#!/bin/sh
# usage: tools_mut.sh <prop> <file-relative-to-/repo> <sed-expr> [run.py args...]
# applies a one-off sed mutation to /repo, runs the check, always restores the file.
prop=$1; file=$2; expr=$3; shift 3
cd /repo || exit 9
git diff --quiet || { echo "repo dirty"; exit 9; }
sed -i "$expr" "$file"
git diff --stat | tail -1
if git diff --quiet; then echo "MUTATION DID NOT APPLY"; exit 8; fi
/verif/run.py "$prop" "$@" 2>&1 | cut -c1-300 | grep -v "^  obligation" | head -${MUT_LINES:-12}
git checkout -- .
