#!/usr/bin/env python
"""replay.py <file>  -- run a recorded counterexample against the real, unshimmed py_ecc
(under /venv/bin/python).  exit 0: the mismatch reproduces (violation confirmed);
exit 3: it does not (encoding/stub problem); exit 4: replay crashed."""
import json
import os
import sys
import traceback

VERIF = os.path.dirname(os.path.abspath(__file__))


def main():
    sys.path.insert(0, VERIF)
    sys.setrecursionlimit(100000)
    with open(sys.argv[1]) as f:
        rec = json.load(f)
    rp = rec["replay"]
    from checks import replays
    fn = getattr(replays, "replay_" + rp["kind"])
    try:
        reproduced, msg = fn(rp["args"])
    except Exception:
        traceback.print_exc()
        print("replay crashed")
        return 4
    print(msg)
    if reproduced:
        print("REPRODUCED property=%s obligation=%s: %s" % (rec["property"], rec["obligation"], rec["what"]))
        return 0
    print("NOT REPRODUCED")
    return 3


if __name__ == "__main__":
    sys.exit(main())
