"""
Differential check for n5 (py_ecc/optimized_bls12_381/optimized_swu.py:
optimized_swu_G1, sqrt_division_FQ, sqrt_division_FQ2; optimized_swu_G2 is compared
too because it calls sqrt_division_FQ2).

The ORIGINAL function bodies are embedded and executed in a copy of the patched
module's namespace. Exit status 0 iff every call agrees (value, type, exception
type and message).
"""
import os
import random
import sys

import py_ecc.optimized_bls12_381.optimized_swu as mod
from py_ecc.fields import (
    optimized_bls12_381_FQ as FQ,
    optimized_bls12_381_FQ2 as FQ2,
    optimized_bn128_FQ as OTHER_FQ,
)
from py_ecc.optimized_bls12_381.constants import (
    ISO_11_Z,
    POSITIVE_EIGHTH_ROOTS_OF_UNITY,
)

q = FQ.field_modulus

ORIGINAL = r'''
def optimized_swu_G1(t):
    t2 = t**2
    iso_11_z_t2 = ISO_11_Z * t2
    temp = iso_11_z_t2 + iso_11_z_t2**2
    denominator = -(ISO_11_A * temp)  # -a(Z * t^2 + Z^2 * t^4)
    temp = temp + FQ.one()
    numerator = ISO_11_B * temp  # b(Z * t^2 + Z^2 * t^4 + 1)

    # Exceptional case
    if denominator == FQ.zero():
        denominator = ISO_11_Z * ISO_11_A

    # v = D^3
    v = denominator**3
    # u = N^3 + a * N * D^2 + b* D^3
    u = (numerator**3) + (ISO_11_A * numerator * (denominator**2)) + (ISO_11_B * v)

    # Attempt y = sqrt(u / v)
    (is_root, y) = sqrt_division_FQ(u, v)

    if not is_root:
        y = y * t**3 * SQRT_MINUS_11_CUBED
        numerator = numerator * iso_11_z_t2

    if t.sgn0 != y.sgn0:
        y = -y

    y = y * denominator

    return numerator, y, denominator


def optimized_swu_G2(t):
    t2 = t**2
    iso_3_z_t2 = ISO_3_Z * t2
    temp = iso_3_z_t2 + iso_3_z_t2**2
    denominator = -(ISO_3_A * temp)  # -a(Z * t^2 + Z^2 * t^4)
    temp = temp + FQ2.one()
    numerator = ISO_3_B * temp  # b(Z * t^2 + Z^2 * t^4 + 1)

    # Exceptional case
    if denominator == FQ2.zero():
        denominator = ISO_3_Z * ISO_3_A

    # v = D^3
    v = denominator**3
    # u = N^3 + a * N * D^2 + b* D^3
    u = (numerator**3) + (ISO_3_A * numerator * (denominator**2)) + (ISO_3_B * v)

    # Attempt y = sqrt(u / v)
    (success, sqrt_candidate) = sqrt_division_FQ2(u, v)
    y = sqrt_candidate

    # Handle case where (u / v) is not square
    # sqrt_candidate(x1) = sqrt_candidate(x0) * t^3
    sqrt_candidate = sqrt_candidate * t**3

    # u(x1) = Z^3 * t^6 * u(x0)
    u = (iso_3_z_t2) ** 3 * u
    success_2 = False
    etas = ETAS
    for eta in etas:
        # Valid solution if (eta * sqrt_candidate(x1)) ** 2 * v - u == 0
        eta_sqrt_candidate = eta * sqrt_candidate
        temp1 = eta_sqrt_candidate**2 * v - u
        if temp1 == FQ2.zero() and not success and not success_2:
            y = eta_sqrt_candidate
            success_2 = True

    if not success and not success_2:
        # Unreachable
        raise Exception("Hash to Curve - Optimized SWU failure")

    if not success:
        numerator = numerator * iso_3_z_t2

    if t.sgn0 != y.sgn0:
        y = -y

    y = y * denominator

    return (numerator, y, denominator)


def sqrt_division_FQ(u, v):
    temp = u * v
    result = temp * ((temp * v**2) ** P_MINUS_3_DIV_4)
    is_valid_root = (result**2 * v - u) == FQ.zero()
    return (is_valid_root, result)


def sqrt_division_FQ2(u, v):
    temp1 = u * v**7
    temp2 = temp1 * v**8

    # gamma =  uv^7 * (uv^15)^((p^2 - 9) / 16)
    gamma = temp2**P_MINUS_9_DIV_16
    gamma = gamma * temp1

    # Verify there is a valid root
    is_valid_root = False
    result = gamma
    roots = POSITIVE_EIGHTH_ROOTS_OF_UNITY
    for root in roots:
        # Valid if (root * gamma)^2 * v - u == 0
        sqrt_candidate = root * gamma
        temp2 = sqrt_candidate**2 * v - u
        if temp2 == FQ2.zero() and not is_valid_root:
            is_valid_root = True
            result = sqrt_candidate

    return (is_valid_root, result)
'''

orig = dict(vars(mod))
exec(compile(ORIGINAL, "<original optimized_swu>", "exec"), orig)

failures = 0
calls = 0


def describe(x):
    if isinstance(x, (tuple, list)):
        return (type(x).__name__, tuple(describe(e) for e in x))
    if hasattr(x, "coeffs"):
        return (type(x).__name__, describe(x.coeffs))
    if hasattr(x, "n") and not isinstance(x, int):
        return (type(x).__name__, describe(x.n))
    return (type(x).__name__, repr(x))


def outcome(f, args):
    try:
        return ("ok", describe(f(*args)))
    except Exception as e:  # noqa: BLE001
        return ("exc", type(e).__name__, str(e))


def compare(name, *args):
    global failures, calls
    calls += 1
    a = outcome(orig[name], args)
    b = outcome(getattr(mod, name), args)
    if a != b:
        failures += 1
        print(f"MISMATCH {name}{args!r}\n  original: {a}\n  patched : {b}")
    return b


rng = random.Random(20261005)


def rfq():
    return FQ(rng.randrange(q))


def rfq2():
    return FQ2([rng.randrange(q), rng.randrange(q)])


# ------------------------------------------------------------------ sqrt_division_FQ
small = [FQ(0), FQ(1), FQ(2), FQ(4), FQ(q - 1), FQ(q - 4)]
roots_seen = {True: 0, False: 0}
for u in small:
    for v in small:
        r = compare("sqrt_division_FQ", u, v)
for _ in range(200):
    u, v = rfq(), rfq()
    r = compare("sqrt_division_FQ", u, v)
    roots_seen[r[1][1][0][1] == "True"] += 1
    s = rfq()
    compare("sqrt_division_FQ", s * s * v, v)  # u / v a square
    compare("sqrt_division_FQ", s * s * v * ISO_11_Z, v)  # non-residue multiple
assert roots_seen[True] and roots_seen[False]
compare("sqrt_division_FQ", FQ(3), 5)  # int second operand
compare("sqrt_division_FQ", OTHER_FQ(3), OTHER_FQ(5))  # foreign field
compare("sqrt_division_FQ", FQ2([3, 1]), FQ2([5, 2]))
compare("sqrt_division_FQ", FQ(3), None)
compare("sqrt_division_FQ", None, FQ(3))

# ------------------------------------------------------------------ sqrt_division_FQ2
small2 = [FQ2([0, 0]), FQ2([1, 0]), FQ2([0, 1]), FQ2([q - 1, 0]), FQ2([1, 1])]
for u in small2:
    for v in small2:
        compare("sqrt_division_FQ2", u, v)
found = {True: 0, False: 0}
for _ in range(40):
    u, v = rfq2(), rfq2()
    r = compare("sqrt_division_FQ2", u, v)
    found[r[1][1][0][1] == "True"] += 1
    s = rfq2()
    # u / v a square: every one of the four positive roots gets to be "the first"
    for root in POSITIVE_EIGHTH_ROOTS_OF_UNITY:
        compare("sqrt_division_FQ2", s * s * v * root * root, v)
    compare("sqrt_division_FQ2", s * s * v, FQ2([FQ(int(c)) for c in v.coeffs]))
assert found[True] and found[False]
compare("sqrt_division_FQ2", FQ(3), FQ(5))
compare("sqrt_division_FQ2", FQ2([3, 1]), FQ(5))
compare("sqrt_division_FQ2", FQ2([3, 1]), None)
compare("sqrt_division_FQ2", None, FQ2([3, 1]))

# ------------------------------------------------------------------ optimized_swu_G1
ts = [FQ(0), FQ(1), FQ(2), FQ(q - 1), FQ(q - 2), FQ((q - 1) // 2), FQ((q + 1) // 2)]
ts += [FQ(i) for i in range(3, 40)]
ts += [rfq() for _ in range(250)]
# exceptional case: Z * t^2 + Z^2 * t^4 == 0  <=>  t == 0 or Z * t^2 == -1
minus_inv_z = FQ(-1) / ISO_11_Z
cand = minus_inv_z ** ((q + 1) // 4)
if cand * cand == minus_inv_z:
    ts += [cand, -cand]
for t in ts:
    compare("optimized_swu_G1", t)
compare("optimized_swu_G1", 5)  # plain int: fails at t.sgn0
compare("optimized_swu_G1", True)
compare("optimized_swu_G1", OTHER_FQ(5))
compare("optimized_swu_G1", FQ2([5, 1]))
compare("optimized_swu_G1", None)
compare("optimized_swu_G1", "5")

# ------------------------------------------------------------------ optimized_swu_G2
t2s = [FQ2([0, 0]), FQ2([1, 0]), FQ2([0, 1]), FQ2([q - 1, q - 1]), FQ2([1, 1])]
t2s += [rfq2() for _ in range(60)]
for t in t2s:
    compare("optimized_swu_G2", t)
compare("optimized_swu_G2", FQ(5))
compare("optimized_swu_G2", None)

print(f"{os.path.basename(os.path.dirname(__file__))}: {calls} calls, {failures} mismatches")
sys.exit(1 if failures else 0)
