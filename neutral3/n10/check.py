"""
Differential check for n10 (py_ecc/bls/ciphersuites.py: _is_valid_privkey, KeyGen,
G2ProofOfPossession._is_valid_pubkey / PopProve / FastAggregateVerify, and the public
APIs that go through them).

"Original" side: the patched source file is loaded a second time as an independent
module (py_ecc.bls._orig_ciphersuites) and the embedded ORIGINAL bodies of the five
touched methods are put back on its classes. (Only adaptation of the embedded copy:
the zero-argument super() of G2ProofOfPossession._is_valid_pubkey is spelled
super(G2ProofOfPossession, cls) because the function is defined outside the class
body.) Exit status 0 iff every call agrees (value, type, exception type and message).
"""
import importlib.util
import os
import random
import sys

import py_ecc.bls.ciphersuites as mod
from py_ecc.optimized_bls12_381 import (
    curve_order,
    field_modulus as q,
)

ORIGINAL = r'''
def _is_valid_privkey(privkey):
    return isinstance(privkey, int) and privkey > 0 and privkey < curve_order


def KeyGen(cls, IKM, key_info=b""):
    salt = b"BLS-SIG-KEYGEN-SALT-"
    SK = 0
    while SK == 0:
        salt = cls.xmd_hash_function(salt).digest()
        prk = hkdf_extract(salt, IKM + b"\x00")
        l = ceil((1.5 * ceil(log2(curve_order))) / 8)  # noqa: E741
        okm = hkdf_expand(prk, key_info + i2osp(l, 2), l)
        SK = os2ip(okm) % curve_order
    return SK


def _is_valid_pubkey(cls, pubkey):
    if not super(G2ProofOfPossession, cls)._is_valid_pubkey(pubkey):
        return False
    return cls.KeyValidate(BLSPubkey(pubkey))


def PopProve(cls, SK):
    pubkey = cls.SkToPk(SK)
    return cls._CoreSign(SK, pubkey, cls.POP_TAG)


def FastAggregateVerify(cls, PKs, message, signature):
    try:
        # Inputs validation
        for pk in PKs:
            if not cls._is_valid_pubkey(pk):
                raise ValidationError("Invalid public key")
        if not cls._is_valid_message(message):
            raise ValidationError("Invalid message")
        if not cls._is_valid_signature(signature):
            raise ValidationError("Invalid signature")

        # Preconditions
        if len(PKs) < 1:
            raise ValidationError("Insufficient number of PKs. (n < 1)")

        # Procedure
        aggregate_pubkey = cls._AggregatePKs(PKs)
    except (ValidationError, AssertionError):
        return False
    else:
        return cls.Verify(aggregate_pubkey, message, signature)
'''

spec = importlib.util.spec_from_file_location(
    "py_ecc.bls._orig_ciphersuites", mod.__file__
)
old = importlib.util.module_from_spec(spec)
spec.loader.exec_module(old)
ns = {}
exec(compile(ORIGINAL, "<original ciphersuites methods>", "exec"), vars(old), ns)
old.BaseG2Ciphersuite._is_valid_privkey = staticmethod(ns["_is_valid_privkey"])
old.BaseG2Ciphersuite.KeyGen = classmethod(ns["KeyGen"])
old.G2ProofOfPossession._is_valid_pubkey = classmethod(ns["_is_valid_pubkey"])
old.G2ProofOfPossession.PopProve = classmethod(ns["PopProve"])
old.G2ProofOfPossession.FastAggregateVerify = classmethod(ns["FastAggregateVerify"])
assert old.BaseG2Ciphersuite is not mod.BaseG2Ciphersuite

SUITES = ("G2Basic", "G2MessageAugmentation", "G2ProofOfPossession")

failures = 0
calls = 0


def describe(x):
    if isinstance(x, (tuple, list)):
        return (type(x).__name__, tuple(describe(e) for e in x))
    return (type(x).__name__, repr(x))


def outcome(f, args):
    try:
        return ("ok", describe(f(*args)))
    except Exception as e:  # noqa: BLE001
        return ("exc", type(e).__name__, str(e))


def compare(suite, name, *args):
    global failures, calls
    calls += 1
    a = outcome(getattr(getattr(old, suite), name), args)
    b = outcome(getattr(getattr(mod, suite), name), args)
    if a != b:
        failures += 1
        print(f"MISMATCH {suite}.{name}{args!r}\n  original: {a}\n  patched : {b}")
    return b


rng = random.Random(20261010)


def rbytes(n):
    return bytes(rng.getrandbits(8) for _ in range(n))


POP = "G2ProofOfPossession"

# ------------------------------------------------------------------ _is_valid_privkey
privs = [0, 1, 2, -1, -curve_order, curve_order - 1, curve_order, curve_order + 1]
privs += [2 * curve_order, 2**255, 2**256, True, False, None, 1.0, 0.5, 5.5, "1"]
privs += [b"\x01", [1], (1,), float("nan"), float("inf"), 1 + 0j, object]
privs += [rng.getrandbits(rng.randrange(1, 300)) for _ in range(150)]
privs += [-rng.getrandbits(rng.randrange(1, 300)) for _ in range(20)]
for sk in privs:
    for suite in SUITES:
        compare(suite, "_is_valid_privkey", sk)
# the public entry points that raise on an invalid key
for sk in [0, -1, curve_order, curve_order + 5, None, 1.0, "1", True, False, 2**300]:
    for suite in SUITES:
        compare(suite, "SkToPk", sk)
        compare(suite, "Sign", sk, b"message")
    compare(POP, "PopProve", sk)

# ------------------------------------------------------------------ KeyGen
ikms = [b"", b"\x00", b"\x00" * 32, b"\xff" * 32, rbytes(31), rbytes(33), rbytes(200)]
ikms += [rbytes(32) for _ in range(80)]
for ikm in ikms:
    suite = rng.choice(SUITES)
    compare(suite, "KeyGen", ikm)
    compare(suite, "KeyGen", ikm, rbytes(rng.choice([0, 1, 5, 40])))
compare(POP, "KeyGen", bytearray(b"\x01" * 32))
compare(POP, "KeyGen", bytearray(b"\x01" * 32), bytearray(b"info"))
compare(POP, "KeyGen", b"\x01" * 32, bytearray(b"info"))
compare(POP, "KeyGen", memoryview(b"\x01" * 32))
compare(POP, "KeyGen", "string ikm")
compare(POP, "KeyGen", None)
compare(POP, "KeyGen", 5)
compare(POP, "KeyGen", [1, 2, 3])
compare(POP, "KeyGen", b"\x01" * 32, "info")
compare(POP, "KeyGen", b"\x01" * 32, None)
compare(POP, "KeyGen", b"\x01" * 32, 7)
# the "SK == 0, go round again" path cannot be reached with real hashes: force it
# by making os2ip return a multiple of the group order for the first k calls
for zero_rounds in (1, 2, 5):
    for target in (old, mod):
        real = target.os2ip
        state = {"left": zero_rounds, "calls": 0}

        def fake(x, real=real, state=state):
            state["calls"] += 1
            if state["left"]:
                state["left"] -= 1
                return 3 * curve_order
            return real(x)

        target.os2ip = fake
        try:
            res = outcome(getattr(target, POP).KeyGen, (b"\x42" * 32, b"info"))
        finally:
            target.os2ip = real
        state["result"] = res
        if target is old:
            first = state
    calls += 1
    if (first["result"], first["calls"]) != (state["result"], state["calls"]):
        failures += 1
        print("MISMATCH KeyGen retry path", zero_rounds, first, state)
    assert state["calls"] == zero_rounds + 1

# ------------------------------------------------------------------ POP pubkey validation
sks = [1, 2, 3, 12345, curve_order - 1] + [rng.randrange(1, curve_order) for _ in range(3)]
pks = [mod.G2ProofOfPossession.SkToPk(sk) for sk in sks]
pk_inputs = list(pks)
for pk in pks[:4]:
    pk_inputs += [
        bytearray(pk),
        pk + b"\x00",
        pk[:47],
        bytes([pk[0] ^ 0x20]) + pk[1:],  # other y: still a valid key
        bytes([pk[0] ^ 0x80]) + pk[1:],  # c_flag cleared
        bytes([pk[0] ^ 0x40]) + pk[1:],  # b_flag set on a finite point
        pk[:-1] + bytes([pk[-1] ^ 1]),  # x changed: usually off curve
    ]
pk_inputs += [rbytes(48) for _ in range(20)]
pk_inputs += [bytes([0x80 | rng.getrandbits(5)]) + rbytes(47) for _ in range(20)]
pk_inputs += [
    b"\xc0" + b"\x00" * 47,  # infinity: well-formed but not a valid key
    b"\xe0" + b"\x00" * 47,
    b"",
    b"\x00" * 48,
    b"\xff" * 48,
    "k" * 48,
    None,
    5,
    list(pks[0]),
    memoryview(pks[0]),
]
# on the curve but not in the subgroup
x = 1
found = 0
while found < 3:
    y2 = (x**3 + 4) % q
    y = pow(y2, (q + 1) // 4, q)
    if y * y % q == y2:
        pk_inputs.append((x + 2**383 + (2**381 if 2 * y // q else 0)).to_bytes(48, "big"))
        found += 1
    x += 1
for pk in pk_inputs:
    for suite in SUITES:
        compare(suite, "_is_valid_pubkey", pk)
    compare(POP, "KeyValidate", pk)

# ------------------------------------------------------------------ PopProve / PopVerify
proofs = []
for sk in sks[:4]:
    r = compare(POP, "PopProve", sk)
    assert r[0] == "ok"
    proofs.append(mod.G2ProofOfPossession.PopProve(sk))
compare(POP, "PopVerify", pks[0], proofs[0])
compare(POP, "PopVerify", pks[1], proofs[0])  # wrong key
compare(POP, "PopVerify", pks[0], proofs[0][:95])
compare(POP, "PopVerify", bytearray(pks[0]), proofs[0])
compare(POP, "PopVerify", b"\xc0" + b"\x00" * 47, proofs[0])

# ------------------------------------------------------------------ FastAggregateVerify
message = b"same message for all"
sigs = [mod.G2ProofOfPossession.Sign(sk, message) for sk in sks[:3]]
agg3 = mod.G2ProofOfPossession.Aggregate(sigs)
agg2 = mod.G2ProofOfPossession.Aggregate(sigs[:2])
inf_sig = b"\xc0" + b"\x00" * 95
cases = [
    (pks[:3], message, agg3),  # valid
    (list(reversed(pks[:3])), message, agg3),  # order does not matter
    (tuple(pks[:3]), message, agg3),
    (pks[:2], message, agg2),
    (pks[:1], message, sigs[0]),
    (pks[:3], message, agg2),  # missing signer
    (pks[:3], b"another message", agg3),
    (pks[:2] + [pks[1]], message, agg3),
    ([], message, agg3),  # n < 1
    ((), message, agg3),
    ([pks[0], pks[1] + b"\x00"], message, agg2),  # bad key length
    ([pks[0], b"\xc0" + b"\x00" * 47], message, agg2),  # infinity key
    ([pks[0], rbytes(48)], message, agg2),
    ([bytearray(pks[0]), pks[1]], message, agg2),
    ([pks[0], None], message, agg2),
    ([pks[0], 5], message, agg2),
    (pks[:2], "text message", agg2),
    (pks[:2], bytearray(message), agg2),
    (pks[:2], None, agg2),
    (pks[:2], message, agg2[:95]),
    (pks[:2], message, agg2 + b"\x00"),
    (pks[:2], message, bytearray(agg2)),
    (pks[:2], message, None),
    (pks[:2], message, rbytes(96)),
    (pks[:2], message, inf_sig),
    ([pks[0], pks[0][:1] + bytes([pks[0][1] ^ 1]) + pks[0][2:]], message, agg2),
    (None, message, agg2),  # TypeError: not iterable (not caught)
    (5, message, agg2),
    (iter(pks[:2]), message, agg2),  # no len(): TypeError after validation
    ({pk: 1 for pk in pks[:2]}, message, agg2),  # dict: iterates keys, has len
    (b"", message, agg2),  # empty bytes: no keys
    (pks[0], message, sigs[0]),  # a bytes object iterates as ints
]
for pks_arg, msg, sig in cases:
    if hasattr(pks_arg, "__next__"):
        saved = list(pks_arg)
        calls += 1
        a = outcome(old.G2ProofOfPossession.FastAggregateVerify, (iter(saved), msg, sig))
        b = outcome(mod.G2ProofOfPossession.FastAggregateVerify, (iter(saved), msg, sig))
        if a != b:
            failures += 1
            print("MISMATCH FastAggregateVerify(iterator)", a, b)
        continue
    compare(POP, "FastAggregateVerify", pks_arg, msg, sig)

# ------------------------------------------------------------------ other public APIs, smoke
for suite in SUITES:
    sk = sks[3]
    r = compare(suite, "Sign", sk, b"msg")
    sig = getattr(mod, suite).Sign(sk, b"msg")
    compare(suite, "Verify", pks[3], b"msg", sig)
    compare(suite, "Verify", pks[2], b"msg", sig)
    compare(suite, "AggregateVerify", [pks[3]], [b"msg"], sig)
    compare(suite, "AggregateVerify", [pks[3], pks[2]], [b"msg"], sig)
    compare(suite, "AggregateVerify", [], [], sig)
    compare(suite, "Aggregate", [])
    compare(suite, "Aggregate", [sig, sig])

print(f"{os.path.basename(os.path.dirname(__file__))}: {calls} calls, {failures} mismatches")
sys.exit(1 if failures else 0)
