"""
Differential check for n3 (py_ecc/bls/point_compression.py:
modular_squareroot_in_FQ2, compress_G2, decompress_G2).

The ORIGINAL function bodies are embedded and executed in a copy of the patched
module's namespace. Exit status 0 iff every call agrees (value, type, exception
type and message).
"""
import os
import random
import sys

import py_ecc.bls.point_compression as mod
from py_ecc.bls.constants import (
    EIGHTH_ROOTS_OF_UNITY,
    POW_2_381,
    POW_2_382,
    POW_2_383,
)
from py_ecc.fields import (
    optimized_bls12_381_FQ as FQ,
    optimized_bls12_381_FQ2 as FQ2,
    optimized_bn128_FQ2 as OTHER_FQ2,
)
from py_ecc.optimized_bls12_381 import (
    G1,
    G2,
    Z2,
    add,
    b2,
    curve_order,
    field_modulus as q,
    multiply,
    neg,
)

ORIGINAL = r'''
def modular_squareroot_in_FQ2(value):
    candidate_squareroot = value ** ((FQ2_ORDER + 8) // 16)
    check = candidate_squareroot**2 / value
    if check in EIGHTH_ROOTS_OF_UNITY[::2]:
        x1 = (
            candidate_squareroot
            / EIGHTH_ROOTS_OF_UNITY[EIGHTH_ROOTS_OF_UNITY.index(check) // 2]
        )
        x2 = -x1
        x1_re, x1_im = x1.coeffs
        x2_re, x2_im = x2.coeffs
        return x1 if (x1_im > x2_im or (x1_im == x2_im and x1_re > x2_re)) else x2
    return None


def compress_G2(pt):
    if not is_on_curve(pt, b2):
        raise ValueError("The given point is not on the twisted curve over FQ**2")
    if is_inf(pt):
        return G2Compressed((POW_2_383 + POW_2_382, 0))
    x, y = normalize(pt)
    x_re, x_im = x.coeffs
    y_re, y_im = y.coeffs
    # Record the leftmost bit of y_im to the a_flag1
    # If y_im happens to be zero, then use the bit of y_re
    a_flag1 = (int(y_im) * 2) // q if y_im > 0 else (int(y_re) * 2) // q

    # Imaginary part of x goes to z1, real part goes to z2
    # c_flag1 = 1, b_flag1 = 0
    z1 = x_im + a_flag1 * POW_2_381 + POW_2_383
    # a_flag2 = b_flag2 = c_flag2 = 0
    z2 = x_re
    return G2Compressed((int(z1), int(z2)))


def decompress_G2(p):
    z1, z2 = p
    c_flag1, b_flag1, a_flag1 = get_flags(z1)

    # c_flag == 1 indicates the compressed form
    # MSB should be 1
    if not c_flag1:
        raise ValueError("c_flag should be 1")

    is_inf_pt = is_point_at_infinity(z1, z2)

    if b_flag1 != is_inf_pt:
        raise ValueError(f"b_flag should be {int(is_inf_pt)}")

    if is_inf_pt:
        # 3 MSBs should be 110
        if a_flag1:
            raise ValueError("a point at infinity should have a_flag == 0")
        return Z2

    # Else, not point at infinity
    # 3 MSBs should be 100 or 101
    x1 = z1 % POW_2_381
    # Ensure that x1 is less than the field modulus.
    if x1 >= q:
        raise ValueError(f"x1 value should be less than field modulus. Got {x1}")

    # Ensure that z2 is less than the field modulus.
    if z2 >= q:
        raise ValueError(f"z2 point value should be less than field modulus. Got {z2}")

    x2 = z2
    # x1 is the imaginary part, x2 is the real part
    x = FQ2([x2, x1])
    y = modular_squareroot_in_FQ2(x**3 + b2)
    if y is None:
        raise ValueError("Failed to find a modular squareroot")

    # Choose the y whose leftmost bit of the imaginary part is equal to the a_flag1
    # If y_im happens to be zero, then use the bit of y_re
    y_re, y_im = y.coeffs
    if (y_im > 0 and (int(y_im) * 2) // q != int(a_flag1)) or (
        y_im == 0 and (int(y_re) * 2) // q != int(a_flag1)
    ):
        y = FQ2((y * -1).coeffs)

    if not is_on_curve((x, y, FQ2([1, 0])), b2):
        raise ValueError("The given point is not on the twisted curve over FQ**2")
    return (x, y, FQ2([1, 0]))
'''

orig = dict(vars(mod))
exec(compile(ORIGINAL, "<original point_compression>", "exec"), orig)

failures = 0
calls = 0


def describe(x):
    if isinstance(x, (tuple, list)):
        return (type(x).__name__, tuple(describe(e) for e in x))
    if hasattr(x, "coeffs"):
        return (type(x).__name__, describe(x.coeffs))
    if hasattr(x, "n") and not isinstance(x, int):
        return (type(x).__name__, describe(x.n))
    return (type(x).__name__, repr(x))


def outcome(f, args):
    try:
        return ("ok", describe(f(*args)))
    except Exception as e:  # noqa: BLE001
        return ("exc", type(e).__name__, str(e))


def compare(name, *args):
    global failures, calls
    calls += 1
    a = outcome(orig[name], args)
    b = outcome(getattr(mod, name), args)
    if a != b:
        failures += 1
        print(f"MISMATCH {name}{args!r}\n  original: {a}\n  patched : {b}")
    return b


rng = random.Random(20261003)


def rfq2():
    return FQ2([rng.randrange(q), rng.randrange(q)])


# ------------------------------------------------------- modular_squareroot_in_FQ2
values = [
    FQ2([0, 0]),
    FQ2([1, 0]),
    FQ2([0, 1]),
    FQ2([q - 1, 0]),
    FQ2([0, q - 1]),
    FQ2([4, 0]),
    FQ2([2, 0]),
    FQ2([4, 4]),
    FQ2([1, 1]),
    FQ2([FQ(9), FQ(0)]),  # FQ coefficients instead of ints
    FQ2([FQ(3), FQ(5)]),
]
values += list(EIGHTH_ROOTS_OF_UNITY)
for _ in range(60):
    v = rfq2()
    values.append(v)  # square or not, 50/50
    values.append(v * v)  # square with both roots having a non-zero imaginary part
    values.append(v * v * EIGHTH_ROOTS_OF_UNITY[rng.randrange(8)])
for _ in range(20):
    a = rng.randrange(q)
    values.append(FQ2([a, 0]))  # real: roots are real or purely imaginary
    values.append(FQ2([a * a % q, 0]))
    values.append(FQ2([(-a * a) % q, 0]))  # roots (0, +-a): equal real parts
    values.append(FQ2([0, a]))
n_none = 0
for v in values:
    res = compare("modular_squareroot_in_FQ2", v)
    n_none += res == ("ok", ("NoneType", "None"))
assert 0 < n_none < len(values)  # both branches exercised
compare("modular_squareroot_in_FQ2", OTHER_FQ2([3, 4]))  # other field: TypeError
compare("modular_squareroot_in_FQ2", FQ(4))
compare("modular_squareroot_in_FQ2", None)

# ------------------------------------------------------- compress_G2
g2_points = [
    G2,
    Z2,
    neg(G2),
    (FQ2([0, 0]), FQ2([1, 0]), FQ2([0, 0])),
    (FQ2([7, 9]), FQ2([0, 0]), FQ2([0, 0])),
]
for _ in range(25):
    pt = multiply(G2, rng.randrange(1, curve_order))
    g2_points.append(pt)
    g2_points.append(tuple(c * rng.randrange(2, q) for c in pt))
    lam = rfq2()
    g2_points.append(tuple(c * lam for c in pt))
    g2_points.append(neg(pt))
# curve points with y_im == 0 (x real with x^3+4+4i ... not real) are rare; build
# points on the twist by decompressing arbitrary x and keep those that exist,
# including x values that make y purely real/imaginary when they occur
decompressed = []
tries = 0
while len(decompressed) < 40 and tries < 400:
    tries += 1
    x_im, x_re = rng.randrange(q), rng.randrange(q)
    if tries % 5 == 0:
        x_im = 0
    z1 = POW_2_383 + rng.getrandbits(1) * POW_2_381 + x_im
    r = compare("decompress_G2", (z1, x_re))
    if r[0] == "ok":
        decompressed.append(mod.decompress_G2((z1, x_re)))
g2_points += decompressed
# off-curve
for _ in range(10):
    g2_points.append((rfq2(), rfq2(), FQ2([1, 0])))
    g2_points.append((rfq2(), rfq2(), rfq2()))

compressed = []
for pt in g2_points:
    r = compare("compress_G2", pt)
    compare("compress_G2", list(pt))
    if r[0] == "ok":
        compressed.append(mod.compress_G2(pt))
compare("compress_G2", None)
compare("compress_G2", G1)
compare("compress_G2", (FQ2([1, 0]), FQ2([1, 0])))
compare("compress_G2", (FQ2([1, 0]), FQ2([1, 0]), FQ2([1, 0]), FQ2([1, 0])))

# ------------------------------------------------------- decompress_G2
inputs = list(compressed)
for z1, z2 in compressed:
    inputs.append([z1, z2])
    inputs.append((z1 ^ POW_2_381, z2))  # other sign
    inputs.append((z1 ^ POW_2_383, z2))  # c_flag cleared
    inputs.append((z1 ^ POW_2_382, z2))  # b_flag flipped
    inputs.append((z1, z2 + q))
    inputs.append((z1, z2 + 1))
    inputs.append((z1 + 1, z2))
    inputs.append((z1 + 2**384, z2))  # bits above 384 are ignored by get_flags
    inputs.append((z1, -z2))
for _ in range(150):
    inputs.append(
        (
            POW_2_383 + rng.getrandbits(1) * POW_2_381 + rng.randrange(q),
            rng.randrange(q),
        )
    )
    inputs.append((rng.getrandbits(384), rng.getrandbits(381)))
inputs += [
    (POW_2_383 + POW_2_382, 0),
    (POW_2_383 + POW_2_382 + POW_2_381, 0),
    (POW_2_383 + POW_2_382, 1),
    (POW_2_383, 0),
    (POW_2_383 + POW_2_381, 0),
    (POW_2_383 + q, 0),
    (POW_2_383 + q - 1, q - 1),
    (POW_2_383 + POW_2_381 - 1, 0),
    (POW_2_383, q),
    (0, 0),
    (-1, 0),
    (POW_2_383 + 5, None),
    (None, 0),
    (POW_2_383 + 5,),
    (POW_2_383 + 5, 1, 2),
    None,
    (float(POW_2_383), 0),
    (POW_2_383 + 5, 1.0),
    (True, False),
]
for p in inputs:
    compare("decompress_G2", p)

# ------------------------------------------------------- sign selection, y_im == 0
# Square roots with a zero imaginary part are too rare to hit by sampling, so the
# sign-selection step of decompress_G2 is also driven with a stubbed square root
# (and a stubbed curve test) in BOTH implementations.
edge = [0, 1, 2, (q - 1) // 2, (q + 1) // 2, q - 2, q - 1]
saved = (mod.modular_squareroot_in_FQ2, mod.is_on_curve)
saved_orig = (orig["modular_squareroot_in_FQ2"], orig["is_on_curve"])
try:
    for y_re in edge:
        for y_im in edge:
            stub_sqrt = lambda value, c=(y_re, y_im): FQ2(c)  # noqa: E731
            stub_curve = lambda pt, b: True  # noqa: E731
            mod.modular_squareroot_in_FQ2 = orig["modular_squareroot_in_FQ2"] = stub_sqrt
            mod.is_on_curve = orig["is_on_curve"] = stub_curve
            for a_flag in (0, 1):
                compare("decompress_G2", (POW_2_383 + a_flag * POW_2_381 + 5, 7))
finally:
    mod.modular_squareroot_in_FQ2, mod.is_on_curve = saved
    orig["modular_squareroot_in_FQ2"], orig["is_on_curve"] = saved_orig

print(f"{os.path.basename(os.path.dirname(__file__))}: {calls} calls, {failures} mismatches")
sys.exit(1 if failures else 0)
