"""
Differential check for n6 (py_ecc/optimized_bn128/optimized_pairing.py and
py_ecc/bn128/bn128_pairing.py: cast_point_to_fq12, miller_loop, pairing).

For each module the ORIGINAL bodies of the three functions are embedded and executed
in a copy of the patched module's namespace. Exit status 0 iff every call agrees
(value, type, exception type and message).
"""
import os
import random
import sys

import py_ecc.bn128.bn128_pairing as plain
import py_ecc.optimized_bn128.optimized_pairing as opt
from py_ecc import (
    bn128,
    optimized_bn128,
)

ORIGINAL_OPT = r'''
def cast_point_to_fq12(pt):
    if pt is None:
        return None
    x, y, z = pt
    return (FQ12([x.n] + [0] * 11), FQ12([y.n] + [0] * 11), FQ12([z.n] + [0] * 11))


def miller_loop(Q, P, final_exponentiate=True):
    if Q is None or P is None:
        return FQ12.one()
    R = Q
    f_num, f_den = FQ12.one(), FQ12.one()
    # for i in range(log_ate_loop_count, -1, -1):
    for v in pseudo_binary_encoding[63::-1]:
        _n, _d = linefunc(R, R, P)
        f_num = f_num * f_num * _n
        f_den = f_den * f_den * _d
        R = double(R)
        # if ate_loop_count & (2**i):
        if v == 1:
            _n, _d = linefunc(R, Q, P)
            f_num = f_num * _n
            f_den = f_den * _d
            R = add(R, Q)
        elif v == -1:
            nQ = neg(Q)
            _n, _d = linefunc(R, nQ, P)
            f_num = f_num * _n
            f_den = f_den * _d
            R = add(R, nQ)
    # assert R == multiply(Q, ate_loop_count)
    Q1 = (Q[0] ** field_modulus, Q[1] ** field_modulus, Q[2] ** field_modulus)
    # assert is_on_curve(Q1, b12)
    nQ2 = (Q1[0] ** field_modulus, -Q1[1] ** field_modulus, Q1[2] ** field_modulus)
    # assert is_on_curve(nQ2, b12)
    _n1, _d1 = linefunc(R, Q1, P)
    R = add(R, Q1)
    _n2, _d2 = linefunc(R, nQ2, P)
    f = f_num * _n1 * _n2 / (f_den * _d1 * _d2)
    # R = add(R, nQ2) This line is in many specifications but technically does nothing
    if final_exponentiate:
        return f ** ((field_modulus**12 - 1) // curve_order)
    else:
        return f


def pairing(Q, P, final_exponentiate=True):
    if not is_on_curve(Q, b2):
        raise ValueError("Invalid input - point Q is not on the correct curve")
    if not is_on_curve(P, b):
        raise ValueError("Invalid input - point P is not on the correct curves")
    if P[-1] == (P[-1].zero()) or Q[-1] == (Q[-1].zero()):
        return FQ12.one()
    return miller_loop(
        twist(Q), cast_point_to_fq12(P), final_exponentiate=final_exponentiate
    )
'''

ORIGINAL_PLAIN = r'''
def cast_point_to_fq12(pt):
    if pt is None:
        return None
    x, y = pt
    fq12_point = (FQ12([x.n] + [0] * 11), FQ12([y.n] + [0] * 11))
    return fq12_point


def miller_loop(Q, P):
    if Q is None or P is None:
        return FQ12.one()
    R = Q
    f = FQ12.one()
    for i in range(log_ate_loop_count, -1, -1):
        f = f * f * linefunc(R, R, P)
        R = double(R)
        if ate_loop_count & (2**i):
            f = f * linefunc(R, Q, P)
            R = add(R, Q)
    # assert R == multiply(Q, ate_loop_count)
    Q1 = (Q[0] ** field_modulus, Q[1] ** field_modulus)
    # assert is_on_curve(Q1, b12)
    nQ2 = (Q1[0] ** field_modulus, -Q1[1] ** field_modulus)
    # assert is_on_curve(nQ2, b12)
    f = f * linefunc(R, Q1, P)
    R = add(R, Q1)
    f = f * linefunc(R, nQ2, P)
    # R = add(R, nQ2) This line is in many specifications but technically does nothing
    return f ** ((field_modulus**12 - 1) // curve_order)


def pairing(Q, P):
    if not is_on_curve(Q, b2):
        raise ValueError("Invalid input - point Q is not on the correct curve")
    if not is_on_curve(P, b):
        raise ValueError("Invalid input - point P is not on the correct curves")
    return miller_loop(twist(Q), cast_point_to_fq12(P))
'''

orig_opt = dict(vars(opt))
exec(compile(ORIGINAL_OPT, "<original optimized_pairing>", "exec"), orig_opt)
orig_plain = dict(vars(plain))
exec(compile(ORIGINAL_PLAIN, "<original bn128_pairing>", "exec"), orig_plain)

failures = 0
calls = 0


def describe(x):
    if isinstance(x, (tuple, list)):
        return (type(x).__name__, tuple(describe(e) for e in x))
    if hasattr(x, "coeffs"):
        return (type(x).__name__, describe(x.coeffs))
    if hasattr(x, "n") and not isinstance(x, int):
        return (type(x).__name__, describe(x.n))
    return (type(x).__name__, repr(x))


def outcome(f, args, kwargs):
    try:
        return ("ok", describe(f(*args, **kwargs)))
    except Exception as e:  # noqa: BLE001
        return ("exc", type(e).__name__, str(e))


def compare(orig_ns, module, name, *args, **kwargs):
    global failures, calls
    calls += 1
    a = outcome(orig_ns[name], args, kwargs)
    b = outcome(getattr(module, name), args, kwargs)
    if a != b:
        failures += 1
        print(
            f"MISMATCH {module.__name__}.{name}{args!r}{kwargs!r}\n"
            f"  original: {a}\n  patched : {b}"
        )
    return b


rng = random.Random(20261006)

# =========================================================== optimized_bn128
O = optimized_bn128
oq = O.field_modulus
OFQ, OFQ2, OFQ12 = O.FQ, O.FQ2, O.FQ12


def scale(pt, lam):
    return tuple(c * lam for c in pt)


o_g1 = [O.G1, O.Z1, O.neg(O.G1), (OFQ(0), OFQ(5), OFQ(0))]
o_g2 = [O.G2, O.Z2, O.neg(O.G2), (OFQ2([0, 0]), OFQ2([3, 4]), OFQ2([0, 0]))]
for _ in range(6):
    p1 = O.multiply(O.G1, rng.randrange(1, O.curve_order))
    p2 = O.multiply(O.G2, rng.randrange(1, O.curve_order))
    o_g1 += [p1, scale(p1, rng.randrange(2, oq))]
    o_g2 += [p2, scale(p2, rng.randrange(2, oq))]
o_bad1 = [(OFQ(1), OFQ(3), OFQ(1)), (OFQ(7), OFQ(9), OFQ(11))]
o_bad2 = [(OFQ2([1, 2]), OFQ2([3, 4]), OFQ2([1, 0]))]

# cast_point_to_fq12
for pt in o_g1 + o_bad1:
    compare(orig_opt, opt, "cast_point_to_fq12", pt)
    compare(orig_opt, opt, "cast_point_to_fq12", list(pt))
for _ in range(100):
    pt = tuple(OFQ(rng.randrange(oq)) for _ in range(3))
    compare(orig_opt, opt, "cast_point_to_fq12", pt)
for bad in [
    None,
    (),
    (OFQ(1), OFQ(2)),
    (OFQ(1), OFQ(2), OFQ(3), OFQ(4)),
    (1, 2, 3),
    (OFQ(1), 2, OFQ(3)),
    (OFQ(1), OFQ(2), None),
    O.G2,
    5,
    "abc",
]:
    compare(orig_opt, opt, "cast_point_to_fq12", bad)

# pairing: guards, infinity shortcuts, both final_exponentiate settings
for Q in o_g2[:4] + o_bad2:
    for P in o_g1[:4] + o_bad1:
        if Q is O.G2 and P is O.G1:
            continue  # the generic case is covered below
        for fe in (True, False):
            compare(orig_opt, opt, "pairing", Q, P, final_exponentiate=fe)
for Q, P in zip(o_g2[4:], o_g1[4:]):
    compare(orig_opt, opt, "pairing", Q, P)
    compare(orig_opt, opt, "pairing", Q, P, final_exponentiate=False)
    compare(orig_opt, opt, "pairing", Q, P, False)
compare(orig_opt, opt, "pairing", O.G2, O.G1, final_exponentiate=0)
compare(orig_opt, opt, "pairing", O.G2, O.G1, final_exponentiate="yes")
compare(orig_opt, opt, "pairing", O.G2, O.G1, final_exponentiate=None)
compare(orig_opt, opt, "pairing", list(O.G2), list(O.G1))
compare(orig_opt, opt, "pairing", O.G1, O.G2)  # swapped arguments
compare(orig_opt, opt, "pairing", None, O.G1)
compare(orig_opt, opt, "pairing", O.G2, None)
compare(orig_opt, opt, "pairing", O.G2, (OFQ(1), OFQ(2)))
compare(orig_opt, opt, "pairing", (OFQ2([1, 0]), OFQ2([1, 0])), O.G1)

# miller_loop called directly
tw = [O.twist(q_) for q_ in o_g2[4:8]]
cp = [opt.cast_point_to_fq12(p_) for p_ in o_g1[4:8]]
for Q, P in zip(tw, cp):
    compare(orig_opt, opt, "miller_loop", Q, P)
    compare(orig_opt, opt, "miller_loop", Q, P, False)
    compare(orig_opt, opt, "miller_loop", list(Q), list(P), final_exponentiate=False)
compare(orig_opt, opt, "miller_loop", None, cp[0])
compare(orig_opt, opt, "miller_loop", tw[0], None)
compare(orig_opt, opt, "miller_loop", None, None, False)
compare(orig_opt, opt, "miller_loop", O.twist(O.Z2), cp[0], False)  # infinity in
compare(orig_opt, opt, "miller_loop", tw[0], opt.cast_point_to_fq12(O.Z1), False)
compare(orig_opt, opt, "miller_loop", tw[0][:2], cp[0], False)  # too short
compare(orig_opt, opt, "miller_loop", tw[0], cp[0][:2], False)
compare(orig_opt, opt, "miller_loop", tw[0] + (OFQ12.one(),), cp[0], False)
compare(orig_opt, opt, "miller_loop", O.G2, O.G1, False)  # untwisted operands
compare(orig_opt, opt, "miller_loop", (1, 2, 3), cp[0], False)
compare(orig_opt, opt, "miller_loop", tw[0], (1, 2, 3), False)
compare(orig_opt, opt, "miller_loop", 5, 6, False)

# =========================================================== bn128 (plain)
B = bn128
bq = B.field_modulus
BFQ, BFQ2, BFQ12 = B.FQ, B.FQ2, B.FQ12

b_g1 = [B.G1, B.neg(B.G1)]
b_g2 = [B.G2, B.neg(B.G2)]
for _ in range(3):
    b_g1.append(B.multiply(B.G1, rng.randrange(1, B.curve_order)))
    b_g2.append(B.multiply(B.G2, rng.randrange(1, B.curve_order)))

for pt in b_g1 + [(BFQ(1), BFQ(3))]:
    compare(orig_plain, plain, "cast_point_to_fq12", pt)
    compare(orig_plain, plain, "cast_point_to_fq12", list(pt))
for _ in range(100):
    pt = (BFQ(rng.randrange(bq)), BFQ(rng.randrange(bq)))
    compare(orig_plain, plain, "cast_point_to_fq12", pt)
for bad in [
    None,
    (),
    (BFQ(1),),
    (BFQ(1), BFQ(2), BFQ(3)),
    (1, 2),
    (BFQ(1), None),
    B.G2,
    5,
    "ab",
]:
    compare(orig_plain, plain, "cast_point_to_fq12", bad)

# pairing: guards and infinity
compare(orig_plain, plain, "pairing", None, B.G1)
compare(orig_plain, plain, "pairing", B.G2, None)
compare(orig_plain, plain, "pairing", None, None)
compare(orig_plain, plain, "pairing", (BFQ2([1, 2]), BFQ2([3, 4])), B.G1)
compare(orig_plain, plain, "pairing", B.G2, (BFQ(1), BFQ(3)))
compare(orig_plain, plain, "pairing", B.G1, B.G2)
compare(orig_plain, plain, "pairing", B.G2, (BFQ(1), BFQ(2), BFQ(3)))
# full pairings are slow in the plain implementation: a handful is enough
for Q, P in list(zip(b_g2, b_g1))[:4]:
    compare(orig_plain, plain, "pairing", Q, P)
compare(orig_plain, plain, "pairing", list(b_g2[2]), list(b_g1[3]))

twQ = B.twist(b_g2[3])
cpP = plain.cast_point_to_fq12(b_g1[2])
compare(orig_plain, plain, "miller_loop", twQ, cpP)
compare(orig_plain, plain, "miller_loop", None, cpP)
compare(orig_plain, plain, "miller_loop", twQ, None)
compare(orig_plain, plain, "miller_loop", twQ[:1], cpP)
compare(orig_plain, plain, "miller_loop", twQ, cpP[:1])
compare(orig_plain, plain, "miller_loop", twQ + (BFQ12.one(),), cpP)
compare(orig_plain, plain, "miller_loop", B.G2, B.G1)  # untwisted operands
compare(orig_plain, plain, "miller_loop", (1, 2), cpP)
compare(orig_plain, plain, "miller_loop", 5, 6)

print(f"{os.path.basename(os.path.dirname(__file__))}: {calls} calls, {failures} mismatches")
sys.exit(1 if failures else 0)
