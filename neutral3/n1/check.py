"""
Differential check for n1 (py_ecc/secp256k1/secp256k1.py).

The ORIGINAL bodies of the touched functions (and of the thin wrappers that call
them) are embedded below and executed in a copy of the patched module's namespace,
so they share the untouched helpers (inv, jacobian_*, bytes_to_int, constants).
Exit status 0 iff every call agrees (value, type, exception type and message).
"""
import os
import random
import sys

import py_ecc.secp256k1.secp256k1 as mod

ORIGINAL = r'''
def to_jacobian(p):
    o = (p[0], p[1], 1)
    return cast("PlainPoint3D", o)


def from_jacobian(p):
    z = inv(p[2], P)
    return cast("PlainPoint2D", ((p[0] * z**2) % P, (p[1] * z**3) % P))


def multiply(a, n):
    return from_jacobian(jacobian_multiply(to_jacobian(a), n))


def add(a, b):
    return from_jacobian(jacobian_add(to_jacobian(a), to_jacobian(b)))


def privtopub(privkey):
    return multiply(G, bytes_to_int(privkey))


def deterministic_generate_k(msghash, priv):
    v = b"\x01" * 32
    k = b"\x00" * 32
    k = hmac.new(k, v + b"\x00" + priv + msghash, hashlib.sha256).digest()
    v = hmac.new(k, v, hashlib.sha256).digest()
    k = hmac.new(k, v + b"\x01" + priv + msghash, hashlib.sha256).digest()
    v = hmac.new(k, v, hashlib.sha256).digest()
    return bytes_to_int(hmac.new(k, v, hashlib.sha256).digest())


def ecdsa_raw_sign(msghash, priv):
    z = bytes_to_int(msghash)
    k = deterministic_generate_k(msghash, priv)

    r, y = multiply(G, k)
    s = inv(k, N) * (z + r * bytes_to_int(priv)) % N

    v, r, s = 27 + ((y % 2) ^ (0 if s * 2 < N else 1)), r, s if s * 2 < N else N - s
    return v, r, s


def ecdsa_raw_recover(msghash, vrs):
    v, r, s = vrs
    if v not in (27, 28):
        raise ValueError(f"value of v was {v}, must be either 27 or 28")
    x = r
    xcubedaxb = (x * x * x + A * x + B) % P
    beta = pow(xcubedaxb, (P + 1) // 4, P)
    y = beta if v % 2 ^ beta % 2 else (P - beta)
    # If xcubedaxb is not a quadratic residue, then r cannot be the x coord
    # for a point on the curve, and so the sig is invalid
    if (xcubedaxb - y * y) % P != 0 or not (r % N) or not (s % N):
        raise ValueError(
            f"sig is invalid, {r} cannot be the x coord for point on curve"
        )
    z = bytes_to_int(msghash)
    Gz = jacobian_multiply(cast("PlainPoint3D", (Gx, Gy, 1)), (N - z) % N)
    XY = jacobian_multiply(cast("PlainPoint3D", (x, y, 1)), s)
    Qr = jacobian_add(Gz, XY)
    Q = jacobian_multiply(Qr, inv(r, N))
    Q_jacobian = from_jacobian(Q)

    return Q_jacobian
'''

orig = dict(vars(mod))
exec(compile(ORIGINAL, "<original secp256k1>", "exec"), orig)

failures = 0
calls = 0


def describe(x):
    if isinstance(x, (tuple, list)):
        return (type(x).__name__, tuple(describe(e) for e in x))
    return (type(x).__name__, repr(x))


def outcome(f, args):
    try:
        return ("ok", describe(f(*args)))
    except Exception as e:  # noqa: BLE001
        return ("exc", type(e).__name__, str(e))


def compare(name, *args):
    global failures, calls
    calls += 1
    a = outcome(orig[name], args)
    b = outcome(getattr(mod, name), args)
    if a != b:
        failures += 1
        print(f"MISMATCH {name}{args!r}\n  original: {a}\n  patched : {b}")


rng = random.Random(20261001)
P, N, G = mod.P, mod.N, mod.G


def rbytes(n):
    return bytes(rng.getrandbits(8) for _ in range(n))


def rscalar():
    c = rng.random()
    if c < 0.15:
        return rng.choice([0, 1, 2, 3, N - 1, N, N + 1, 2 * N, -1, -N, 2**256 - 1])
    if c < 0.3:
        return rng.getrandbits(rng.randrange(1, 40))
    return rng.getrandbits(256)


# --- to_jacobian / from_jacobian / multiply / add / privtopub -------------------
points = [G, (0, 0), (1, 2), (P - 1, P - 2), (-5, 7), (P + 3, 2 * P + 9)]
for _ in range(40):
    points.append(mod.multiply(G, rng.randrange(1, N)))
for pt in points:
    compare("to_jacobian", pt)
    compare("to_jacobian", list(pt))
    compare("to_jacobian", pt + (99,))  # longer sequences are simply indexed
compare("to_jacobian", (1,))  # IndexError
compare("to_jacobian", ())
compare("to_jacobian", None)  # TypeError

jac = [(0, 0, 0), (0, 0, 1), (1, 2, 0), (5, 6, P), (3, 4, 1), (-3, -4, -1)]
for _ in range(80):
    base = mod.to_jacobian(rng.choice(points))
    jac.append(mod.jacobian_multiply(base, rscalar()))
    jac.append(
        (rng.getrandbits(256), rng.getrandbits(256), rng.getrandbits(256))
    )
for j in jac:
    compare("from_jacobian", j)
    compare("from_jacobian", list(j))
compare("from_jacobian", (1, 2))  # IndexError
compare("from_jacobian", None)

for _ in range(60):
    compare("multiply", rng.choice(points), rscalar())
    compare("add", rng.choice(points), rng.choice(points))
for pt in points[:8]:
    compare("add", pt, pt)
    compare("add", pt, (pt[0], (-pt[1]) % P))
for _ in range(20):
    compare("privtopub", rbytes(32))
compare("privtopub", b"")
compare("privtopub", b"\x00" * 32)
compare("privtopub", "abc")  # str handled by safe_ord

# --- deterministic_generate_k / ecdsa_raw_sign ------------------------------------
msgs = [b"", b"\x00" * 32, b"\xff" * 32, rbytes(31), rbytes(33), rbytes(64)]
privs = [b"", b"\x00" * 32, b"\x01", b"\xff" * 32, (N - 1).to_bytes(32, "big")]
for _ in range(40):
    msgs.append(rbytes(32))
    privs.append(rbytes(32))
sigs = []
for i in range(120):
    m, k = rng.choice(msgs), rng.choice(privs)
    compare("deterministic_generate_k", m, k)
    compare("ecdsa_raw_sign", m, k)
    if i < 40:
        sigs.append((m, mod.ecdsa_raw_sign(m, k)))
for m, k in [
    (bytearray(b"\x05" * 32), bytearray(b"\x06" * 32)),
    (b"\x05" * 32, bytearray(b"\x06" * 32)),
    (memoryview(b"\x05" * 32), b"\x07" * 32),
    ("text", b"\x07" * 32),
    (b"\x07" * 32, "text"),
    (b"\x07" * 32, None),
    (None, b"\x07" * 32),
    (b"\x07" * 32, [1, 2, 3]),
]:
    compare("deterministic_generate_k", m, k)
    compare("ecdsa_raw_sign", m, k)

# --- ecdsa_raw_recover ---------------------------------------------------------------
for m, (v, r, s) in sigs:
    compare("ecdsa_raw_recover", m, (v, r, s))
    compare("ecdsa_raw_recover", m, [v, r, s])
    compare("ecdsa_raw_recover", m, (55 - v, r, s))  # other parity
    compare("ecdsa_raw_recover", m, (v, r, N - s))
    compare("ecdsa_raw_recover", rbytes(32), (v, r, s))
    compare("ecdsa_raw_recover", m, (v, r + N, s))
for _ in range(60):
    v = rng.choice([27, 28, 27, 28, 0, 1, 26, 29, -27, True, 27.0, 28.0, None, "27"])
    r = rng.choice([0, 1, 2, 5, N, N - 1, N + 1, P, P - 1, -1, rng.getrandbits(256)])
    s = rng.choice([0, 1, N, N - 1, 2 * N, -1, rng.getrandbits(256)])
    compare("ecdsa_raw_recover", rng.choice(msgs), (v, r, s))
compare("ecdsa_raw_recover", b"\x01" * 32, (27, 1))  # unpack error
compare("ecdsa_raw_recover", b"\x01" * 32, (27, 1, 2, 3))
compare("ecdsa_raw_recover", b"\x01" * 32, None)
compare("ecdsa_raw_recover", "text", (27, 1, 1))
compare("ecdsa_raw_recover", None, (27, 1, 1))
compare("ecdsa_raw_recover", b"\x01" * 32, (27, 1, None))
compare("ecdsa_raw_recover", b"\x01" * 32, (27, 5, None))
compare("ecdsa_raw_recover", b"\x01" * 32, (27, None, 1))
compare("ecdsa_raw_recover", b"\x01" * 32, (27, 1.0, 1))
compare("ecdsa_raw_recover", b"\x01" * 32, (28, 1, 1.5))

print(f"{os.path.basename(os.path.dirname(__file__))}: {calls} calls, {failures} mismatches")
sys.exit(1 if failures else 0)
