"""
Differential check for n2 (py_ecc/bls/g2_primitives.py).

The ORIGINAL function bodies are embedded and executed in a copy of the patched
module's namespace (same compress/decompress/i2osp/os2ip/multiply helpers).
Exit status 0 iff every call agrees (value, type, exception type and message).
"""
import os
import random
import sys

import py_ecc.bls.g2_primitives as mod
from py_ecc.fields import (
    optimized_bls12_381_FQ as FQ,
    optimized_bls12_381_FQ2 as FQ2,
)
from py_ecc.optimized_bls12_381 import (
    G1,
    G2,
    Z1,
    Z2,
    add,
    curve_order,
    field_modulus as q,
    multiply,
    neg,
)

ORIGINAL = r'''
def subgroup_check(P):
    return is_inf(multiply(P, curve_order))


def G2_to_signature(pt):
    z1, z2 = compress_G2(pt)
    return BLSSignature(i2osp(z1, 48) + i2osp(z2, 48))


def signature_to_G2(signature):
    p = G2Compressed((os2ip(signature[:48]), os2ip(signature[48:])))
    signature_point = decompress_G2(p)
    return signature_point


def G1_to_pubkey(pt):
    z = compress_G1(pt)
    return BLSPubkey(i2osp(z, 48))


def pubkey_to_G1(pubkey):
    z = os2ip(pubkey)
    return decompress_G1(G1Compressed(z))
'''

orig = dict(vars(mod))
exec(compile(ORIGINAL, "<original g2_primitives>", "exec"), orig)

failures = 0
calls = 0


def describe(x):
    if isinstance(x, (tuple, list)):
        return (type(x).__name__, tuple(describe(e) for e in x))
    if hasattr(x, "coeffs"):
        return (type(x).__name__, describe(x.coeffs))
    if hasattr(x, "n") and not isinstance(x, int):
        return (type(x).__name__, describe(x.n))
    return (type(x).__name__, repr(x))


def outcome(f, args):
    try:
        return ("ok", describe(f(*args)))
    except Exception as e:  # noqa: BLE001
        return ("exc", type(e).__name__, str(e))


def compare(name, *args):
    global failures, calls
    calls += 1
    a = outcome(orig[name], args)
    b = outcome(getattr(mod, name), args)
    if a != b:
        failures += 1
        print(f"MISMATCH {name}{args!r}\n  original: {a}\n  patched : {b}")


rng = random.Random(20261002)


def rbytes(n):
    return bytes(rng.getrandbits(8) for _ in range(n))


def scale(pt, lam):
    """Same projective point, non-canonical representative."""
    return tuple(c * lam for c in pt)


# ---------------------------------------------------------------- G1 side
g1_points = [G1, Z1, neg(G1), (FQ(0), FQ(1), FQ(0)), (FQ(5), FQ(0), FQ(0))]
for _ in range(25):
    pt = multiply(G1, rng.randrange(1, curve_order))
    g1_points.append(pt)
    g1_points.append(scale(pt, rng.randrange(2, q)))
    g1_points.append(add(pt, multiply(G1, rng.randrange(1, 1000))))
# points that are not on the curve / not in the subgroup
for _ in range(10):
    g1_points.append((FQ(rng.randrange(q)), FQ(rng.randrange(q)), FQ(1)))
    g1_points.append(
        (FQ(rng.randrange(q)), FQ(rng.randrange(q)), FQ(rng.randrange(q)))
    )
# on the curve but outside the r-torsion: find x with x^3+4 a square
found = 0
x = 1
while found < 5:
    y2 = (x**3 + 4) % q
    y = pow(y2, (q + 1) // 4, q)
    if y * y % q == y2:
        g1_points.append((FQ(x), FQ(y), FQ(1)))
        found += 1
    x += 1

pubkeys = []
for pt in g1_points:
    compare("G1_to_pubkey", pt)
    compare("G1_to_pubkey", list(pt))
    compare("subgroup_check", pt)
    try:
        pubkeys.append(mod.G1_to_pubkey(pt))
    except Exception:  # noqa: BLE001
        pass
compare("G1_to_pubkey", None)
compare("G1_to_pubkey", (FQ(1), FQ(2)))
compare("G1_to_pubkey", G2)  # wrong group
compare("subgroup_check", None)
compare("subgroup_check", (FQ(1), FQ(2)))

pk_inputs = list(pubkeys)
for pk in pubkeys[:20]:
    pk_inputs.append(bytearray(pk))
    pk_inputs.append(bytes([pk[0] ^ 0x20]) + pk[1:])  # flip a_flag
    pk_inputs.append(bytes([pk[0] ^ 0x80]) + pk[1:])  # clear c_flag
    pk_inputs.append(bytes([pk[0] ^ 0x40]) + pk[1:])  # flip b_flag
    pk_inputs.append(pk + b"\x00")
    pk_inputs.append(b"\x00" + pk)
    pk_inputs.append(pk[:47])
for _ in range(60):
    pk_inputs.append(rbytes(48))
    pk_inputs.append(bytes([0x80 | rng.getrandbits(5)]) + rbytes(47))
pk_inputs += [
    b"",
    b"\xc0" + b"\x00" * 47,
    b"\xe0" + b"\x00" * 47,
    b"\x80" + b"\x00" * 47,
    b"\xff" * 48,
    b"\x9f" + b"\xff" * 47,
    "string",
    None,
    12345,
    [1, 2, 3],
    memoryview(pubkeys[0]),
]
for pk in pk_inputs:
    compare("pubkey_to_G1", pk)

# ---------------------------------------------------------------- G2 side
g2_points = [G2, Z2, neg(G2), (FQ2([0, 0]), FQ2([1, 0]), FQ2([0, 0]))]
for _ in range(12):
    pt = multiply(G2, rng.randrange(1, curve_order))
    g2_points.append(pt)
    g2_points.append(scale(pt, rng.randrange(2, q)))
    g2_points.append(
        scale(pt, FQ2([rng.randrange(q), rng.randrange(q)]))
    )
for _ in range(6):
    g2_points.append(
        (
            FQ2([rng.randrange(q), rng.randrange(q)]),
            FQ2([rng.randrange(q), rng.randrange(q)]),
            FQ2([1, 0]),
        )
    )

signatures = []
for pt in g2_points:
    compare("G2_to_signature", pt)
    compare("G2_to_signature", list(pt))
    compare("subgroup_check", pt)
    try:
        signatures.append(mod.G2_to_signature(pt))
    except Exception:  # noqa: BLE001
        pass
compare("G2_to_signature", None)
compare("G2_to_signature", G1)  # wrong group
compare("G2_to_signature", (FQ2([1, 0]), FQ2([1, 0])))

sig_inputs = list(signatures)
for sig in signatures[:14]:
    sig_inputs.append(bytearray(sig))
    sig_inputs.append(bytes([sig[0] ^ 0x20]) + sig[1:])
    sig_inputs.append(bytes([sig[0] ^ 0x80]) + sig[1:])
    sig_inputs.append(bytes([sig[0] ^ 0x40]) + sig[1:])
    sig_inputs.append(sig[:48] + bytes([sig[48] | 0x80]) + sig[49:])
    sig_inputs.append(sig + b"\x00")
    sig_inputs.append(b"\x00" + sig)
    sig_inputs.append(sig[:95])
    sig_inputs.append(sig[:48])
    sig_inputs.append(sig[:20])
for _ in range(50):
    sig_inputs.append(rbytes(96))
    sig_inputs.append(bytes([0x80 | rng.getrandbits(5)]) + rbytes(95))
    sig_inputs.append(
        bytes([0x80 | rng.getrandbits(4)])
        + rbytes(47)
        + bytes([rng.getrandbits(4)])
        + rbytes(47)
    )
sig_inputs += [
    b"",
    b"\xc0" + b"\x00" * 95,
    b"\xe0" + b"\x00" * 95,
    b"\xc0" + b"\x00" * 94 + b"\x01",
    b"\x80" + b"\x00" * 95,
    b"\xff" * 96,
    "s" * 96,
    None,
    12345,
    list(range(96)),
    memoryview(signatures[0]),
]
for sig in sig_inputs:
    compare("signature_to_G2", sig)

print(f"{os.path.basename(os.path.dirname(__file__))}: {calls} calls, {failures} mismatches")
sys.exit(1 if failures else 0)
