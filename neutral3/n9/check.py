"""
Differential check for n9 (py_ecc/fields/optimized_field_elements.py: FQP.__mul__,
FQP.optimized_poly_rounded_div, FQ2.__init__, FQ12.__init__; inv / division / pow
are compared too because they run through the touched code).

"Original" side: the patched source file is loaded a second time as an independent
module; the embedded ORIGINAL bodies of FQP.__mul__ and
FQP.optimized_poly_rounded_div are put back on its FQP class and its FQ2 / FQ12
classes are replaced by the embedded ORIGINAL class definitions. Concrete bn128 /
bls12_381 classes are declared on both sides exactly as py_ecc/fields/__init__.py
does. Exit status 0 iff every operation agrees (value, type names, exception type
and message).
"""
import importlib.util
import os
import random
import sys

import py_ecc.fields.optimized_field_elements as FE
from py_ecc.fields.field_properties import (
    field_properties,
)

ORIGINAL_METHODS = r'''
def __mul__(self, other):
    if isinstance(other, int):
        return type(self)(
            [int(c) * other % self.field_modulus for c in self.coeffs]
        )
    elif isinstance(other, FQP):
        b = [0] * (self.degree * 2 - 1)
        inner_enumerate = list(enumerate(other.coeffs))
        for i, eli in enumerate(self.coeffs):
            for j, elj in inner_enumerate:
                b[i + j] += int(eli * elj)
        # MID = len(self.coeffs) // 2
        for exp in range(self.degree - 2, -1, -1):
            top = b.pop()
            for i, c in self.mc_tuples:
                b[exp + i] -= top * c
        return type(self)([x % self.field_modulus for x in b])
    else:
        raise TypeError(
            f"Expected an int or FQP object, but got object of type {type(other)}"
        )


def optimized_poly_rounded_div(self, a, b):
    dega = deg(a)
    degb = deg(b)
    temp = [x for x in a]
    o = [0 for x in a]
    for i in range(dega - degb, -1, -1):
        o[i] = int(
            o[i]
            + temp[degb + i] * prime_field_inv(int(b[degb]), self.field_modulus)
        )
        for c in range(degb + 1):
            temp[c + i] = temp[c + i] - o[c]
    return [x % self.field_modulus for x in o[: deg(o) + 1]]
'''

ORIGINAL_CLASSES = r'''
class FQ2(FQP):
    """
    The quadratic extension field
    """

    degree: int = 2
    FQ2_MODULUS_COEFFS: "FQ2_modulus_coeffs_type"

    def __init__(self, coeffs: Sequence[IntOrFQ]) -> None:
        if not hasattr(self, "FQ2_MODULUS_COEFFS"):
            raise AttributeError("FQ2 Modulus Coeffs haven't been specified")

        self.mc_tuples = [(i, c) for i, c in enumerate(self.FQ2_MODULUS_COEFFS) if c]
        super().__init__(coeffs, self.FQ2_MODULUS_COEFFS)

    @cached_property
    def sgn0(self: T_FQP) -> int:
        x_0, x_1 = self.coeffs
        sign_0 = mod_int(x_0, 2)
        zero_0 = x_0 == 0
        sign_1 = mod_int(x_1, 2)
        return sign_0 or (zero_0 and sign_1)


class FQ12(FQP):
    """
    The 12th-degree extension field
    """

    degree: int = 12
    FQ12_MODULUS_COEFFS: "FQ12_modulus_coeffs_type"

    def __init__(self, coeffs: Sequence[IntOrFQ]) -> None:
        if not hasattr(self, "FQ12_MODULUS_COEFFS"):
            raise AttributeError("FQ12 Modulus Coeffs haven't been specified")

        self.mc_tuples = [(i, c) for i, c in enumerate(self.FQ12_MODULUS_COEFFS) if c]
        super().__init__(coeffs, self.FQ12_MODULUS_COEFFS)
'''

spec = importlib.util.spec_from_file_location("orig_optimized_field_elements", FE.__file__)
OFE = importlib.util.module_from_spec(spec)
spec.loader.exec_module(OFE)
ns = {}
exec(compile(ORIGINAL_METHODS, "<original FQP methods>", "exec"), vars(OFE), ns)
OFE.FQP.__mul__ = ns["__mul__"]
OFE.FQP.optimized_poly_rounded_div = ns["optimized_poly_rounded_div"]
exec(compile(ORIGINAL_CLASSES, "<original FQ2/FQ12>", "exec"), vars(OFE))
assert OFE.FQP is not FE.FQP and OFE.FQ2.__init__ is not FE.FQ2.__init__
for cls in (OFE.FQ2, OFE.FQ12):
    cls.__module__ = FE.__name__


def declare(module):
    """The concrete classes of py_ecc/fields/__init__.py, on top of `module`."""
    out = {}
    for curve in ("bn128", "bls12_381"):
        props = field_properties[curve]
        common = {"field_modulus": props["field_modulus"], "__module__": "py_ecc.fields"}
        fq = type(f"optimized_{curve}_FQ", (module.FQ,), dict(common))
        fqp = type(f"optimized_{curve}_FQP", (module.FQP,), dict(common))
        fq2 = type(
            f"optimized_{curve}_FQ2",
            (module.FQ2, fqp),
            dict(common, FQ2_MODULUS_COEFFS=props["fq2_modulus_coeffs"]),
        )
        fq12 = type(
            f"optimized_{curve}_FQ12",
            (module.FQ12, fqp),
            dict(common, FQ12_MODULUS_COEFFS=props["fq12_modulus_coeffs"]),
        )
        out[curve] = {"FQ": fq, "FQP": fqp, "FQ2": fq2, "FQ12": fq12}
    return out


NEW = declare(FE)
OLD = declare(OFE)

failures = 0
calls = 0


def describe(x):
    if isinstance(x, (tuple, list)):
        return (type(x).__name__, tuple(describe(e) for e in x))
    if hasattr(x, "coeffs"):
        extra = describe(getattr(x, "mc_tuples", "no mc_tuples"))
        return (type(x).__name__, describe(x.coeffs), extra, x.degree)
    if hasattr(x, "n") and not isinstance(x, int):
        return (type(x).__name__, describe(x.n))
    return (type(x).__name__, repr(x))


def outcome(f):
    try:
        return ("ok", describe(f()))
    except Exception as e:  # noqa: BLE001
        return ("exc", type(e).__name__, str(e))


def check(label, f_old, f_new):
    global failures, calls
    calls += 1
    a, b = outcome(f_old), outcome(f_new)
    if a != b:
        failures += 1
        print(f"MISMATCH {label}\n  original: {a}\n  patched : {b}")


rng = random.Random(20261009)

for curve in ("bn128", "bls12_381"):
    p = field_properties[curve]["field_modulus"]
    other_curve = "bls12_381" if curve == "bn128" else "bn128"
    Qo, Qn = OLD[curve]["FQ"], NEW[curve]["FQ"]
    Po, Pn = OLD[curve]["FQP"], NEW[curve]["FQP"]

    # ------------------------------------------------ constructors (mc_tuples)
    for kind, deg_ in (("FQ2", 2), ("FQ12", 12)):
        Fo, Fn = OLD[curve][kind], NEW[curve][kind]
        for coeffs in (
            [0] * deg_,
            [1] * deg_,
            tuple(range(deg_)),
            [-1] * deg_,
            [p + 3] * deg_,
            [Qo(3)] * deg_,
            [True] * deg_,
            [1] * (deg_ - 1),
            [1] * (deg_ + 1),
            [],
            None,
            5,
            "ab",
            [1.5] * deg_,
            [None] * deg_,
        ):
            c_new = coeffs
            if isinstance(coeffs, list) and coeffs and isinstance(coeffs[0], OFE.FQ):
                c_new = [Qn(int(c)) for c in coeffs]
            check(f"{curve}.{kind}({coeffs!r})", lambda: Fo(coeffs), lambda: Fn(c_new))
    # a subclass that forgot the modulus coefficients
    check(
        "FQ2 without FQ2_MODULUS_COEFFS",
        lambda: type("X", (OFE.FQ2,), {"field_modulus": p})([1, 2]),
        lambda: type("X", (FE.FQ2,), {"field_modulus": p})([1, 2]),
    )
    check(
        "FQ12 without FQ12_MODULUS_COEFFS",
        lambda: type("X", (OFE.FQ12,), {"field_modulus": p})([1] * 12),
        lambda: type("X", (FE.FQ12,), {"field_modulus": p})([1] * 12),
    )

    # ------------------------------------------------ arithmetic
    for kind, deg_, rounds in (("FQ2", 2, 150), ("FQ12", 12, 40)):
        Fo, Fn = OLD[curve][kind], NEW[curve][kind]
        Xo, Xn = OLD[other_curve][kind], NEW[other_curve][kind]
        Yo = OLD[curve]["FQ12" if kind == "FQ2" else "FQ2"]
        Yn = NEW[curve]["FQ12" if kind == "FQ2" else "FQ2"]
        ydeg = 12 if kind == "FQ2" else 2

        def rcoeffs():
            c = rng.random()
            if c < 0.1:
                return [0] * deg_
            if c < 0.2:
                return [rng.randrange(p)] + [0] * (deg_ - 1)
            if c < 0.3:
                return [rng.randrange(-5, 5) for _ in range(deg_)]
            if c < 0.4:
                return [p - 1] * deg_
            return [rng.randrange(p) for _ in range(deg_)]

        for r in range(rounds):
            ca, cb = rcoeffs(), rcoeffs()
            ao, bo, an, bn_ = Fo(ca), Fo(cb), Fn(ca), Fn(cb)
            k = rng.choice([0, 1, 2, -1, p, p - 1, rng.randrange(p), True, -p - 5])
            e = rng.choice([0, 1, 2, 3, 5, 17, rng.getrandbits(40)])
            tag = f"{curve}.{kind} a={ca} b={cb} k={k} e={e}"
            check("a * b " + tag, lambda: ao * bo, lambda: an * bn_)
            check("b * a " + tag, lambda: bo * ao, lambda: bn_ * an)
            check("a * a " + tag, lambda: ao * ao, lambda: an * an)
            check("a * k " + tag, lambda: ao * k, lambda: an * k)
            check("k * a " + tag, lambda: k * ao, lambda: k * an)
            check("a / b " + tag, lambda: ao / bo, lambda: an / bn_)
            check("b.inv() " + tag, lambda: bo.inv(), lambda: bn_.inv())
            check("a ** e " + tag, lambda: ao**e, lambda: an**e)
            if r % 5 == 0:
                # FQ-typed coefficients (kept as they are by FQP.__init__)
                fo = Fo([Qo(c) for c in ca])
                fn = Fn([Qn(c) for c in ca])
                check("fqcoeff * b " + tag, lambda: fo * bo, lambda: fn * bn_)
                check("b * fqcoeff " + tag, lambda: bo * fo, lambda: bn_ * fn)
                check("fqcoeff * fqcoeff " + tag, lambda: fo * fo, lambda: fn * fn)
                check("fqcoeff.inv() " + tag, lambda: fo.inv(), lambda: fn.inv())

        ao, an = Fo(list(range(1, deg_ + 1))), Fn(list(range(1, deg_ + 1)))
        tag = f"{curve}.{kind}"
        for bad in [None, 1.5, "2", [1, 2], (1, 2)]:
            check(f"a * {bad!r} {tag}", lambda: ao * bad, lambda: an * bad)
            check(f"{bad!r} * a {tag}", lambda: bad * ao, lambda: bad * an)
        check("a * FQ(3) " + tag, lambda: ao * Qo(3), lambda: an * Qn(3))
        check("a * foreign " + tag, lambda: ao * Xo([3] * deg_), lambda: an * Xn([3] * deg_))
        check("a * other-degree " + tag, lambda: ao * Yo([3] * ydeg), lambda: an * Yn([3] * ydeg))
        check("other-degree * a " + tag, lambda: Yo([3] * ydeg) * ao, lambda: Yn([3] * ydeg) * an)
        # coefficient tuples tampered with after construction
        so, sn = Fo([2] * deg_), Fn([2] * deg_)
        so.coeffs = sn.coeffs = (5,)
        check("short * a " + tag, lambda: so * ao, lambda: sn * an)
        check("a * short " + tag, lambda: ao * so, lambda: an * sn)
        so.coeffs = sn.coeffs = ()
        check("empty * a " + tag, lambda: so * ao, lambda: sn * an)
        so.coeffs = sn.coeffs = None
        check("a * None-coeffs " + tag, lambda: ao * so, lambda: an * sn)
        check("None-coeffs * a " + tag, lambda: so * ao, lambda: sn * an)
        so.coeffs = sn.coeffs = (1.5,) * deg_
        check("float-coeffs * a " + tag, lambda: so * ao, lambda: sn * an)
        so.coeffs = sn.coeffs = ("x",) * deg_
        check("str-coeffs * a " + tag, lambda: so * ao, lambda: sn * an)

    # ------------------------------------------------ bare FQP instances (no mc_tuples)
    for d in (1, 2, 3):
        mod_coeffs = [1] + [0] * (d - 1)
        xo, yo = Po([3] * d, mod_coeffs), Po([4] * d, mod_coeffs)
        xn, yn = Pn([3] * d, mod_coeffs), Pn([4] * d, mod_coeffs)
        check(f"bare FQP degree {d}: x * y", lambda: xo * yo, lambda: xn * yn)
        check(f"bare FQP degree {d}: x * 3", lambda: xo * 3, lambda: xn * 3)
        check(f"bare FQP degree {d}: x ** 3", lambda: xo**3, lambda: xn**3)
        xo.mc_tuples = xn.mc_tuples = [(0, 1)]
        check(f"bare FQP degree {d} + mc_tuples: x * y", lambda: xo * yo, lambda: xn * yn)
    check("bare FQP empty", lambda: Po([], []), lambda: Pn([], []))

    # ------------------------------------------------ optimized_poly_rounded_div
    ho, hn = OLD[curve]["FQ2"]([1, 1]), NEW[curve]["FQ2"]([1, 1])

    def poly_cases():
        yield [1, 2, 3], [1, 1]
        yield [0, 0, 0], [1]
        yield [0], [0]
        yield [5], [0]
        yield [5, 0, 0], [0, 0]
        yield [1, 2], [1, 2, 3]  # divisor of higher degree: the loop does not run
        yield [1, 2, 0], [0, 0, 3]
        yield (6, 11, 6, 1), (1, 1)
        yield [], [1]
        yield [1], []
        yield [-7, 3 * p + 1, p], [p + 2, -1]
        yield [1.0, 2.0], [2]
        yield [True, False, True], [True]
        yield "abc", [1]
        yield None, [1]
        yield [1, 2], None
        for _ in range(200):
            la, lb = rng.randrange(1, 14), rng.randrange(1, 14)
            a = [rng.randrange(p) for _ in range(la)]
            b = [rng.randrange(p) for _ in range(lb)]
            if rng.random() < 0.3:
                a[-1] = 0
            if rng.random() < 0.3:
                b[-1] = 0
            if rng.random() < 0.2:
                a = [x - p for x in a]  # negative representatives
            yield a, b
        for _ in range(60):
            la, lb = rng.randrange(1, 14), rng.randrange(1, 14)
            yield (
                [Qo(rng.randrange(p)) for _ in range(la)],
                [rng.randrange(p) for _ in range(lb)],
            )

    for a, b in poly_cases():
        a_new, b_new = a, b
        if isinstance(a, list) and a and isinstance(a[0], OFE.FQ):
            a_new = [Qn(int(x)) for x in a]
        check(
            f"{curve} optimized_poly_rounded_div({a!r}, {b!r})",
            lambda: ho.optimized_poly_rounded_div(a, b),
            lambda: hn.optimized_poly_rounded_div(a_new, b_new),
        )

print(f"{os.path.basename(os.path.dirname(__file__))}: {calls} calls, {failures} mismatches")
sys.exit(1 if failures else 0)
