"""
Differential check for n7 (py_ecc/optimized_bls12_381/optimized_curve.py: is_inf,
is_on_curve, eq, twist; py_ecc/bls12_381/bls12_381_curve.py: is_on_curve, double,
twist, plus add/multiply which call double).

For each module the ORIGINAL bodies are embedded and executed in a copy of the
patched module's namespace. Exit status 0 iff every call agrees (value, type,
exception type and message).
"""
import os
import random
import sys

import py_ecc.bls12_381.bls12_381_curve as plain
import py_ecc.optimized_bls12_381.optimized_curve as opt
from py_ecc.fields import (
    optimized_bn128_FQ as FOREIGN_FQ,
    optimized_bn128_FQ2 as FOREIGN_FQ2,
)

ORIGINAL_OPT = r'''
def is_inf(pt):
    return pt[-1] == pt[-1].__class__.zero()


def is_on_curve(pt, b):
    if is_inf(pt):
        return True
    x, y, z = pt
    return y**2 * z - x**3 == b * z**3


def eq(p1, p2):
    x1, y1, z1 = p1
    x2, y2, z2 = p2
    return x1 * z2 == x2 * z1 and y1 * z2 == y2 * z1


def twist(pt):
    _x, _y, _z = pt
    # Field isomorphism from Z[p] / x**2 to Z[p] / x**2 - 2*x + 2
    xcoeffs = [_x.coeffs[0] - _x.coeffs[1], _x.coeffs[1]]
    ycoeffs = [_y.coeffs[0] - _y.coeffs[1], _y.coeffs[1]]
    zcoeffs = [_z.coeffs[0] - _z.coeffs[1], _z.coeffs[1]]
    nx = FQ12([0] + [xcoeffs[0]] + [0] * 5 + [xcoeffs[1]] + [0] * 4)
    ny = FQ12([ycoeffs[0]] + [0] * 5 + [ycoeffs[1]] + [0] * 5)
    nz = FQ12([0] * 3 + [zcoeffs[0]] + [0] * 5 + [zcoeffs[1]] + [0] * 2)
    return (nx, ny, nz)
'''

ORIGINAL_PLAIN = r'''
def is_on_curve(pt, b):
    if is_inf(pt) or pt is None:
        return True
    x, y = pt
    return y**2 - x**3 == b


def double(pt):
    if is_inf(pt) or pt is None:
        return pt
    x, y = pt
    m = 3 * x**2 / (2 * y)
    newx = m**2 - 2 * x
    newy = -m * newx + m * x - y
    return (newx, newy)


def add(p1, p2):
    if p1 is None or p2 is None:
        return p1 if p2 is None else p2
    x1, y1 = p1
    x2, y2 = p2
    if x2 == x1 and y2 == y1:
        return double(p1)
    elif x2 == x1:
        return None
    else:
        m = (y2 - y1) / (x2 - x1)
    newx = m**2 - x1 - x2
    newy = -m * newx + m * x1 - y1
    if not newy == (-m * newx + m * x2 - y2):
        raise ValueError("Point addition is incorrect")
    return (newx, newy)


def multiply(pt, n):
    if n == 0:
        return None
    elif n == 1:
        return pt
    elif not n % 2:
        return multiply(double(pt), n // 2)
    else:
        return add(multiply(double(pt), int(n // 2)), pt)


def twist(pt):
    if pt is None:
        return None
    _x, _y = pt
    # Field isomorphism from Z[p] / x**2 to Z[p] / x**2 - 2*x + 2
    xcoeffs = [_x.coeffs[0] - _x.coeffs[1], _x.coeffs[1]]
    ycoeffs = [_y.coeffs[0] - _y.coeffs[1], _y.coeffs[1]]
    # Isomorphism into subfield of Z[p] / w**12 - 2 * w**6 + 2,
    # where w**6 = x
    nx = FQ12([xcoeffs[0]] + [0] * 5 + [xcoeffs[1]] + [0] * 5)
    ny = FQ12([ycoeffs[0]] + [0] * 5 + [ycoeffs[1]] + [0] * 5)
    # Divide x coord by w**2 and y coord by w**3
    return (nx / w**2, ny / w**3)
'''

orig_opt = dict(vars(opt))
exec(compile(ORIGINAL_OPT, "<original optimized_curve>", "exec"), orig_opt)
orig_plain = dict(vars(plain))
exec(compile(ORIGINAL_PLAIN, "<original bls12_381_curve>", "exec"), orig_plain)

failures = 0
calls = 0


def describe(x):
    if isinstance(x, (tuple, list)):
        return (type(x).__name__, tuple(describe(e) for e in x))
    if hasattr(x, "coeffs"):
        return (type(x).__name__, describe(x.coeffs))
    if hasattr(x, "n") and not isinstance(x, int):
        return (type(x).__name__, describe(x.n))
    return (type(x).__name__, repr(x))


def outcome(f, args):
    try:
        return ("ok", describe(f(*args)))
    except Exception as e:  # noqa: BLE001
        return ("exc", type(e).__name__, str(e))


def compare(orig_ns, module, name, *args):
    global failures, calls
    calls += 1
    a = outcome(orig_ns[name], args)
    b = outcome(getattr(module, name), args)
    if a != b:
        failures += 1
        print(
            f"MISMATCH {module.__name__}.{name}{args!r}\n"
            f"  original: {a}\n  patched : {b}"
        )
    return b


rng = random.Random(20261007)

# =========================================================== optimized curve
FQ, FQ2, FQ12 = opt.FQ, opt.FQ2, opt.FQ12
q = opt.field_modulus


def rfq():
    return FQ(rng.randrange(q))


def rfq2():
    return FQ2([rng.randrange(q), rng.randrange(q)])


def scale(pt, lam):
    return tuple(c * lam for c in pt)


g1 = [opt.G1, opt.Z1, opt.neg(opt.G1), (FQ(0), FQ(7), FQ(0)), (FQ(3), FQ(0), FQ(0))]
g2 = [opt.G2, opt.Z2, opt.neg(opt.G2), (FQ2([0, 0]), FQ2([7, 1]), FQ2([0, 0]))]
for _ in range(15):
    p1 = opt.multiply(opt.G1, rng.randrange(1, opt.curve_order))
    p2 = opt.multiply(opt.G2, rng.randrange(1, opt.curve_order))
    g1 += [p1, scale(p1, rng.randrange(2, q)), scale(p1, 0)]
    g2 += [p2, scale(p2, rng.randrange(2, q)), scale(p2, rfq2())]
for _ in range(15):
    g1.append((rfq(), rfq(), rfq()))  # off curve
    g1.append((rfq(), rfq(), FQ(1)))
    g2.append((rfq2(), rfq2(), rfq2()))
    g2.append((rfq2(), rfq2(), FQ2([1, 0])))
g12 = [opt.G12, scale(opt.G12, 5), (FQ12.one(), FQ12.one(), FQ12.zero())]
g12 += [opt.twist(p) for p in g2[4:10]]

weird = [
    None,
    (),
    (FQ(1),),
    (FQ(1), FQ(2)),
    (FQ(1), FQ(2), FQ(3), FQ(4)),
    (1, 2, 3),
    (1, 2, 0),
    (FQ(1), FQ(2), 0),
    (FQ(1), FQ(2), None),
    (FQ(1), FQ2([1, 2]), FQ(1)),
    (FOREIGN_FQ(1), FOREIGN_FQ(2), FOREIGN_FQ(1)),
    (FOREIGN_FQ2([1, 2]), FOREIGN_FQ2([1, 2]), FOREIGN_FQ2([1, 0])),
    5,
    "xyz",
]

for pt in g1 + g2 + g12 + weird:
    compare(orig_opt, opt, "is_inf", pt)
    if isinstance(pt, tuple):
        compare(orig_opt, opt, "is_inf", list(pt))
for pt in g1 + weird:
    compare(orig_opt, opt, "is_on_curve", pt, opt.b)
    compare(orig_opt, opt, "is_on_curve", pt, opt.b2)  # wrong b
    compare(orig_opt, opt, "is_on_curve", pt, 4)
for pt in g2 + weird:
    compare(orig_opt, opt, "is_on_curve", pt, opt.b2)
    compare(orig_opt, opt, "is_on_curve", pt, opt.b)
    compare(orig_opt, opt, "is_on_curve", pt, None)
for pt in g12:
    compare(orig_opt, opt, "is_on_curve", pt, opt.b12)
    compare(orig_opt, opt, "is_on_curve", pt, opt.b2)

for group in (g1, g2, g12):
    for _ in range(150):
        a, b = rng.choice(group), rng.choice(group)
        compare(orig_opt, opt, "eq", a, b)
    for a in group:
        compare(orig_opt, opt, "eq", a, a)
        compare(orig_opt, opt, "eq", a, scale(a, 3))  # same point, other representative
        compare(orig_opt, opt, "eq", a, opt.neg(a))  # same x, other y
        compare(orig_opt, opt, "eq", a, (a[0], a[1], a[2] * 2))
        compare(orig_opt, opt, "eq", list(a), list(a))
for a in weird:
    for b in [opt.G1, opt.G2, a]:
        compare(orig_opt, opt, "eq", a, b)
        compare(orig_opt, opt, "eq", b, a)
compare(orig_opt, opt, "eq", opt.G1, opt.G2)
compare(orig_opt, opt, "eq", (1, 2, 3), (2, 4, 6))
compare(orig_opt, opt, "eq", (1, 2, 3), (2, 5, 6))
compare(orig_opt, opt, "eq", (1.0, 2.0, 3.0), (2, 4, 6))

for pt in g2 + weird + g1[:3] + g12[:2]:
    compare(orig_opt, opt, "twist", pt)
    if isinstance(pt, tuple):
        compare(orig_opt, opt, "twist", list(pt))
# FQ2 elements whose coefficients are FQ objects rather than ints
fq_coeff_pt = tuple(FQ2([FQ(int(c)) for c in el.coeffs]) for el in opt.G2)
compare(orig_opt, opt, "twist", fq_coeff_pt)
compare(orig_opt, opt, "twist", (opt.G2[0], fq_coeff_pt[1], opt.G2[2]))

# =========================================================== plain curve
PFQ, PFQ2, PFQ12 = plain.FQ, plain.FQ2, plain.FQ12


def prfq():
    return PFQ(rng.randrange(q))


def prfq2():
    return PFQ2([rng.randrange(q), rng.randrange(q)])


p_g1 = [plain.G1, None, plain.neg(plain.G1)]
p_g2 = [plain.G2, None, plain.neg(plain.G2)]
for _ in range(6):
    p_g1.append(plain.multiply(plain.G1, rng.randrange(1, 2**64)))
    p_g2.append(plain.multiply(plain.G2, rng.randrange(1, 2**32)))
p_g1 += [(prfq(), prfq()) for _ in range(10)]
p_g1 += [(prfq(), PFQ(0)), (PFQ(0), PFQ(2))]  # y == 0: doubling divides by zero
p_g2 += [(prfq2(), prfq2()) for _ in range(6)]
p_g2 += [(prfq2(), PFQ2([0, 0]))]
p_g12 = [plain.G12] + [plain.twist(p) for p in p_g2[3:6]]
p_weird = [
    (),
    (PFQ(1),),
    (PFQ(1), PFQ(2), PFQ(3)),
    (1, 2),
    (1, 0),
    (2.0, 3.0),
    (PFQ(1), None),
    (PFQ(1), PFQ2([1, 2])),
    5,
    "xy",
    False,
    0,
]

for pt in p_g1 + p_weird:
    compare(orig_plain, plain, "is_on_curve", pt, plain.b)
    compare(orig_plain, plain, "is_on_curve", pt, plain.b2)
    compare(orig_plain, plain, "is_on_curve", pt, 4)
    compare(orig_plain, plain, "double", pt)
for pt in p_g2 + p_weird:
    compare(orig_plain, plain, "is_on_curve", pt, plain.b2)
    compare(orig_plain, plain, "is_on_curve", pt, plain.b)
    compare(orig_plain, plain, "double", pt)
    compare(orig_plain, plain, "twist", pt)
    if isinstance(pt, tuple):
        compare(orig_plain, plain, "twist", list(pt))
for pt in p_g12:
    compare(orig_plain, plain, "is_on_curve", pt, plain.b12)
    compare(orig_plain, plain, "double", pt)
    compare(orig_plain, plain, "twist", pt)  # FQ12 has coeffs too: still "works"
compare(orig_plain, plain, "twist", plain.G1)
compare(orig_plain, plain, "twist", (PFQ2([1, 2]),))

for group in (p_g1, p_g2):
    for _ in range(25):
        a, b = rng.choice(group), rng.choice(group)
        compare(orig_plain, plain, "add", a, b)
    for a in group[:6]:
        compare(orig_plain, plain, "add", a, a)
        compare(orig_plain, plain, "add", a, plain.neg(a))
for n in [0, 1, 2, 3, 7, 2**20 + 1, plain.curve_order - 1, plain.curve_order, -1 * 0]:
    compare(orig_plain, plain, "multiply", plain.G1, n)
    compare(orig_plain, plain, "multiply", None, n)
for n in [0, 1, 2, 5, 1000003]:
    compare(orig_plain, plain, "multiply", plain.G2, n)
    compare(orig_plain, plain, "multiply", p_g1[-1], n)  # y == 0 point

print(f"{os.path.basename(os.path.dirname(__file__))}: {calls} calls, {failures} mismatches")
sys.exit(1 if failures else 0)
