"""
Differential check for n8 (py_ecc/utils.py: poly_rounded_div;
py_ecc/fields/field_elements.py: FQP.__div__, FQP.__eq__; FQP.inv and __truediv__ /
__ne__ are compared too because they call the touched code).

"Original" side: the patched field_elements source is loaded a second time as an
independent module, then the embedded ORIGINAL bodies of FQP.__div__ / FQP.__eq__
are put back on its FQP class and its poly_rounded_div is replaced by the embedded
ORIGINAL one. Concrete bn128 / bls12_381 classes are declared on both sides exactly
as py_ecc/fields/__init__.py does. Exit status 0 iff every operation agrees (value,
type names, exception type and message).
"""
import importlib.util
import os
import random
import sys

import py_ecc.fields.field_elements as FE
import py_ecc.utils as U
from py_ecc.fields.field_properties import (
    field_properties,
)

ORIGINAL_UTILS = r'''
def poly_rounded_div(a, b):
    dega = deg(a)
    degb = deg(b)
    temp = [x for x in a]
    o = [0 for x in a]
    for i in range(dega - degb, -1, -1):
        o[i] += int(temp[degb + i] / b[degb])
        for c in range(degb + 1):
            temp[c + i] -= o[c]
    return cast(Tuple[IntOrFQ, ...], tuple(o[: deg(o) + 1]))
'''

ORIGINAL_METHODS = r'''
def __div__(self, other):
    if isinstance(other, int_types_or_FQ):
        return type(self)(
            [
                c / other if isinstance(c, FQ) else c // int(other)
                for c in self.coeffs
            ]
        )
    elif isinstance(other, type(self)):
        return self * other.inv()
    else:
        raise TypeError(
            "Expected an int or FQ object or FQP object, "
            f"but got object of type {type(other)}"
        )


def __eq__(self, other):
    if not isinstance(other, type(self)):
        raise TypeError(
            f"Expected an FQP object, but got object of type {type(other)}"
        )

    for c1, c2 in zip(self.coeffs, other.coeffs):
        if c1 != c2:
            return False
    return True
'''

orig_utils = dict(vars(U))
exec(compile(ORIGINAL_UTILS, "<original utils>", "exec"), orig_utils)

spec = importlib.util.spec_from_file_location("orig_field_elements", FE.__file__)
OFE = importlib.util.module_from_spec(spec)
spec.loader.exec_module(OFE)
OFE.poly_rounded_div = orig_utils["poly_rounded_div"]
ns = {}
exec(compile(ORIGINAL_METHODS, "<original FQP methods>", "exec"), vars(OFE), ns)
OFE.FQP.__div__ = ns["__div__"]
OFE.FQP.__eq__ = ns["__eq__"]
assert OFE.FQP is not FE.FQP and OFE.FQP.__hash__ is None and FE.FQP.__hash__ is None


def declare(module):
    """The concrete classes of py_ecc/fields/__init__.py, on top of `module`."""
    out = {}
    for curve in ("bn128", "bls12_381"):
        props = field_properties[curve]
        common = {"field_modulus": props["field_modulus"], "__module__": "py_ecc.fields"}
        fq = type(f"{curve}_FQ", (module.FQ,), dict(common))
        fqp = type(f"{curve}_FQP", (module.FQP,), dict(common))
        fq2 = type(
            f"{curve}_FQ2",
            (module.FQ2, fqp),
            dict(common, FQ2_MODULUS_COEFFS=props["fq2_modulus_coeffs"]),
        )
        fq12 = type(
            f"{curve}_FQ12",
            (module.FQ12, fqp),
            dict(common, FQ12_MODULUS_COEFFS=props["fq12_modulus_coeffs"]),
        )
        out[curve] = {"FQ": fq, "FQ2": fq2, "FQ12": fq12}
    return out


NEW = declare(FE)
OLD = declare(OFE)

failures = 0
calls = 0


def describe(x):
    if isinstance(x, (tuple, list)):
        return (type(x).__name__, tuple(describe(e) for e in x))
    if hasattr(x, "coeffs"):
        return (type(x).__name__, describe(x.coeffs))
    if hasattr(x, "n") and not isinstance(x, int):
        return (type(x).__name__, describe(x.n))
    return (type(x).__name__, repr(x))


def outcome(f):
    try:
        return ("ok", describe(f()))
    except Exception as e:  # noqa: BLE001
        return ("exc", type(e).__name__, str(e))


def check(label, f_old, f_new):
    global failures, calls
    calls += 1
    a, b = outcome(f_old), outcome(f_new)
    if a != b:
        failures += 1
        print(f"MISMATCH {label}\n  original: {a}\n  patched : {b}")


rng = random.Random(20261008)

# ------------------------------------------------------------------ poly_rounded_div
p_bn = field_properties["bn128"]["field_modulus"]
BFQ = NEW["bn128"]["FQ"]


def poly_cases():
    yield [1, 2, 3], [1, 1]
    yield [0, 0, 0], [1]
    yield [0], [0]  # 0 / 0
    yield [5], [0]
    yield [5, 0, 0], [0, 0]  # division by the zero polynomial
    yield [1, 2], [1, 2, 3]  # divisor of higher degree: empty loop
    yield (6, 11, 6, 1), (1, 1)  # tuples
    yield [1, 2, 3], (4, 5)
    yield [], [1]
    yield [1], []
    yield [2**2000, 1], [3]  # float overflow inside int(x / y)
    yield [1.5, 2.5], [0.5]
    yield [1, None], [1]
    yield "abc", [1]
    yield None, [1]
    for _ in range(150):
        la, lb = rng.randrange(1, 9), rng.randrange(1, 9)
        a = [rng.randrange(-50, 50) for _ in range(la)]
        b = [rng.randrange(-9, 9) for _ in range(lb)]
        if rng.random() < 0.3:
            a[-1] = 0  # leading zeros
        if rng.random() < 0.3:
            b[-1] = 0
        yield a, b
    for _ in range(150):
        la, lb = rng.randrange(1, 14), rng.randrange(1, 14)
        a = [BFQ(rng.randrange(p_bn)) for _ in range(la)]
        b = [BFQ(rng.randrange(p_bn)) for _ in range(lb)]
        if rng.random() < 0.3:
            a[-1] = BFQ(0)
        if rng.random() < 0.3:
            b[-1] = BFQ(0)
        if rng.random() < 0.2:
            b = [int(x) for x in b]  # FQ dividend, int divisor
        elif rng.random() < 0.2:
            a = [int(x) for x in a]  # int dividend, FQ divisor
        yield a, b


for a, b in poly_cases():
    check(
        f"poly_rounded_div({a!r}, {b!r})",
        lambda: orig_utils["poly_rounded_div"](a, b),
        lambda: U.poly_rounded_div(a, b),
    )

# ------------------------------------------------------------------ FQP operations
for curve in ("bn128", "bls12_381"):
    p = field_properties[curve]["field_modulus"]
    other_curve = "bls12_381" if curve == "bn128" else "bn128"
    for kind, deg_, rounds in (("FQ2", 2, 120), ("FQ12", 12, 25)):
        Fo, Fn = OLD[curve][kind], NEW[curve][kind]
        Qo, Qn = OLD[curve]["FQ"], NEW[curve]["FQ"]
        Xo, Xn = OLD[other_curve][kind], NEW[other_curve][kind]  # foreign field
        Yo = OLD[curve]["FQ12" if kind == "FQ2" else "FQ2"]  # other degree
        Yn = NEW[curve]["FQ12" if kind == "FQ2" else "FQ2"]
        ydeg = 12 if kind == "FQ2" else 2

        def rcoeffs():
            c = rng.random()
            if c < 0.1:
                return [0] * deg_
            if c < 0.2:
                return [rng.randrange(p)] + [0] * (deg_ - 1)
            if c < 0.3:
                return [rng.randrange(-5, 5) for _ in range(deg_)]
            return [rng.randrange(p) for _ in range(deg_)]

        for r in range(rounds):
            ca, cb = rcoeffs(), rcoeffs()
            if r % 7 == 0:
                cb = list(ca)
            if r % 11 == 0:
                cb = list(ca[:-1]) + [(ca[-1] + 1) % p]  # differ in the last coeff
            ao, bo, an, bn_ = Fo(ca), Fo(cb), Fn(ca), Fn(cb)
            k = rng.choice([0, 1, 2, -1, p, p - 1, rng.randrange(p), True])
            tag = f"{curve}.{kind} a={ca} b={cb} k={k}"
            check("a / b " + tag, lambda: ao / bo, lambda: an / bn_)
            check("a.__div__(b) " + tag, lambda: ao.__div__(bo), lambda: an.__div__(bn_))
            check("b.inv() " + tag, lambda: bo.inv(), lambda: bn_.inv())
            check("a / k " + tag, lambda: ao / k, lambda: an / k)
            check("a / FQ(k) " + tag, lambda: ao / Qo(k), lambda: an / Qn(k))
            check("a == b " + tag, lambda: ao == bo, lambda: an == bn_)
            check("a != b " + tag, lambda: ao != bo, lambda: an != bn_)
            check("a == a' " + tag, lambda: ao == Fo(ca), lambda: an == Fn(ca))
            check("a / a " + tag, lambda: ao / ao, lambda: an / an)

        ao, an = Fo(list(range(1, deg_ + 1))), Fn(list(range(1, deg_ + 1)))
        tag = f"{curve}.{kind}"
        # wrong operand types: exception type and message
        for bad in [None, 1.5, "2", [1, 2], (1, 2), b"\x01"]:
            check(f"a / {bad!r} {tag}", lambda: ao / bad, lambda: an / bad)
            check(f"a == {bad!r} {tag}", lambda: ao == bad, lambda: an == bad)
            check(f"a != {bad!r} {tag}", lambda: ao != bad, lambda: an != bad)
        check("a == 1 " + tag, lambda: ao == 1, lambda: an == 1)
        check("a == FQ(1) " + tag, lambda: ao == Qo(1), lambda: an == Qn(1))
        # element of the same degree over the other prime field
        check("a / foreign " + tag, lambda: ao / Xo([3] * deg_), lambda: an / Xn([3] * deg_))
        check("a == foreign " + tag, lambda: ao == Xo([3] * deg_), lambda: an == Xn([3] * deg_))
        # element of the other extension degree over the same field
        check("a / other-degree " + tag, lambda: ao / Yo([3] * ydeg), lambda: an / Yn([3] * ydeg))
        check("a == other-degree " + tag, lambda: ao == Yo([3] * ydeg), lambda: an == Yn([3] * ydeg))
        # FQ of the other curve is still an FQ instance: accepted, uses its .n
        check(
            "a / foreign FQ " + tag,
            lambda: ao / OLD[other_curve]["FQ"](7),
            lambda: an / NEW[other_curve]["FQ"](7),
        )
        # coefficients overwritten with plain ints: the "c // int(other)" branch
        for coeffs in ([7] * deg_, [-9] + [4] * (deg_ - 1), [7, Qo(3)] + [1] * (deg_ - 2)):
            for divisor in (2, -2, 0, True):
                mo, mn = Fo([0] * deg_), Fn([0] * deg_)
                mo.coeffs = tuple(coeffs)
                mn.coeffs = tuple(
                    Qn(int(c)) if not isinstance(c, int) else c for c in coeffs
                )
                check(
                    f"int-coeff element / {divisor} {tag} {coeffs}",
                    lambda: mo / divisor,
                    lambda: mn / divisor,
                )
                check(
                    f"int-coeff element / FQ({divisor}) {tag}",
                    lambda: mo / Qo(divisor),
                    lambda: mn / Qn(divisor),
                )
                check("int-coeff == " + tag, lambda: mo == Fo([7] * deg_), lambda: mn == Fn([7] * deg_))
                check("== int-coeff " + tag, lambda: Fo([7] * deg_) == mo, lambda: Fn([7] * deg_) == mn)
        # zip() in __eq__ stops at the shorter coefficient tuple
        so, sn = Fo([1] * deg_), Fn([1] * deg_)
        so.coeffs = so.coeffs[:1]
        sn.coeffs = sn.coeffs[:1]
        check("short == " + tag, lambda: so == Fo([1] * deg_), lambda: sn == Fn([1] * deg_))
        check("short == (2) " + tag, lambda: so == Fo([2] * deg_), lambda: sn == Fn([2] * deg_))
        so.coeffs = sn.coeffs = ()
        check("empty == " + tag, lambda: so == Fo([2] * deg_), lambda: sn == Fn([2] * deg_))

print(f"{os.path.basename(os.path.dirname(__file__))}: {calls} calls, {failures} mismatches")
sys.exit(1 if failures else 0)
