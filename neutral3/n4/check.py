"""
Differential check for n4 (py_ecc/bls/hash.py: hkdf_expand, i2osp, os2ip, xor,
expand_message_xmd).

The ORIGINAL function bodies are embedded and executed in a copy of the patched
module's namespace. Exit status 0 iff every call agrees (value, type, exception
type and message).
"""
import hashlib
import os
import random
import sys

import py_ecc.bls.hash as mod

ORIGINAL = r'''
def hkdf_expand(prk, info, length):
    n = math.ceil(length / 32)

    # okm = T(1) || T(2) || T(3) || ... || T(n)
    okm = bytearray(0)
    previous = bytearray(0)

    for i in range(0, n):
        # Concatenate (T(i) || info || i)
        text = previous + info + bytes([i + 1])

        # T(i + 1) = HMAC(T(i) || info || i)
        previous = bytearray(hmac.new(prk, text, hashlib.sha256).digest())
        okm.extend(previous)

    # Return first `length` bytes.
    return okm[:length]


def i2osp(x, xlen):
    return x.to_bytes(xlen, byteorder="big", signed=False)


def os2ip(x):
    return int.from_bytes(x, byteorder="big", signed=False)


def xor(a, b):
    return bytes(_a ^ _b for _a, _b in zip(a, b))


def expand_message_xmd(msg, DST, len_in_bytes, hash_function):
    b_in_bytes = hash_function().digest_size
    r_in_bytes = hash_function().block_size
    if len(DST) > 255:
        raise ValueError("DST must be <= 255 bytes")
    ell = math.ceil(len_in_bytes / b_in_bytes)
    if ell > 255:
        raise ValueError("invalid len in bytes for hash function")
    DST_prime = DST + i2osp(
        len(DST), 1
    )  # Append the length of the DST as a single byte
    Z_pad = b"\x00" * r_in_bytes
    l_i_b_str = i2osp(len_in_bytes, 2)
    b_0 = hash_function(Z_pad + msg + l_i_b_str + b"\x00" + DST_prime).digest()
    b = [hash_function(b_0 + b"\x01" + DST_prime).digest()]
    for i in range(2, ell + 1):
        b.append(hash_function(xor(b_0, b[i - 2]) + i2osp(i, 1) + DST_prime).digest())
    pseudo_random_bytes = b"".join(b)
    return pseudo_random_bytes[:len_in_bytes]
'''

orig = dict(vars(mod))
exec(compile(ORIGINAL, "<original hash>", "exec"), orig)

failures = 0
calls = 0


def describe(x):
    if isinstance(x, (tuple, list)):
        return (type(x).__name__, tuple(describe(e) for e in x))
    return (type(x).__name__, repr(x))


def outcome(f, args):
    try:
        return ("ok", describe(f(*args)))
    except Exception as e:  # noqa: BLE001
        return ("exc", type(e).__name__, str(e))


def compare(name, *args):
    global failures, calls
    calls += 1
    a = outcome(orig[name], args)
    b = outcome(getattr(mod, name), args)
    if a != b:
        failures += 1
        print(f"MISMATCH {name}{args!r}\n  original: {a}\n  patched : {b}")


rng = random.Random(20261004)


def rbytes(n):
    return bytes(rng.getrandbits(8) for _ in range(n))


# ------------------------------------------------------------------ i2osp / os2ip
ints = [0, 1, 255, 256, 2**16 - 1, 2**16, 2**384 - 1, 2**384, -1, -256, True, False]
ints += [rng.getrandbits(rng.randrange(1, 400)) for _ in range(60)]
lens = [0, 1, 2, 3, 32, 48, 49, 96, -1, True]
for x in ints:
    for ln in lens:
        compare("i2osp", x, ln)
for bad in [None, 1.5, "12", b"\x01", [1]]:
    compare("i2osp", bad, 2)
    compare("i2osp", 5, bad)
octets = [b"", b"\x00", b"\x00\x01", b"\xff" * 48, bytearray(b"\x01\x02"), memoryview(b"\x07\x08")]
octets += [rbytes(rng.randrange(0, 100)) for _ in range(80)]
octets += [[1, 2, 3], (255, 0), [256], [-1], "abc", None, 5, 1.5, range(3)]
for o in octets:
    compare("os2ip", o)

# ------------------------------------------------------------------ xor
pairs = [
    (b"", b""),
    (b"", b"abc"),
    (b"abc", b""),
    (b"\x00\xff", b"\xff\x00"),
    (b"abc", b"abcdef"),  # truncated to the shorter one
    (b"abcdef", b"abc"),
    (bytearray(b"\x01\x02"), b"\x03\x04"),
    (b"\x01\x02", bytearray(b"\x03\x04")),
    (memoryview(b"\x01\x02"), bytearray(b"\x03\x04")),
    ([1, 2, 3], [3, 2, 1]),
    ((1, 2), b"\x05\x06"),
    ([256, 1], [0, 1]),  # result out of byte range -> ValueError
    ([-1], [0]),
    ([1, 2], [256, 512]),
    ([True, False], [True, True]),
    ("abc", "abc"),  # TypeError on str ^ str
    ("abc", b"abc"),
    (b"abc", "abc"),
    ([1.5], [1]),
    ([None], [1]),
    ([], "abc"),
    ("abc", []),
    (None, b"a"),
    (b"a", None),
    (5, 6),
    (b"a", 6),
    (iter(b"\x01\x02\x03"), iter(b"\x01\x01")),
    (range(4), range(4, 8)),
]
for _ in range(150):
    n, m = rng.randrange(0, 70), rng.randrange(0, 70)
    if rng.random() < 0.6:
        m = n
    pairs.append((rbytes(n), rbytes(m)))
for a, b in pairs:
    if hasattr(a, "__next__"):  # one-shot iterators: give each side its own copy
        la, lb = list(a), list(b)
        calls += 1
        r1 = outcome(orig["xor"], (iter(la), iter(lb)))
        r2 = outcome(mod.xor, (iter(la), iter(lb)))
        if r1 != r2:
            failures += 1
            print("MISMATCH xor on iterators", r1, r2)
    else:
        compare("xor", a, b)

# ------------------------------------------------------------------ hkdf_expand
for _ in range(60):
    prk = rbytes(rng.choice([0, 1, 16, 32, 64, 65, 100]))
    info = rbytes(rng.choice([0, 1, 2, 10, 50]))
    length = rng.choice([0, 1, 31, 32, 33, 48, 63, 64, 65, 96, 255, 256, 1000])
    compare("hkdf_expand", prk, info, length)
    compare("hkdf_expand", bytearray(prk), bytearray(info), length)
compare("hkdf_expand", b"k" * 32, b"", 255 * 32)  # largest valid
compare("hkdf_expand", b"k" * 32, b"", 255 * 32 + 1)  # counter 256 -> ValueError
compare("hkdf_expand", b"k" * 32, b"i", -1)
compare("hkdf_expand", b"k" * 32, b"i", -100)
compare("hkdf_expand", b"k" * 32, b"i", 40.0)
compare("hkdf_expand", b"k" * 32, b"i", 40.5)
compare("hkdf_expand", b"k" * 32, b"i", True)
compare("hkdf_expand", b"k" * 32, b"i", None)
compare("hkdf_expand", b"k" * 32, b"i", "40")
compare("hkdf_expand", "k" * 32, b"i", 40)
compare("hkdf_expand", b"k" * 32, "i", 40)
compare("hkdf_expand", None, b"i", 40)
compare("hkdf_expand", b"k", None, 40)
compare("hkdf_expand", b"k", None, 0)

# ------------------------------------------------------------------ expand_message_xmd
hashes = [hashlib.sha256, hashlib.sha512, hashlib.sha1, hashlib.sha3_256, hashlib.md5]
for _ in range(150):
    msg = rbytes(rng.choice([0, 1, 5, 32, 100, 200]))
    dst = rbytes(rng.choice([0, 1, 16, 43, 255]))
    h = rng.choice(hashes)
    ln = rng.choice([0, 1, 31, 32, 33, 63, 64, 65, 128, 256, 500, 1000, 8160])
    compare("expand_message_xmd", msg, dst, ln, h)
    compare("expand_message_xmd", bytearray(msg), dst, ln, h)
for h in hashes:
    size = h().digest_size
    for ln in [255 * size - 1, 255 * size, 255 * size + 1, 65535, 65536, 70000]:
        compare("expand_message_xmd", b"msg", b"DST", ln, h)
    compare("expand_message_xmd", b"msg", b"D" * 256, 32, h)
    compare("expand_message_xmd", b"msg", b"D" * 256, 10**6, h)  # DST error first
    compare("expand_message_xmd", b"msg", b"DST", -1, h)
    compare("expand_message_xmd", b"msg", b"DST", -1000, h)
    compare("expand_message_xmd", b"msg", b"DST", 32.0, h)
    compare("expand_message_xmd", b"msg", b"DST", True, h)
    compare("expand_message_xmd", b"msg", b"DST", None, h)
    compare("expand_message_xmd", "msg", b"DST", 32, h)
    compare("expand_message_xmd", b"msg", "DST", 32, h)
    compare("expand_message_xmd", b"msg", bytearray(b"DST"), 64, h)
    compare("expand_message_xmd", None, b"DST", 32, h)
    compare("expand_message_xmd", b"msg", None, 32, h)
compare("expand_message_xmd", b"msg", b"DST", 64, hashlib.shake_128)  # digest() needs a length
compare("expand_message_xmd", b"msg", b"DST", 64, None)
compare("expand_message_xmd", b"msg", b"DST", 64, bytes)

print(f"{os.path.basename(os.path.dirname(__file__))}: {calls} calls, {failures} mismatches")
sys.exit(1 if failures else 0)
