#!/bin/sh
# Offline build of the overlay venv used by every check (MANIFEST.setup_cmd).
# /venv (repo deps, python 3.12) is left untouched; z3/cvc5/crosshair/jsonschema come from the wheelhouse.
set -e
cd "$(dirname "$0")"
V=/verif/.venv
if [ ! -x "$V/bin/python" ] || ! "$V/bin/python" -c "import z3, jsonschema" 2>/dev/null; then
  rm -rf "$V"
  /venv/bin/python -m venv "$V"
  SP=$("$V/bin/python" -c "import sysconfig; print(sysconfig.get_paths()['purelib'])")
  echo "import site; site.addsitedir('/venv/lib/python3.12/site-packages')" > "$SP/_base.pth"
  PIP_NO_INDEX=1 "$V/bin/pip" install -q --no-index --find-links /opt/veriftools/wheels z3-solver cvc5 jsonschema crosshair-tool >/dev/null
fi
"$V/bin/python" -c "import z3, jsonschema; print('overlay ok, z3', z3.get_version_string())"
mkdir -p /verif/evidence /verif/replays
