#!/bin/sh
# evaluates behaviour-preserving patches: every relevant check must exit 0
run() { n=$1; shift; cd /repo; git diff --quiet || { echo "repo dirty"; exit 9; }; git apply /verif/neutral/$n/patch.diff || { echo "$n PATCH FAILED"; return; }
  for p in "$@"; do out=$(/verif/run.py $p 2>&1); rc=$?; echo "$n $p rc=$rc $(echo "$out" | tail -1 | cut -c1-150)"; [ $rc -ne 0 ] && echo "$out" | grep "^VIOLATION\|^HARNESS\|^INCONCLUSIVE\|obligation" | head -6 | cut -c1-330; done
  git checkout -q -- .; }
run n1 C08 C14 C07 C05 C12 C20
run n2 C08 C14 C13 C07 C10 C11 C20
run n3 C13 C18 C19 C06 C20
run n4 C13 C18 C19 C06 C20
run n5 C07 C05 C12 C20
run n6 C13 C07 C17 C05 C12 C20
run n7 C05 C12 C20
run n8 C13 C05 C12 C20
run n9 C01 C02 C03 C04 C09 C16 C20
run n10 C11 C01 C02 C04 C20
run n11 C15 C16 C10 C20
run n12 C10 C20
