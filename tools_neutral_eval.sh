#!/bin/sh
# usage: tools_neutral_eval.sh <scratch worktree> <dir with n*/patch.diff> -- every check on every behaviour-preserving patch (expects exit 0)
wt=$1; dir=$2
for d in $dir/n*/; do n=$(basename $d)
  cd $wt; git checkout -q -- .; git apply $d/patch.diff || { echo "$n PATCH FAILED"; continue; }
  for p in C01 C02 C03 C04 C05 C06 C07 C08 C09 C10 C11 C12 C13 C14 C15 C16 C17 C18 C19 C20; do
    out=$(VERIF_REPO=$wt /verif/run.py $p 2>&1); rc=$?; [ $rc -ne 0 ] && { echo "$n $p rc=$rc $(echo "$out" | tail -1 | cut -c1-150)"; echo "$out" | grep "^VIOLATION\|^HARNESS\|^INCONCLUSIVE" | head -4 | cut -c1-300; }
  done; echo "$n done"
  git checkout -q -- .
done
