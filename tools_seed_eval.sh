#!/bin/sh
# usage: tools_seed_eval.sh <patch.diff> <prop> [<prop>...]  -- applies the patch to /repo, runs the quick checks, restores /repo.
patch=$1; shift
cd /repo || exit 9
git diff --quiet || { echo "repo dirty"; exit 9; }
git apply "$patch" || { echo "PATCH FAILED"; exit 8; }
for p in "$@"; do
  out=$(/verif/run.py $p 2>&1)
  rc=$?
  echo "  $p rc=$rc $(echo "$out" | grep -c '^VIOLATION') violation line(s); $(echo "$out" | tail -1 | cut -c1-160)"
  echo "$out" | grep -A1 "^VIOLATION" | grep "obligation" | head -2 | cut -c1-220
  echo "$out" | grep "^HARNESS-ERROR\|^INCONCLUSIVE" | head -2 | cut -c1-220
done
git checkout -q -- .
