"""C05 / C12 -- pairings: guards, unit on infinity, line functions, Miller-loop structure, final exponentiation.

Decided here: the code computes the object the (trusted) optimal-ate theorem is about -- guards, line functions,
the Miller recurrence for the standard loop constant, the Frobenius steps (BN), the final exponent, the
numerator/denominator split and the fast final exponentiation.  NOT decided: bilinearity / non-degeneracy
themselves (the theorem), and BN254 optimized == reference before the final exponentiation (NAF vs binary chain).
"""
import z3
from symx import core, ring, world
world.install()
from symx.core import SymZ, SymBool
from symx.ring import Ring, Res
from symx.harness import obligation
from .common import (aff_line, lits_summary, mod, require, control, rdiv)
from . import c13, common
from .c08 import cf

PAIR = {("ref", "bn128"): "py_ecc.bn128.bn128_pairing", ("ref", "bls12_381"): "py_ecc.bls12_381.bls12_381_pairing",
        ("opt", "bn128"): "py_ecc.optimized_bn128.optimized_pairing", ("opt", "bls12_381"): "py_ecc.optimized_bls12_381.optimized_pairing"}
BLS_X = -0xd201000000010000
BN_U = 4965661367192848881
LOOP_T = {"bn128": 6 * BN_U + 2, "bls12_381": -BLS_X}

# optimized line functions are C13's obligations; registered under C05 too
for _c in ("bn128", "bls12_381"):
    obligation("C05", "optimized_linefunc_%s" % _c, bound="all finite coordinate triples, characteristic > 3 (shared with C13)")(getattr(c13, "linefunc_" + _c))


# ---------------------------------------------------------------------------
# guards and infinity

def _check_guards(rep, impl, curve):
    pm = mod(PAIR[(impl, curve)])
    rep.encoded(pm.pairing)
    rp = {"kind": "c05_guards", "args": {"impl": impl, "curve": curve}}
    tag = "%s %s pairing" % (impl, curve)
    seen = {"raise": 0, "one": 0, "miller": 0}

    def run(ctx):
        onQ, onP = z3.Bool("Q_on_curve"), z3.Bool("P_on_curve")
        infQ, infP = z3.Bool("Q_inf"), z3.Bool("P_inf")
        log = []

        class Z:
            def __init__(self, b):
                self.b = b

            def zero(self):
                return "ZERO"

            def __eq__(self, o):
                return SymBool(self.b)

            __hash__ = None
        if impl == "opt":
            Q, P = ("xq", "yq", Z(infQ)), ("xp", "yp", Z(infP))
        else:
            # reference: infinity is None; the two flags are decided by the path (both outcomes explored)
            Q = None if SymBool(infQ) else ("xq", "yq")
            P = None if SymBool(infP) else ("xp", "yp")

        def is_on_curve(pt, b):
            log.append(("is_on_curve", pt is Q and b is pm.b2, b is pm.b2, pt is P and b is pm.b, b is pm.b))
            if pt is None:
                return True          # the real is_on_curve accepts infinity
            return SymBool(onQ if (pt is Q and b is pm.b2) else onP)

        def miller(*a, **k):
            log.append(("miller", a, k))
            return "MILLER"
        stubs = dict(is_on_curve=is_on_curve, miller_loop=miller)
        if impl == "ref" or curve == "bn128":
            stubs.update(twist=lambda q: ("TW", q), cast_point_to_fq12=lambda p_: ("CAST", p_))
        with world.patched(pm, **stubs):
            try:
                r = pm.pairing(Q, P)
            except ValueError as e:
                return onQ, onP, infQ, infP, log, ("ValueError", str(e)), Q, P
        return onQ, onP, infQ, infP, log, ("ret", r), Q, P

    def on_path(pth):
        rep.paths += 1
        if pth.kind != "ret":
            rep.fail("%s raised %r" % (tag, pth.value), rp)
            return
        onQ, onP, infQ, infP, log, (kind, val), Q, P = pth.value
        millers = [l for l in log if l[0] == "miller"]
        # a finite argument must pass its curve check; for the reference modules an infinite (None) argument has nothing to check
        okQ = onQ if impl == "opt" else z3.Or(infQ, onQ)
        okP = onP if impl == "opt" else z3.Or(infP, onP)
        if kind == "ValueError":
            seen["raise"] += 1
            g, m = pth.ctx.prove(z3.Or(z3.Not(okQ), z3.Not(okP)))
            require(rep, g and not millers, "%s raises ValueError only when an argument is off its curve, before any Miller loop" % tag, pth.decisions, rp)
            return
        g, m = pth.ctx.prove(z3.And(okQ, okP))
        require(rep, g, "%s returns a value only when both arguments passed their curve check (also when the other argument is infinity)" % tag, pth.decisions, rp)
        checks = [l for l in log if l[0] == "is_on_curve"]
        require(rep, any(c[1] and c[2] for c in checks) and any(c[3] and c[4] for c in checks), "%s checks Q against b2 and P against b" % tag, pth.decisions, rp)
        if impl == "opt":
            if isinstance(val, str) and val == "MILLER":
                seen["miller"] += 1
                g, m = pth.ctx.prove(z3.And(z3.Not(infQ), z3.Not(infP)))
                require(rep, g, "%s enters the Miller loop only for finite points" % tag, pth.decisions, rp)
                a, k = millers[0][1], millers[0][2]
                want = (("TW", Q), ("CAST", P)) if curve == "bn128" else (Q, P)
                require(rep, (a[0] is Q and a[1] is P or a[:2] == want) and k.get("final_exponentiate") is True,
                        "%s passes (%s, final_exponentiate) on" % (tag, "twist(Q), cast(P)" if curve == "bn128" else "Q, P"), pth.decisions, rp)
            else:
                seen["one"] += 1
                g, m = pth.ctx.prove(z3.Or(infQ, infP))
                require(rep, g and not isinstance(val, str) and val == pm.FQ12.one() and not millers, "%s returns FQ12.one() exactly for an identity argument (any representative z = 0)" % tag, pth.decisions, rp)
        else:
            seen["miller"] += 1
            a = millers[0][1] if millers else None
            require(rep, isinstance(val, str) and val == "MILLER" and a == (("TW", Q), ("CAST", P)),
                    "%s = miller_loop(twist(Q), cast_point_to_fq12(P)) (infinity is handled inside miller_loop)" % tag, pth.decisions, rp)
    core.explore(run, on_path=on_path)
    require(rep, seen["raise"] >= 2 and seen["miller"] >= 1, "%s: refusing and computing paths reachable %s" % (tag, seen), None, rp)
    if impl == "opt":
        # final_exponentiate=False is passed through
        log = []
        with world.patched(pm, is_on_curve=lambda pt, b: True, miller_loop=lambda *a, **k: log.append(k) or "M", twist=lambda q: q, cast_point_to_fq12=lambda q: q):
            one, zero = pm.FQ.one(), pm.FQ.zero()
            pm.pairing((pm.FQ2.one(), pm.FQ2.one(), pm.FQ2.one()), (one, one, one), final_exponentiate=False)
        require(rep, log and log[0].get("final_exponentiate") is False, "%s forwards final_exponentiate=False" % tag, None, rp)
    else:
        # reference: identity (None) in either argument gives one, through the real miller_loop and helpers
        one = pm.FQ12.one()
        G1, G2 = mod(PAIR[(impl, curve)].rsplit(".", 1)[0]).G1, mod(PAIR[(impl, curve)].rsplit(".", 1)[0]).G2
        require(rep, pm.pairing(None, G1) == one and pm.pairing(G2, None) == one and pm.pairing(None, None) == one,
                "%s: the point at infinity (None) in either argument gives the unit (ground, real code)" % tag, None, rp)


for _k in PAIR:
    def _mk(impl, curve):
        def f(rep, tier):
            _check_guards(rep, impl, curve)
        return f
    obligation("C05", "guards_%s_%s" % _k, bound="all outcomes of the two curve checks and the two infinity tests (symbolic booleans); call trace of the real pairing()")(_mk(*_k))


# ---------------------------------------------------------------------------
# reference line functions

def _check_ref_linefunc(rep, curve):
    pm = mod(PAIR[("ref", curve)])
    common.WITNESS_MOD[0] = pm.field_modulus
    rep.encoded(pm.linefunc)
    rp = {"kind": "c05_linefunc", "args": {"curve": curve}}

    def fn(R):
        P1, P2, T = (R.atom("x1"), R.atom("y1")), (R.atom("x2"), R.atom("y2")), (R.atom("xt"), R.atom("yt"))
        R.declare_nonzero(P1[1])
        return P1, P2, T, pm.linefunc(P1, P2, T)
    seen = set()
    for pth, R in ring.run_paths(fn, lambda: Ring(None)):
        rep.paths += 1
        path = lits_summary(R)
        if pth.kind != "ret":
            rep.fail("reference linefunc raised %r" % (pth.value,), rp, detail=str(path))
            continue
        P1, P2, T, res = pth.value
        asg, un = c13._classify(R, {"dx": P2[0] - P1[0], "dy": P2[1] - P1[1]})
        case = "chord" if asg.get("dx") == "nonzero" else "tangent" if (asg.get("dx") == "zero" and asg.get("dy") == "zero") else \
            "vertical" if (asg.get("dx") == "zero" and asg.get("dy") == "nonzero") else None
        if case is None:
            rep.unknown("reference linefunc path not classified", detail=str(path))
            continue
        seen.add(case)
        require(rep, R.prove_equal(res, aff_line(P1, P2, T, case)), "reference linefunc %s = affine line through the points evaluated at T" % case, path, rp)
    require(rep, seen == {"chord", "tangent", "vertical"}, "reference linefunc has chord / tangent / vertical paths", None, rp)
    for args in ((None, (1, 2), (3, 4)), ((1, 2), None, (3, 4)), ((1, 2), (3, 4), None)):
        try:
            pm.linefunc(*args)
            rep.fail("reference linefunc accepts a point at infinity", rp)
        except ValueError:
            rep.ok("reference linefunc refuses infinity", nontrivial=False)


for _c in ("bn128", "bls12_381"):
    def _mk2(c):
        def f(rep, tier):
            _check_ref_linefunc(rep, c)
        return f
    obligation("C05", "reference_linefunc_%s" % _c, bound="all affine coordinate pairs, characteristic > 3 (identities over Z)")(_mk2(_c))


# ---------------------------------------------------------------------------
# Miller-loop structure: the real loops run on recording stubs

class Form:
    """a point as an integer combination of Q, pi(Q), pi^2(Q) (exponent model)."""

    def __init__(self, d=None):
        self.d = {k: v for k, v in (d or {}).items() if v}

    def __add__(self, o):
        d = dict(self.d)
        for k, v in o.d.items():
            d[k] = d.get(k, 0) + v
        return Form(d)

    def scale(self, n):
        return Form({k: v * n for k, v in self.d.items()})

    def key(self):
        return tuple(sorted(self.d.items()))


class Coord:
    def __init__(self, form, idx, frob=0, sign=1):
        self.form, self.idx, self.frob, self.sign = form, idx, frob, sign

    def __pow__(self, e):
        self.owner_mod_p_check = e
        return Coord(self.form, self.idx, self.frob + 1, self.sign) if e == Coord.P else NotImplemented

    def __neg__(self):
        return Coord(self.form, self.idx, self.frob, -self.sign)


class Pt(tuple):
    """projective / affine point object handed to the real loop: a tuple of Coord so that Q[0] ** p works."""
    def __new__(cls, form, n):
        self = tuple.__new__(cls, [Coord(form, i) for i in range(n)])
        self.form = form
        return self


def as_form(x):
    if isinstance(x, Pt):
        return x.form
    if isinstance(x, tuple) and all(isinstance(c, Coord) for c in x):
        # (x^p^k, +-y^p^k[, z^p^k]) built by the loop from Q's coordinates
        k = x[0].frob
        if any(c.frob != k for c in x) or x[0].sign != 1 or (len(x) > 2 and x[2].sign != 1):
            raise core.Unsupported("inconsistent Frobenius image")
        base = x[0].form
        if base.key() != (("Q", 1),):
            raise core.Unsupported("Frobenius of a point other than Q")
        return Form({"pi%d" % k: x[1].sign})
    if isinstance(x, Wrapped):
        return x.form
    raise core.Unsupported("not a model point: %r" % (x,))


class Wrapped:
    """twist(...) / cast(...) of a model point: transparent for the recurrence."""

    def __init__(self, kind, form):
        self.kind, self.form = kind, form


class FV:
    """element of the target group as a formal product of line-function atoms with integer exponents."""

    def __init__(self, d=None):
        self.d = {k: v for k, v in (d or {}).items() if v}

    def __mul__(self, o):
        d = dict(self.d)
        for k, v in o.d.items():
            d[k] = d.get(k, 0) + v
        return FV(d)

    def __truediv__(self, o):
        d = dict(self.d)
        for k, v in o.d.items():
            d[k] = d.get(k, 0) - v
        return FV(d)

    def __pow__(self, n):
        return FV({k: v * n for k, v in self.d.items()})

    @staticmethod
    def one():
        return FV()


class FQ12Stub:
    @staticmethod
    def one():
        return FV()


def run_miller(impl, curve, final=True):
    """execute the real miller_loop of one module on the recording model; returns (value FV, trace info)."""
    pm = mod(PAIR[(impl, curve)])
    p = pm.field_modulus
    Coord.P = p
    Q = Pt(Form({"Q": 1}), 2 if impl == "ref" else 3)
    P = Pt(Form({"P": 1}), 2 if impl == "ref" else 3)
    info = {"lines": [], "final_R": None}

    def linefunc(A, B, T):
        fa, fb = as_form(A), as_form(B)
        if as_form(T).key() != (("P", 1),):
            raise core.Unsupported("line function evaluated somewhere else than P")
        k = ("L", fa.key(), fb.key())
        info["lines"].append(k)
        if impl == "opt":
            return FV({k + ("n",): 1}), FV({k + ("d",): 1})
        return FV({k + ("n",): 1, k + ("d",): -1})       # reference value = num / den of the same line

    def dbl(A):
        r = Wrapped("pt", as_form(A).scale(2))
        info["final_R"] = r.form
        return r

    def add(A, B):
        r = Wrapped("pt", as_form(A) + as_form(B))
        info["final_R"] = r.form
        return r

    def neg(A):
        return Wrapped("pt", as_form(A).scale(-1))
    stubs = dict(linefunc=linefunc, double=dbl, add=add, FQ12=FQ12Stub, twist=lambda a: Wrapped("tw", as_form(a)),
                 cast_point_to_fq12=lambda a: Wrapped("cast", as_form(a)), is_on_curve=lambda *a: True)
    if hasattr(pm, "neg"):
        stubs["neg"] = neg
    with world.patched(pm, **stubs):
        if impl == "opt":
            v = pm.miller_loop(Q, P, final_exponentiate=final)
        else:
            v = pm.miller_loop(Q, P)
    return v, info, pm


def spec_miller(curve, digits, impl_kind):
    """textbook Miller recurrence for the digit chain (most significant digit first, the leading 1 implicit),
    plus the two Frobenius line steps for BN curves.  Returns (FV, final R form)."""
    f = FV()
    R = Form({"Q": 1})
    Q = Form({"Q": 1})

    def line(a, b):
        k = ("L", a.key(), b.key())
        return FV({k + ("n",): 1, k + ("d",): -1})
    for dgt in digits:
        f = f * f * line(R, R)
        R = R.scale(2)
        if dgt == 1:
            f = f * line(R, Q)
            R = R + Q
        elif dgt == -1:
            nQ = Q.scale(-1)
            f = f * line(R, nQ)
            R = R + nQ
    if curve == "bn128":
        Q1 = Form({"pi1": 1})
        nQ2 = Form({"pi2": -1})
        f = f * line(R, Q1)
        R = R + Q1
        f = f * line(R, nQ2)
    return f, R


def _digits(pm, impl, curve):
    if impl == "opt":
        enc = list(pm.pseudo_binary_encoding)
        top = pm.log_ate_loop_count
        return [enc[i] for i in range(top, -1, -1)], sum(e * 2 ** i for i, e in enumerate(enc))
    T = pm.ate_loop_count
    top = pm.log_ate_loop_count
    return [1 if T & (2 ** i) else 0 for i in range(top, -1, -1)], T


def _check_miller(rep, impl, curve):
    v, info, pm = run_miller(impl, curve, True)
    rep.encoded(pm.miller_loop)
    rp = {"kind": "c05_pairing", "args": {"impl": impl, "curve": curve}}
    tag = "%s %s miller_loop" % (impl, curve)
    digits, total = _digits(pm, impl, curve)
    T = LOOP_T[curve]
    p, r = pm.field_modulus, pm.curve_order
    with core.Ctx() as ctx:
        # digit chain: leading implicit 1 at position log+1 ... the chain represents T
        top = pm.log_ate_loop_count
        val = 2 ** (top + 1) + sum(d * 2 ** (top - i) for i, d in enumerate(digits))
        g, m = ctx.prove(z3.And(z3.IntVal(val) == T, z3.IntVal(pm.ate_loop_count) == T))
        require(rep, g, "%s: the loop digits (with the implicit leading 1) represent the standard loop constant T = %s" % (tag, "6u+2" if curve == "bn128" else "|x|"), None, rp)
    spec_f, spec_R = spec_miller(curve, digits, impl)
    E = (p ** 12 - 1) // r
    want = spec_f ** E
    require(rep, isinstance(v, FV) and v.d == want.d, "%s: value = (Miller recurrence f_{T,Q}(P)%s) ^ ((p^12 - 1) / r), record by record (%d line evaluations)"
            % (tag, " * Frobenius lines" if curve == "bn128" else "", len(info["lines"])), None, rp)
    with core.Ctx() as ctx:
        g, m = ctx.prove(z3.IntVal((p ** 12 - 1) % r) == 0)
        require(rep, g, "%s: r divides p^12 - 1" % tag, None, rp)
    rep.note("%s: %d doublings, %d additions; final accumulator point %s" % (tag, len(digits), sum(1 for d in digits if d), spec_R.d))
    if impl == "opt":
        v2, info2, _ = run_miller(impl, curve, False)
        require(rep, isinstance(v2, FV) and v2.d == spec_f.d, "%s(final_exponentiate=False) returns exactly the operand that the True path raises to (p^12-1)/r; f_num/f_den = reference f" % tag, None, rp)
    return spec_f, info


for _k in PAIR:
    def _mk3(impl, curve):
        def f(rep, tier):
            rep.stub("linefunc / double / add / neg / twist / cast_point_to_fq12 / FQ12.one -> recording model (points as integer combinations of Q, pi(Q), pi^2(Q); values as formal products of line atoms)")
            _check_miller(rep, impl, curve)
        return f
    obligation("C05", "miller_structure_%s_%s" % _k, bound="the real loop executed once with its concrete trip count on opaque atoms; every record compared with Miller's recurrence for T")(_mk3(*_k))


# ---------------------------------------------------------------------------
# C12

def _c12_split(rep, tier):
    rep.stub("recording model as in C05 miller_structure_*")
    for curve in ("bn128", "bls12_381"):
        _check_miller(rep, "opt", curve)


obligation("C12", "split_final_exponentiation_operand", bound="both optimized modules: miller_loop(final_exponentiate=False) returns exactly the operand that the default path raises to (p^12-1)/r (incl. the BN254 Frobenius line steps); real loops on the recording model")(_c12_split)


@obligation("C12", "bls12_381_optimized_equals_reference_trace", bound="BLS12-381: both real Miller loops on the recording model (same binary digit chain): equal formal products; numerator/denominator split")
def c12_bls_trace(rep, tier):
    rp = {"kind": "c12_pairing", "args": {"curve": "bls12_381"}}
    v_ref, i_ref, pm_r = run_miller("ref", "bls12_381", True)
    v_opt, i_opt, pm_o = run_miller("opt", "bls12_381", True)
    rep.encoded(pm_r.miller_loop, pm_o.miller_loop)
    require(rep, v_ref.d == v_opt.d and i_ref["lines"] == i_opt["lines"], "BLS12-381: optimized and reference Miller loops evaluate the same lines in the same order and return the same product (f_num/f_den = f)", None, rp)
    require(rep, pm_r.ate_loop_count == pm_o.ate_loop_count and pm_r.curve_order == pm_o.curve_order and pm_r.field_modulus == pm_o.field_modulus,
            "BLS12-381: same loop constant, order and modulus in both modules", None, rp)
    rep.trust("what linefunc / double / add / twist compute on coordinates is C13 / C07 / C05; here they are deterministic opaque functions")


@obligation("C12", "bn128_same_theory_premises", bound="BN254: both loops tied to T = 6u+2, the two Frobenius steps and the exponent (p^12-1)/r (C05 miller_structure_*); intermediate values differ (NAF vs binary)")
def c12_bn(rep, tier):
    rp = {"kind": "c12_pairing", "args": {"curve": "bn128"}}
    v_ref, i_ref, pm_r = run_miller("ref", "bn128", True)
    v_opt, i_opt, pm_o = run_miller("opt", "bn128", True)
    fr, Rr = spec_miller("bn128", _digits(pm_r, "ref", "bn128")[0], "ref")
    fo, Ro = spec_miller("bn128", _digits(pm_o, "opt", "bn128")[0], "opt")
    require(rep, Rr.d == Ro.d, "BN254: both digit chains end at the same accumulator point T*Q + pi(Q) (before the last line)", None, rp)
    require(rep, pm_r.ate_loop_count == pm_o.ate_loop_count == LOOP_T["bn128"], "BN254: same loop constant", None, rp)
    rep.note("NOT decided: equality of the two BN254 Miller values (they agree only after the final exponentiation, by the theory of Miller functions)")


@obligation("C12", "final_exponentiation_split_and_fast_form", timeout=900,
            bound="formal products of 1..6 opaque Miller values; fast final exponentiation as exponent arithmetic; exp_by_p on symbolic FQ12 coefficients; table entries recomputed (ground)")
def c12_final_exp(rep, tier):
    rp = {"kind": "c12_finalexp", "args": {}}
    for curve in ("bn128", "bls12_381"):
        pm = mod(PAIR[("opt", curve)])
        p, r = pm.field_modulus, pm.curve_order
        rep.encoded(pm.final_exponentiate)
        E = (p ** 12 - 1) // r
        if curve == "bls12_381":
            rep.encoded(pm.exp_by_p)
            # fast form: exp_by_p modelled as x -> x^p on formal products
            with world.patched(pm, exp_by_p=lambda x: x ** p):
                vals = [FV({("M", i): 1}) for i in range(6)]
                for n in range(1, 7):
                    prod = FV()
                    for v in vals[:n]:
                        prod = prod * v
                    lhs = pm.final_exponentiate(prod)
                    rhs = FV()
                    for v in vals[:n]:
                        rhs = rhs * (v ** E)
                    require(rep, lhs.d == rhs.d, "BLS12-381: final_exponentiate(product of %d Miller values) = product of the individually exponentiated pairings" % n, None, rp)
            with core.Ctx() as ctx:
                cof = (p ** 4 - p ** 2 + 1) // r
                g, m = ctx.prove(z3.And(z3.IntVal((p ** 2 + 1) * (p ** 6 - 1) * cof) == E, z3.IntVal((p ** 4 - p ** 2 + 1) % r) == 0))
                require(rep, g, "BLS12-381: (p^2+1)(p^6-1)((p^4-p^2+1)/r) = (p^12-1)/r (ground)", None, rp)
            # exp_by_p(x) = sum_i x_i * T[i] on symbolic coefficients; T[i] = (w^i)^p recomputed
            FQ12 = pm.FQ12
            def run_ebp(ctx, pm=pm, FQ12=FQ12, p=p):
                R = Ring(p)
                ctx.ring = R
                xs = [R.atom("c%d" % i) for i in range(12)]
                return R, xs, cf(pm.exp_by_p(FQ12(xs)))

            def on_ebp(pth, pm=pm):
                rep.paths += 1
                if pth.kind != "ret":
                    rep.fail("exp_by_p raised %r" % (pth.value,), rp)
                    return
                R, xs, got = pth.value
                want = [R.const(0)] * 12
                for i in range(12):
                    ti = [int(c) for c in pm.exptable[i].coeffs]
                    want = [w_ + xs[i] * t for w_, t in zip(want, ti)]
                ok = all(R.prove_equal(R.lift(a), b) == "zero" for a, b in zip(got, want))
                require(rep, ok, "exp_by_p(x) = sum_i x_i * exptable[i] for every x (12 symbolic coefficients, every case the code distinguishes)", lits_summary(R), rp)
            try:
                core.explore(run_ebp, on_path=on_ebp, max_paths=120)
            except core.PathLimit:
                rep.unknown("exp_by_p distinguishes more than 120 coefficient cases: not all explored")
            with core.Ctx() as ctx:
                ctx.ring = Ring(p)
                z0 = cf(pm.exp_by_p(FQ12([0] * 12)))
                require(rep, all(int(c) == 0 for c in z0), "exp_by_p(0) = 0", None, rp)
            ok = True
            for i in range(12):
                wi = FQ12([0] * i + [1] + [0] * (11 - i))
                ok &= (pm.exptable[i] == wi ** p)
            require(rep, ok and len(pm.exptable) == 12, "ground: exptable[i] = (w^i)^p for i = 0..11 (recomputed)", None, rp)
            rep.trust("Frobenius x -> x^p is additive and fixes F_p, hence sum_i x_i (w^i)^p = x^p")
        else:
            vals = [FV({("M", i): 1}) for i in range(3)]
            prod = vals[0] * vals[1] * vals[2]
            lhs = pm.final_exponentiate(prod)
            rhs = (vals[0] ** E) * (vals[1] ** E) * (vals[2] ** E)
            require(rep, lhs.d == rhs.d, "BN254 optimized: final_exponentiate(product) = product of exponentiated values (plain exponent (p^12-1)/r)", None, rp)
        pr = mod(PAIR[("ref", curve)])
        v = FV({("M", 0): 1})
        require(rep, pr.final_exponentiate(v).d == (v ** E).d, "%s reference final_exponentiate raises to (p^12-1)/r" % curve, None, rp)
    rep.note("x**n = n-fold product and (ab)^e = a^e b^e for the FQ12 classes are C08's obligations (pow_all_exponents, fqp_ring_*)")


# ---------------------------------------------------------------------------
# contracts of the curve modules that the pairing guards and the Miller loops rely on (owned by C07, registered here too:
# a pairing refuses off-curve input only if is_on_curve is the curve equation, and is representative-independent only if twist is)
from . import c07 as _c07
for _c in ("bn128", "bls12_381"):
    obligation("C05", "curve_module_contracts_%s" % _c,
               bound="reference %s curve module: is_on_curve / is_inf / add / double / neg / eq on all affine coordinate pairs incl. zero coordinates (the C07 obligation, pairing guards depend on it)" % _c)(
        (lambda c: (lambda rep, tier: _c07._check_reference(rep, c)))(_c))
obligation("C05", "twist_embedding", bound="every point of E'(F_p^2) with symbolic coefficients, every zero / non-zero case the code distinguishes, all four modules (the C07 obligation; the Miller loops consume twist(Q))")(_c07.twist)
