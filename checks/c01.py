"""C01 -- see checks/bls_proto.py (obligations registered there under C01); plus the codec contracts the round trip consumes (owned by C11)."""
from symx.harness import obligation
from . import bls_proto  # noqa: F401
from . import c11 as _c11

# an honest signature verifies only if the encodings produced by SkToPk / Sign decode back to the same points
obligation("C01", "codec_contract_G1_round_trip",
           bound="every affine point of E(F_q) with x != 0 (all points of the prime-order subgroup) and every projective scaling: decompress_G1(compress_G1(P)) = P (the C11 obligation without the order-3 points)")(_c11.roundtrip_g1_subgroup)
obligation("C01", "codec_contract_G2_round_trip", timeout=900,
           bound="every affine point of E'(F_q^2): decompress_G2(compress_G2(P)) = P (the C11 obligation)")(_c11.roundtrip_g2)
obligation("C01", "codec_contract_byte_helpers", timeout=900,
           bound="every word in range / every 48- and 96-byte string: G1_to_pubkey, G2_to_signature, pubkey_to_G1, signature_to_G2 are the octet-string forms of the word codecs (the C11 obligations)")(
    lambda rep, tier: (_c11.byte_helpers(rep, tier), _c11.byte_decoders(rep, tier)))
