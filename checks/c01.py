"""C01 -- see checks/bls_proto.py (obligations registered there under C01)."""
from . import bls_proto  # noqa: F401
