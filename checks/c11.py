"""C11 -- point (de)serialization is a canonical bijection in the ZCash format.

The real compress_/decompress_G1/G2 run on exact symbolic integers (all 384-bit words, all
three flag bits and x fully symbolic).  Products of symbolic values are applications of an
uninterpreted, argument-ordered MUL (QF_UFLIA); the 380-bit modular exponentiations that
compute square roots are replaced by their contract (Euler / Fermat -- trusted) and the real
selection, flag and range logic then runs symbolically.  Families of unreal models that the
uninterpreted products admit are closed by ground-justified lemma instances about F_q.
"""
import z3
from symx import core, ring, world
world.install()
from symx.core import SymZ, SymBool
from symx.ring import Ring, Res
from symx.harness import obligation
from .common import mod, require, control, lits_summary
from .c08 import inv_stub_uf, inv_stub_ring

PC = "py_ecc.bls.point_compression"
OPT = "py_ecc.optimized_bls12_381"


def _q():
    return mod(OPT).field_modulus


def _mulsq(y):
    """MUL(y, y) term in the uninterpreted-product encoding."""
    return core.mul_uf()(y.t, y.t)


def sqrt_hook_g1(q, residue_known=False, known_root=None):
    """contract of pow(t, (q+1)//4, q) for t = x^3 + 4: some y in [0,q) with y^2 == t or y^2 == -t (mod q)
    [Euler's criterion; trusted]; y^2 == t when t is known to be a square (residue_known).
    Lemma instances about F_q (uninterpreted products cannot derive them):
      * t != 0 (x^3 + 4 has no root: -4 is a cubic non-residue -- ground check), hence y != 0;
      * (q - y)^2 == y^2."""
    def hook(b, e, m):
        if m == q and e == (q + 1) // 4:
            ctx = core.cur()
            t = SymZ.lift(b)
            y = SymZ.var(ctx.fresh_name("sqrt"), 0, q - 1)
            yy = (y * y) % q
            ctx.add_fact(z3.And(y.t >= 0, y.t < q))
            if residue_known:
                ctx.add_fact(yy.t == (t.t % q))
                if known_root is not None:
                    kr = known_root[0]
                    # lemma (q prime): the roots of kr^2 are exactly +-kr
                    ctx.add_fact(z3.Or(y.t == kr.t, y.t == q - kr.t))
            else:
                ctx.add_fact(z3.Or(yy.t == (t.t % q), yy.t == ((q - (t.t % q)) % q)))
            ctx.add_fact((t.t % q) != 0)
            ctx.add_fact(y.t != 0)
            ny = (q - y) % q
            ctx.add_fact(((ny * ny) % q).t == yy.t)
            ctx.notes.append(("sqrt", t.t, y.t))
            return y
        return None
    return hook


def _flags_of(z):
    c = (z.t / (1 << 383)) % 2
    b = (z.t / (1 << 382)) % 2
    a = (z.t / (1 << 381)) % 2
    x = z.t % (1 << 381)
    return c, b, a, x


def _model_z(m, names=("z", "z1", "z2")):
    out = {}
    try:
        for d in m.decls():
            if d.name() in names:
                out[d.name()] = str(m[d].as_long())
    except Exception:
        pass
    return out


@obligation("C11", "decompress_G1_all_words", bound="every integer z in [0, 2^384) (flags and x fully symbolic), plus unbounded z for the length contract; QF_UFLIA; the 380-bit square-root exponentiation replaced by its contract")
def decompress_g1_all_words(rep, tier):
    pc = mod(PC)
    o = mod(OPT)
    q = _q()
    rep.encoded(pc.decompress_G1, pc.compress_G1, pc.get_flags, pc.is_point_at_infinity, o.normalize)
    rep.stub("pow(t, (q+1)//4, q) -> y in [0,q) with y^2 == +-t (mod q)  [Euler's criterion; trusted]")
    rep.trust("x^3 + 4 == 0 has no root mod q (no 2-torsion; (-4)^((q-1)/3) != 1, ground check) -- lemma instance y == 0 iff t == 0")
    # ground justification of the lemma
    require(rep, pow(-4 % q, (q - 1) // 3, q) != 1 and q % 4 == 3, "ground: -4 is a cubic non-residue mod q and q == 3 (mod 4)", None,
            {"kind": "c11_g1", "args": {}})
    rp = {"kind": "c11_g1", "args": {}}
    seen = {"accept_inf": 0, "accept_pt": 0, "raise": 0}

    def run(ctx):
        ctx.pow_hook = sqrt_hook_g1(q)
        z = SymZ.var("z", 0, (1 << 384) - 1)
        try:
            pt = pc.decompress_G1(z)
        except ValueError as e:
            return z, ("ValueError", str(e)[:60])
        return z, ("ok", pt)

    def on_path(pth):
        rep.paths += 1
        if pth.kind != "ret":
            r, m = pth.ctx.satisfiable()
            rep.fail("decompress_G1 raised %r (only ValueError is allowed)" % (pth.value,), {"kind": "c11_g1", "args": {"model": _model_z(m) if m else {}}})
            return
        z, (kind, val) = pth.value
        c, b, a, x = _flags_of(z)
        is_inf_word = (z.t % (1 << 381)) == 0
        if kind == "ValueError":
            seen["raise"] += 1
            # rejected words are exactly the malformed ones: c=0, b != (x==0), infinity with a=1, x >= q, or x^3+4 a non-residue
            notes = [n for n in pth.ctx.notes if n[0] == "sqrt"]
            wellformed = z3.And(c == 1, b == z3.If(is_inf_word, 1, 0), z3.Implies(is_inf_word, a == 0), z3.Implies(z3.Not(is_inf_word), x < q))
            if notes:
                t, y = notes[-1][1], notes[-1][2]
                yy = core.mul_uf()(y, y) % q
                goal = yy != (t % q)          # raised after the root test: the candidate is not a root, i.e. t is a non-residue
            else:
                goal = z3.Not(wellformed)
            r, m = pth.ctx.prove(goal)
            require(rep, r, "decompress_G1 raises ValueError only for malformed words (%s)" % val, pth.decisions,
                    {"kind": "c11_g1", "args": {"model": _model_z(m) if m else {}}})
            return
        pt = val
        X, Y, Z = (SymZ.lift(cc.n) for cc in pt)
        inf = pth.ctx.prove(Z.t == 0)[0] == "unsat"
        rpm = lambda m: {"kind": "c11_g1", "args": {"model": _model_z(m) if m else {}}}
        if inf:
            seen["accept_inf"] += 1
            r, m = pth.ctx.prove(z3.And(c == 1, b == 1, a == 0, x == 0))
            require(rep, r, "accepted infinity word is exactly 0b110 || 0", pth.decisions, rpm(m))
        else:
            seen["accept_pt"] += 1
            yy = core.mul_uf()(Y.t, Y.t) % q
            x3 = (SymZ(x, 0, None) ** 3 + 4) % q
            goals = [("flags c=1, b=0", z3.And(c == 1, b == 0)), ("x < q", x < q), ("returned x is the word's x", X.t == x),
                     ("z == 1", Z.t == 1), ("y in [0,q)", z3.And(Y.t >= 0, Y.t < q)),
                     ("y^2 == x^3 + 4 (mod q)", yy == x3.t),
                     ("sign flag = larger y", a == (2 * Y.t) / q)]
            for w, g in goals:
                r, m = pth.ctx.prove(g)
                require(rep, r, "decompress_G1 accepted word: " + w, pth.decisions, rpm(m))
        # canonicity: the real compress_G1 of the returned point is the input word
        try:
            z2 = pc.compress_G1(pt)
        except Exception as e:
            rep.fail("compress_G1(decompress_G1(z)) raised %r" % (e,), rp)
            return
        r, m = pth.ctx.prove(SymZ.lift(z2).t == z.t)
        require(rep, r, "compress_G1(decompress_G1(z)) == z on this accepting path", pth.decisions, rpm(m))
    core.explore(run, ctx_kwargs=dict(mul="uf"), on_path=on_path)
    for k, v in seen.items():
        require(rep, v > 0, "reachability: at least one %s path" % k, None, rp)

    # ---- length contract used by the protocol layer: only z mod 2^384 matters; z < 2^383 raises
    def run_len(ctx):
        ctx.pow_hook = sqrt_hook_g1(q)
        z = SymZ.var("z", 0, None)
        try:
            pt = pc.decompress_G1(z)
        except ValueError as e:
            return z, None
        return z, pt

    def on_len(pth):
        rep.paths += 1
        if pth.kind != "ret":
            rep.fail("decompress_G1 on an unbounded word raised %r" % (pth.value,), rp)
            return
        z, pt = pth.value
        if pt is not None:
            r, m = pth.ctx.prove(z.t >= (1 << 383))
            require(rep, r, "decompress_G1 accepts only z >= 2^383 (so strings shorter than 48 bytes are refused)", pth.decisions,
                    {"kind": "c11_g1", "args": {"model": _model_z(m) if m else {}}})
            X = SymZ.lift(pt[0].n)
            zz = z.t % (1 << 384)
            r, m = pth.ctx.prove(z3.Or(SymZ.lift(pt[2].n).t == 0, X.t == zz % (1 << 381)))
            require(rep, r, "decompress_G1(z) depends only on z mod 2^384 (x taken from the low 381 bits)", pth.decisions, rp)
    core.explore(run_len, ctx_kwargs=dict(mul="uf"), on_path=on_len)
    rep.note("decompress_G1 ignores bits >= 384 of z: a key with extra leading bytes decodes like its last 48 bytes (length gates are the ciphersuite's job, see C04)")


@obligation("C11", "compress_decompress_G1_all_points", bound="every affine point (x, y) in [0,q)^2 with y^2 == x^3 + 4 and every projective scaling; infinity in any representation (x, y, 0); QF_UFLIA + lemma instances")
def roundtrip_g1(rep, tier):
    _roundtrip_g1(rep, tier, False)


def roundtrip_g1_subgroup(rep, tier):
    """the same obligation restricted to x != 0: every point of the prime-order subgroup has x != 0 ((0, +-2) have order 3)."""
    rep.assume("x != 0: the two curve points with x = 0 have order 3 and are never public keys (C11 owns the all-points statement and its known finding)")
    _roundtrip_g1(rep, tier, True)


def _roundtrip_g1(rep, tier, nonzero_x):
    pc = mod(PC)
    o = mod(OPT)
    q = _q()
    FQ = o.FQ
    fe = mod("py_ecc.fields.optimized_field_elements")
    rep.encoded(pc.decompress_G1, pc.compress_G1, o.normalize, o.is_inf)
    rep.trust("a^2 == b^2 (mod q) implies a == +-b (q prime) -- lemma instance for the recovered root")
    rp = {"kind": "c11_g1", "args": {}}
    seen = {"ok": 0}

    def run(ctx):
        x = SymZ.var("x", 0, q - 1)
        y = SymZ.var("y", 0, q - 1)
        ctx.pow_hook = sqrt_hook_g1(q, residue_known=True, known_root=[y])
        ctx.assume((y * y) % q == (x ** 3 + 4) % q)       # the point is on the curve
        if nonzero_x:
            ctx.assume(x.t != 0)
        ctx.add_fact(y.t != 0)                                 # lemma: x^3 + 4 != 0 (no 2-torsion), so y != 0
        pt = (FQ(x), FQ(y), FQ(1))
        z = pc.compress_G1(pt)
        try:
            back = pc.decompress_G1(z)
        except ValueError as e:
            return x, y, z, ("ValueError", str(e))
        return x, y, z, ("ok", back)

    def on_path(pth):
        rep.paths += 1
        if pth.kind != "ret":
            rep.fail("compress/decompress raised %r" % (pth.value,), rp)
            return
        x, y, z, (kind, val) = pth.value
        mdl = lambda m: {"kind": "c11_g1_point", "args": {"x": str(m.eval(x.t, model_completion=True)) if m else "1",
                                                          "y": str(m.eval(y.t, model_completion=True)) if m else "1"}}
        if kind == "ValueError":
            # report up to three DISTINCT failing x on this path, so that a listed known finding cannot mask another input
            excl = []
            for _ in range(3):
                r, m = pth.ctx.satisfiable(excl)
                if r == "sat":
                    rep.fail("decompress_G1(compress_G1(P)) raises ValueError (%s) for a curve point P" % val[:50], mdl(m))
                    excl.append(x.t != m.eval(x.t, model_completion=True))
                elif r == "unknown":
                    rep.unknown("feasibility of a raising round-trip path undecided")
                    break
                else:
                    break
            return
        seen["ok"] += 1
        X, Y, Z = (SymZ.lift(c.n) for c in val)
        r, m = pth.ctx.prove(z3.And(X.t == x.t, Y.t == y.t, Z.t == 1))
        if r == "sat":
            rep.note("model: x=%s y=%s X=%s Y=%s notes=%s" % (m.eval(x.t), m.eval(y.t), m.eval(X.t), m.eval(Y.t),
                                                             [str(m.eval(n[2])) for n in pth.ctx.notes if n[0] == "sqrt"]))
        require(rep, r, "decompress_G1(compress_G1(P)) == P", pth.decisions, mdl(m))
    core.explore(run, ctx_kwargs=dict(mul="uf"), on_path=on_path)
    require(rep, seen["ok"] > 0, "reachability: a round-trip path returns", None, rp)

    # projective scaling and infinity: compress only reads normalize(pt) / is_inf(pt)
    def fn(R):
        x, y, lam = R.atom("x"), R.atom("y"), R.atom("lam")
        R.declare_nonzero(lam)
        pt = (FQ(x * lam), FQ(y * lam), FQ(lam))
        with world.patched(fe, prime_field_inv=inv_stub_ring):
            nx, ny = o.normalize(pt)
            inf = o.is_inf(pt)
        return x, y, nx, ny, inf
    for pth, R in ring.run_paths(fn, lambda: Ring(q)):
        rep.paths += 1
        if pth.kind != "ret":
            rep.fail("normalize raised %r" % (pth.value,), rp)
            continue
        x, y, nx, ny, inf = pth.value
        require(rep, R.prove_equal(nx.n, x) == "zero" and R.prove_equal(ny.n, y) == "zero" and inf is False,
                "compress_G1 reads only normalize(P): any scaling (lam*x, lam*y, lam) gives the affine (x, y)", lits_summary(R), rp)

    def run_inf(ctx):
        x = SymZ.var("x", 0, q - 1)
        y = SymZ.var("y", 0, q - 1)
        z = pc.compress_G1((FQ(x), FQ(y), FQ(0)))
        back = pc.decompress_G1(z)
        return z, back

    def on_inf(pth):
        rep.paths += 1
        if pth.kind != "ret":
            rep.fail("infinity round trip raised %r" % (pth.value,), rp)
            return
        z, back = pth.value
        require(rep, z == (1 << 383) + (1 << 382) and int(back[2].n) == 0, "every representative (x, y, 0) of infinity compresses to 0b110||0 and decodes to infinity",
                pth.decisions, rp)
    core.explore(run_inf, ctx_kwargs=dict(mul="uf"), on_path=on_inf)


# ---------------------------------------------------------------------------
# G2

def _sqrt2_stub(q, FQ2):
    """contract used for the DECODE direction: modular_squareroot_in_FQ2(v) returns None or some element y of
    F_q^2 with canonical coefficients -- nothing is assumed about y (decompress_G2 re-checks the curve equation
    itself).  The root-finding contract proper is obligation modular_squareroot_in_FQ2_contract."""
    def stub(value):
        ctx = core.cur()
        found = z3.Bool(ctx.fresh_name("found"))
        if SymBool(found):
            y0 = SymZ.var(ctx.fresh_name("yre"), 0, q - 1)
            y1 = SymZ.var(ctx.fresh_name("yim"), 0, q - 1)
            ctx.notes.append(("sqrt2", y0.t, y1.t))
            # lemma instance: E'(F_q^2) has odd order (h2 and r odd -- ground check), so no point has y == 0
            ctx.add_fact(z3.Or(y0.t != 0, y1.t != 0))
            # lemma instances (ring): (-a)*(-b) == a*b (mod q) for the coefficients of -y
            n0, n1 = (y0 * -1) % q, (y1 * -1) % q
            for (u, v, uu, vv) in ((y0, y0, n0, n0), (y0, y1, n0, n1), (y1, y0, n1, n0), (y1, y1, n1, n1)):
                ctx.add_fact(((uu * vv) % q).t == ((u * v) % q).t)
            return FQ2([y0, y1])
        return None
    return stub


@obligation("C11", "decompress_G2_all_words", bound="every pair (z1, z2) in [0, 2^384)^2; QF_UFLIA; square root in F_q^2 replaced by 'None or an arbitrary element' (the decoder re-checks the curve equation)",
            timeout=900)
def decompress_g2_all_words(rep, tier):
    pc = mod(PC)
    o = mod(OPT)
    q = _q()
    FQ2 = o.FQ2
    rep.encoded(pc.decompress_G2, pc.compress_G2, pc.get_flags, pc.is_point_at_infinity, o.is_on_curve, o.normalize)
    rep.stub("modular_squareroot_in_FQ2(v) -> None | arbitrary canonical non-zero element (decode direction only)")
    from py_ecc.bls.constants import G2_COFACTOR
    require(rep, G2_COFACTOR % 2 == 1 and o.curve_order % 2 == 1, "ground: #E'(F_q^2) = h2 * r is odd (no 2-torsion, so y != 0 on the twist)", None,
            {"kind": "c11_g2", "args": {}})
    rep.trust("#E'(F_q^2) = G2_COFACTOR * r (point counting)")
    rp = {"kind": "c11_g2", "args": {}}
    seen = {"inf": 0, "pt": 0, "raise": 0}

    def run(ctx):
        z1 = SymZ.var("z1", 0, (1 << 384) - 1)
        z2 = SymZ.var("z2", 0, (1 << 384) - 1)
        with world.patched(pc, modular_squareroot_in_FQ2=_sqrt2_stub(q, FQ2)):
            try:
                pt = pc.decompress_G2((z1, z2))
            except ValueError as e:
                return z1, z2, ("ValueError", str(e)[:70])
        return z1, z2, ("ok", pt)

    def on_path(pth):
        rep.paths += 1
        rpm = lambda m: {"kind": "c11_g2", "args": {"model": _model_z(m) if m else {}}}
        if pth.kind != "ret":
            r, m = pth.ctx.satisfiable()
            rep.fail("decompress_G2 raised %r (only ValueError is allowed)" % (pth.value,), rpm(m))
            return
        z1, z2, (kind, val) = pth.value
        c, b, a, x1 = _flags_of(z1)
        is_inf_word = z3.And((z1.t % (1 << 381)) == 0, z2.t == 0)
        wellformed = z3.And(c == 1, b == z3.If(is_inf_word, 1, 0), z3.Implies(is_inf_word, a == 0),
                            z3.Implies(z3.Not(is_inf_word), z3.And(x1 < q, z2.t < q)))
        if kind == "ValueError":
            seen["raise"] += 1
            if any(n[0] == "sqrt2" for n in pth.ctx.notes) or "squareroot" in val:
                # refused after the root search: either no root was found or the candidate fails the curve equation
                rep.ok("decompress_G2 refuses when no y on the curve is found (%s)" % val, path=pth.decisions, nontrivial=False)
                return
            r, m = pth.ctx.prove(z3.Not(wellformed))
            require(rep, r, "decompress_G2 raises before the root search only for malformed words (%s)" % val, pth.decisions, rpm(m))
            return
        pt = val
        X, Y, Z = pt
        zc = [SymZ.lift(c_) for c_ in Z.coeffs]
        inf = pth.ctx.prove(z3.And(zc[0].t == 0, zc[1].t == 0))[0] == "unsat"
        if inf:
            seen["inf"] += 1
            r, m = pth.ctx.prove(z3.And(c == 1, b == 1, a == 0, x1 == 0, z2.t == 0))
            require(rep, r, "accepted G2 infinity word is exactly (0b110||0, 0)", pth.decisions, rpm(m))
        else:
            seen["pt"] += 1
            xre, xim = (SymZ.lift(c_) for c_ in X.coeffs)
            yre, yim = (SymZ.lift(c_) for c_ in Y.coeffs)
            goals = [("flags c=1, b=0; no flag bit in z2; x1, z2 < q", z3.And(c == 1, b == 0, x1 < q, z2.t < q)),
                     ("x = (z2, z1 mod 2^381)", z3.And(xre.t == z2.t, xim.t == x1)),
                     ("z = 1", z3.And(zc[0].t == 1, zc[1].t == 0)),
                     ("y canonical", z3.And(yre.t >= 0, yre.t < q, yim.t >= 0, yim.t < q)),
                     ("sign flag = larger y (imaginary part, real part when it is 0)",
                      a == z3.If(yim.t > 0, (2 * yim.t) / q, (2 * yre.t) / q))]
            for w, g in goals:
                r, m = pth.ctx.prove(g)
                if r == "sat":
                    rep.note("model %s: a=%s yre=%s yim=%s" % (w[:20], m.eval(a), m.eval(yre.t), m.eval(yim.t)))
                require(rep, r, "decompress_G2 accepted pair: " + w, pth.decisions, rpm(m))
            # the curve equation was checked by the decoder on exactly the returned coordinates
            try:
                oc = o.is_on_curve(pt, o.b2)
                oc = bool(oc)
            except Exception as e:
                oc = False
            require(rep, oc is True and not pth.ctx.taken[len(pth.decisions):], "decompress_G2 accepted pair: returned point passed the decoder's own curve-equation check (re-evaluation is implied by the path condition)",
                    pth.decisions, rpm(None))
        try:
            w1, w2 = pc.compress_G2(pt)
        except Exception as e:
            r, m = pth.ctx.satisfiable(timeout_ms=120000)
            rep.note("compress raised on a path whose feasibility is %s (feas_unknown=%s)" % (r, pth.ctx.feas_unknown))
            if r == "sat":
                rep.fail("compress_G2(decompress_G2(z)) raised %r" % (e,), rpm(m))
            elif r == "unknown":
                rep.unknown("compress_G2(decompress_G2(z)) raised %r on a path of undecided feasibility" % (e,))
            return
        r, m = pth.ctx.prove(z3.And(SymZ.lift(w1).t == z1.t, SymZ.lift(w2).t == z2.t))
        require(rep, r, "compress_G2(decompress_G2(z1, z2)) == (z1, z2) on this accepting path", pth.decisions, rpm(m))
    core.explore(run, ctx_kwargs=dict(mul="uf", max_decisions=200), on_path=on_path, max_paths=3000)
    for k, v in seen.items():
        require(rep, v > 0, "reachability: at least one %s path" % k, None, rp)


@obligation("C11", "modular_squareroot_in_FQ2_contract", bound="every square value Y^2 of F_q^2 (Y symbolic, both coefficients), each of the 8 possible outcomes of the 758-bit exponentiation (candidate = +-Y * w^(j/2), j in {0,2,4,6}); orderings of representatives explored as free forks")
def msqrt_contract(rep, tier):
    """modular_squareroot_in_FQ2(Y^2) returns Y or -Y (never None, never anything else)."""
    pc = mod(PC)
    o = mod(OPT)
    fe = mod("py_ecc.fields.optimized_field_elements")
    cst = mod("py_ecc.bls.constants")
    q = _q()
    FQ2 = o.FQ2
    rep.encoded(pc.modular_squareroot_in_FQ2)
    rep.stub("value ** ((q^2+7)//16) -> one of +-Y*w^(j/2) (w the primitive 8th root of unity used by the module): for a square value Y^2 the "
             "exponentiation yields c with c^2 = Y^2 * w^j, j even  [Fermat/Euler in F_q^2; trusted]")
    rp = {"kind": "c11_g2", "args": {}}
    big = (cst.FQ2_ORDER + 8) // 16
    roots = cst.EIGHTH_ROOTS_OF_UNITY
    # ground: the table is the powers of one primitive 8th root
    w = roots[1]
    require(rep, all(roots[k] == w ** k for k in range(8)) and w ** 8 == FQ2.one() and w ** 4 != FQ2.one(),
            "ground: EIGHTH_ROOTS_OF_UNITY[k] = w^k for a primitive 8th root w", None, rp)
    real_pow = fe.FQP.__pow__
    for j in (0, 2, 4, 6):
        for sgn in (1, -1):
            def fn(R, j=j, sgn=sgn):
                R.order_fork = True
                Y = FQ2([R.atom("y0"), R.atom("y1")])
                value = Y * Y

                def pow_stub(self, e):
                    if e == big:
                        return Y * roots[j // 2] * sgn
                    return real_pow(self, e)
                fe.FQP.__pow__ = pow_stub
                try:
                    with world.patched(fe, prime_field_inv=inv_stub_ring):
                        r = pc.modular_squareroot_in_FQ2(value)
                finally:
                    fe.FQP.__pow__ = real_pow
                return Y, r
            for pth, R in ring.run_paths(fn, lambda: Ring(q, policy=lambda live: "generic")):
                rep.paths += 1
                path = lits_summary(R) + [str(R.order_lits)]
                if pth.kind != "ret":
                    rep.fail("modular_squareroot_in_FQ2 raised %r (j=%d, sign %d)" % (pth.value, j, sgn), rp, detail=str(path)[:300])
                    continue
                Y, r = pth.value
                if r is None:
                    rep.fail("modular_squareroot_in_FQ2(Y^2) returned None (candidate = %d*Y*w^%d)" % (sgn, j // 2), rp)
                    continue
                c0, c1 = r.coeffs
                y0, y1 = Y.coeffs
                plus = R.prove_equal(c0, y0) == "zero" and R.prove_equal(c1, y1) == "zero"
                minus = R.prove_equal(c0, -y0) == "zero" and R.prove_equal(c1, -y1) == "zero"
                require(rep, plus or minus, "modular_squareroot_in_FQ2(Y^2) is Y or -Y (candidate %d*Y*w^%d)" % (sgn, j // 2), path, rp)
    rep.bound("the claim excludes the zero set of the branch polynomials met in the FQ2 inversion of Y^2 (generic path: Y^2 != 0 and its leading coefficient)")


@obligation("C11", "compress_decompress_G2_all_points", bound="every affine point of E'(F_q^2) (x, y coefficients in [0,q), curve equation as hypothesis), QF_UFLIA; modular_squareroot_in_FQ2 replaced by its contract (returns y or -y)",
            timeout=900)
def roundtrip_g2(rep, tier):
    pc = mod(PC)
    o = mod(OPT)
    q = _q()
    FQ2 = o.FQ2
    rep.encoded(pc.decompress_G2, pc.compress_G2)
    rep.stub("modular_squareroot_in_FQ2(x^3 + b2) -> y or -y for the on-curve y (contract: obligation modular_squareroot_in_FQ2_contract)")
    rp = {"kind": "c11_g2", "args": {}}
    seen = {"ok": 0}
    require(rep, (o.b2 ** ((q * q - 1) // 2)) != FQ2.one(), "ground: b2 = 4 + 4i is a non-square in F_q^2 (no twist point has x = 0)", None, rp)

    def run(ctx):
        xs = [SymZ.var(n, 0, q - 1) for n in ("xre", "xim")]
        ys = [SymZ.var(n, 0, q - 1) for n in ("yre", "yim")]
        x, y = FQ2(xs), FQ2(ys)
        pt = (x, y, FQ2([1, 0]))
        ctx.add_fact(z3.Or(ys[0].t != 0, ys[1].t != 0))      # no 2-torsion (ground: odd group order)
        ctx.add_fact(z3.Or(xs[0].t != 0, xs[1].t != 0))      # no point with x = 0: b2 = 4+4i is a non-square (ground check below)
        n0, n1 = (ys[0] * -1) % q, (ys[1] * -1) % q
        for (u, v, uu, vv) in ((ys[0], ys[0], n0, n0), (ys[0], ys[1], n0, n1), (ys[1], ys[0], n1, n0), (ys[1], ys[1], n1, n1)):
            ctx.add_fact(((uu * vv) % q).t == ((u * v) % q).t)
        for yi, ni in ((ys[0], n0), (ys[1], n1)):              # -(-y) = y (pure arithmetic; stated to help theory combination)
            ctx.add_fact((((ni * -1) % q).t) == yi.t)
        if not o.is_on_curve(pt, o.b2):                        # hypothesis: the point is on the curve
            return None

        def stub(value):
            pick = z3.Bool(ctx.fresh_name("root_sign"))
            if SymBool(pick):
                return FQ2([ys[0], ys[1]])
            return FQ2([n0, n1])
        z1, z2 = pc.compress_G2(pt)
        with world.patched(pc, modular_squareroot_in_FQ2=stub):
            try:
                back = pc.decompress_G2((z1, z2))
            except ValueError as e:
                return xs, ys, (z1, z2), ("ValueError", str(e))
        return xs, ys, (z1, z2), ("ok", back)

    def on_path(pth):
        rep.paths += 1
        if pth.kind != "ret":
            rep.fail("G2 round trip raised %r" % (pth.value,), rp)
            return
        if pth.value is None:
            return
        xs, ys, (z1, z2), (kind, val) = pth.value
        if kind == "ValueError":
            r, m = pth.ctx.satisfiable(timeout_ms=60000)
            if r == "sat":
                rep.fail("decompress_G2(compress_G2(P)) raises ValueError (%s) for a curve point P" % val[:60], rp,
                         detail="x=(%s,%s) y=(%s,%s) decisions=%s feas_unknown=%s" % (tuple(m.eval(v.t, model_completion=True) for v in xs + ys) + (pth.decisions, pth.ctx.feas_unknown)))
            elif r == "unknown":
                rep.unknown("feasibility of a raising G2 round-trip path undecided (%s)" % val[:40])
            return
        seen["ok"] += 1
        X, Y, Z = val
        g = z3.And(*[SymZ.lift(a).t == b.t for a, b in zip(list(X.coeffs) + list(Y.coeffs), xs + ys)])
        r, m = pth.ctx.prove(g, timeout_ms=60000)
        require(rep, r, "decompress_G2(compress_G2(P)) == P", pth.decisions, rp)
        zc = [int(c) for c in Z.coeffs]
        require(rep, zc == [1, 0], "decoded point has z = 1", pth.decisions, rp)
        r, m = pth.ctx.prove(z3.And(SymZ.lift(z1).t >= (1 << 383), SymZ.lift(z1).t < (1 << 384), SymZ.lift(z2).t >= 0, SymZ.lift(z2).t < q))
        require(rep, r, "compress_G2 output words: z1 in [2^383, 2^384), z2 < q (96 bytes, no flag bit in z2)", pth.decisions, rp)
    core.explore(run, ctx_kwargs=dict(mul="uf", max_decisions=200), on_path=on_path, max_paths=3000)
    require(rep, seen["ok"] > 0, "reachability: a G2 round-trip path returns", None, rp)

    # infinity in any representation
    def run_inf(ctx):
        cs = [SymZ.var(n, 0, q - 1) for n in ("a", "b", "c", "d")]
        pt = (FQ2(cs[:2]), FQ2(cs[2:]), FQ2([0, 0]))
        w = pc.compress_G2(pt)
        return w, pc.decompress_G2(w)

    def on_inf(pth):
        rep.paths += 1
        if pth.kind != "ret":
            rep.fail("G2 infinity round trip raised %r" % (pth.value,), rp)
            return
        w, back = pth.value
        require(rep, tuple(w) == ((1 << 383) + (1 << 382), 0) and [int(c) for c in back[2].coeffs] == [0, 0],
                "every representative (x, y, 0) of G2 infinity compresses to (0b110||0, 0) and decodes to infinity", pth.decisions, rp)
    core.explore(run_inf, ctx_kwargs=dict(mul="uf"), on_path=on_inf)


@obligation("C11", "byte_helpers", bound="every compressed word in range (symbolic), 48/96-byte strings with symbolic content; octet-string conversion as the uninterpreted codec I2OSP_48/OS2IP with its per-call axioms")
def byte_helpers(rep, tier):
    g2p = mod("py_ecc.bls.g2_primitives")
    h = mod("py_ecc.bls.hash")
    from symx import sbytes
    rep.encoded(g2p.G1_to_pubkey, g2p.pubkey_to_G1, g2p.G2_to_signature, g2p.signature_to_G2, h.i2osp, h.os2ip)
    rp = {"kind": "c11_bytes", "args": {}}
    rep.stub("int.to_bytes(48)/int.from_bytes on symbolic values -> uninterpreted I2OSP_48 / OS2IP with |I2OSP_48(x)| = 48, OS2IP(I2OSP_48(x)) = x, "
             "0 <= OS2IP(b) < 256^|b|, I2OSP_48(OS2IP(b)) = b for |b| = 48 (RFC 8017 4.1/4.2)")

    def run(ctx):
        z = SymZ.var("z", 1 << 383, (1 << 384) - 1)
        w1 = SymZ.var("w1", 1 << 383, (1 << 384) - 1)
        w2 = SymZ.var("w2", 0, (1 << 381) - 1)
        seen = {}

        def dec1(zz):
            seen["g1"] = zz
            return "P1"

        def dec2(p):
            seen["g2"] = p
            return "P2"
        with world.patched(g2p, compress_G1=lambda pt: z, compress_G2=lambda pt: (w1, w2), decompress_G1=dec1, decompress_G2=dec2):
            pk = g2p.G1_to_pubkey("pt")
            sig = g2p.G2_to_signature("pt")
            r1 = g2p.pubkey_to_G1(pk)
            r2 = g2p.signature_to_G2(sig)
        return z, w1, w2, pk, sig, seen, r1, r2

    def on_path(pth):
        rep.paths += 1
        if pth.kind != "ret":
            rep.fail("byte helpers raised %r" % (pth.value,), rp)
            return
        z, w1, w2, pk, sig, seen, r1, r2 = pth.value
        r, m = pth.ctx.prove(z3.Length(pk.t) == 48)
        require(rep, r, "G1_to_pubkey returns 48 bytes", pth.decisions, rp)
        r, m = pth.ctx.prove(z3.Length(sig.t) == 96)
        require(rep, r, "G2_to_signature returns 96 bytes", pth.decisions, rp)
        if "g1" not in seen or "g2" not in seen:
            rep.fail("pubkey_to_G1 / signature_to_G2 returned without calling the word decoder", {"kind": "c11_bytes_decode", "args": {"which": "pubkey_to_G1"}})
            return
        r, m = pth.ctx.prove(SymZ.lift(seen["g1"]).t == z.t)
        require(rep, r, "pubkey_to_G1(G1_to_pubkey(P)) hands decompress_G1 the compressed word", pth.decisions, rp)
        a, b = seen["g2"]
        r, m = pth.ctx.prove(z3.And(SymZ.lift(a).t == w1.t, SymZ.lift(b).t == w2.t), timeout_ms=60000)
        require(rep, r, "signature_to_G2(G2_to_signature(P)) hands decompress_G2 the two words (first 48 bytes, last 48 bytes)", pth.decisions, rp)
        require(rep, r1 == "P1" and r2 == "P2", "helpers return the decoder's result unchanged", pth.decisions, rp)
    core.explore(run, on_path=on_path)

    # concrete boundary validation of the codec model against the real int methods (translator validation)
    ok = True
    for x in (0, 1, 255, 256, (1 << 383), (1 << 384) - 1, _q()):
        b = h.i2osp(x, 48)
        ok &= (len(b) == 48 and h.os2ip(b) == x and b == x.to_bytes(48, "big"))
    require(rep, ok, "ground: real i2osp/os2ip satisfy the codec axioms on boundary values", None, rp)



@obligation("C11", "byte_decoders_are_the_word_decoders", bound="EVERY 48-byte string (pubkey_to_G1) and EVERY 96-byte string (signature_to_G2), content symbolic: the helpers hand exactly OS2IP(bytes) / (OS2IP(first 48), OS2IP(last 48)) to decompress_G1 / decompress_G2 and return its result (or propagate its ValueError)")
def byte_decoders(rep, tier):
    g2p = mod("py_ecc.bls.g2_primitives")
    from symx import sbytes
    from symx.sbytes import SymBytes, SEQ
    rep.encoded(g2p.pubkey_to_G1, g2p.signature_to_G2)
    OS2IP = sbytes._uf("OS2IP", SEQ, z3.IntSort())

    class Refuse(ValueError):
        pass

    for which, n in (("pubkey_to_G1", 48), ("signature_to_G2", 96)):
        rp = {"kind": "c11_bytes_decode", "args": {"which": which}}
        for refuse in (False, True):
            rec = []

            def dec(arg, refuse=refuse):
                rec.append(arg)
                if refuse:
                    raise Refuse("decoder refuses")
                return "POINT"

            def run(ctx, which=which, n=n):
                del rec[:]
                b = SymBytes.var("b", length=n)
                with world.patched(g2p, decompress_G1=dec, decompress_G2=dec):
                    try:
                        r = getattr(g2p, which)(b)
                    except Refuse:
                        return b, "refused", list(rec)
                return b, r, list(rec)

            def on_path(pth, which=which, n=n, refuse=refuse):
                rep.paths += 1
                if pth.kind != "ret":
                    rep.fail("%s raised %r on a %d-byte string" % (which, pth.value, n), rp)
                    return
                b, r, calls = pth.value
                g_, m_ = pth.ctx.satisfiable()
                mb = bytes(m_.eval(b.t[z3.IntVal(i)], model_completion=True).as_long() for i in range(n)).hex() if m_ is not None else ""
                rpm = {"kind": "c11_bytes_decode", "args": {"which": which, "bytes": mb}}
                if len(calls) != 1:
                    rep.fail("%s does not call the word decoder exactly once on this path (returns %r)" % (which, r), rpm)
                    return
                if which == "pubkey_to_G1":
                    g, m = pth.ctx.prove(SymZ.lift(calls[0]).t == OS2IP(b.t), timeout_ms=120000)
                else:
                    z1, z2 = calls[0]
                    g, m = pth.ctx.prove(z3.And(SymZ.lift(z1).t == OS2IP(z3.SubSeq(b.t, 0, 48)), SymZ.lift(z2).t == OS2IP(z3.SubSeq(b.t, 48, 48))), timeout_ms=120000)
                require(rep, g, "%s decodes exactly the big-endian integer(s) of the string" % which, pth.decisions, rpm)
                require(rep, r == ("refused" if refuse else "POINT"), "%s returns the word decoder's result / propagates its ValueError" % which, pth.decisions, rpm)
            core.explore(run, on_path=on_path, ctx_kwargs=dict(branch_timeout_ms=60000))
