"""C15 -- expand_message_xmd and hash_to_field match RFC 9380 for all parameters.

The hash is an uninterpreted function H_name: Seq(BitVec 8) -> Seq(BitVec 8) with the digest / block size of
the real hashlib constructor; the RFC 9380 section 5.3.1 pseudo-code is transcribed below over the same H.
The real expand_message_xmd runs on a symbolic message, a tag of SYMBOLIC length 0..300 and a SYMBOLIC
requested length 0..70000; its loop is unrolled up to the tier's bound with an unwinding assertion.
"""
import z3
from symx import core, world
world.install()
from symx.core import SymZ, SymBool
from symx import sbytes
from symx.sbytes import SymBytes, SEQ, BV8
from symx.harness import obligation
from .common import mod, require, control

HASHES = ("sha256", "sha512", "sha384", "sha3_256", "blake2b")


def hf(name):
    return getattr(world.MODULE_SHIMS["hashlib"], name)


def seq_of_int(t, nbytes):
    """I2OSP(t, nbytes) as a z3 sequence term (t: z3 Int term)."""
    bv = z3.Int2BV(t, 8 * nbytes)
    us = [z3.Unit(z3.Extract(8 * (nbytes - i) - 1, 8 * (nbytes - i - 1), bv)) for i in range(nbytes)]
    return us[0] if len(us) == 1 else z3.Concat(*us)


def cat(*parts):
    parts = [p for p in parts]
    return parts[0] if len(parts) == 1 else z3.Concat(*parts)


def lit(b):
    return sbytes._seq_of(b)


def strxor(a, b, n):
    us = [z3.Unit(a[z3.IntVal(i)] ^ b[z3.IntVal(i)]) for i in range(n)]
    return us[0] if len(us) == 1 else z3.Concat(*us)


def rfc_xmd_calls(name, msg, dst, n_t, ell):
    """RFC 9380 5.3.1 for a concrete ell: list of the ell+1 hash inputs and the uniform_bytes term."""
    b_in, r_in = sbytes._sizes(name)
    H = sbytes._uf("H_" + name, SEQ, SEQ)
    dst_prime = cat(dst, seq_of_int(z3.Length(dst), 1))
    z_pad = lit(b"\x00" * r_in)
    l_i_b = seq_of_int(n_t, 2)
    msg_prime = cat(z_pad, msg, l_i_b, lit(b"\x00"), dst_prime)
    inputs = [msg_prime]
    b0 = H(msg_prime)
    bs = []
    if ell >= 1:
        i1 = cat(b0, lit(b"\x01"), dst_prime)
        inputs.append(i1)
        bs.append(H(i1))
    for i in range(2, ell + 1):
        ii = cat(strxor(b0, bs[-1], b_in), lit(bytes([i])), dst_prime)
        inputs.append(ii)
        bs.append(H(ii))
    uniform = cat(*bs) if bs else z3.Empty(SEQ)
    return inputs, uniform


def _check_xmd(rep, name, max_ell, msg_max):
    h = mod("py_ecc.bls.hash")
    rep.encoded(h.expand_message_xmd, h.xor, h.i2osp)
    b_in, r_in = sbytes._sizes(name)
    rp = {"kind": "c15_xmd", "args": {"hash": name}}
    seen = {"raise": 0, "ret": {}, "unwind": 0}

    def run(ctx):
        ctx.hash_uf = True
        ctx.unwind = max(max_ell - 1, 0)
        msg = SymBytes.var("msg", 0, msg_max)
        dst = SymBytes.var("dst", 0, 300)
        n = SymZ.var("n", 0, 70000)
        try:
            out = h.expand_message_xmd(msg, dst, n, hf(name))
        except ValueError as e:
            return msg, dst, n, ("ValueError", str(e))
        return msg, dst, n, ("ok", out)

    def guard(dst, n):
        # RFC: abort if ell > 255 or len_in_bytes > 65535 or len(DST) > 255   (ell = ceil(n / b))
        ell = z3.If(n.t % b_in == 0, n.t / b_in, n.t / b_in + 1)
        return z3.Or(z3.Length(dst.t) > 255, ell > 255), ell

    def on_path(pth):
        rep.paths += 1
        if pth.kind == "unwind":
            # the loop was cut, but b_0 and b_1 were already computed: their inputs are checked for EVERY requested length
            # (this is where len_in_bytes >= 256 and long tags meet the I2OSP(len_in_bytes, 2) / I2OSP(|DST|, 1) encodings)
            seen["unwind"] += 1
            calls = [c for c in pth.ctx.notes if c[0] == "hash"]
            msg_t, dst_t, n_t = z3.Const("msg", SEQ), z3.Const("dst", SEQ), z3.Int("n")
            inputs, _ = rfc_xmd_calls(name, msg_t, dst_t, n_t, min(len(calls) - 1, max_ell + 1))
            for i, (c, want) in enumerate(list(zip(calls, inputs))[:3]):
                g, m = pth.ctx.prove(c[2] == want, timeout_ms=120000)
                a = {"hash": name}
                if m is not None:
                    a.update(n=str(m.eval(n_t, model_completion=True)), dst_len=str(m.eval(z3.Length(dst_t), model_completion=True)))
                require(rep, g, "%s (any larger length, loop cut): input of hash call %d equals the RFC transcription" % (name, i), pth.decisions, {"kind": "c15_xmd", "args": a})
            return
        if pth.kind != "ret":
            g, m = pth.ctx.satisfiable()
            args = {"hash": name}
            if m is not None:
                args.update(n=str(m.eval(z3.Int("n"), model_completion=True)), dst_len=str(m.eval(z3.Length(z3.Const("dst", SEQ)), model_completion=True)))
            rep.fail("expand_message_xmd(%s) raised %r (only ValueError allowed)" % (name, pth.value), {"kind": "c15_xmd", "args": args})
            return
        msg, dst, n, (kind, val) = pth.value
        bad, ell = guard(dst, n)

        def mdl_args(m):
            a = {"hash": name}
            if m is not None:
                a.update(n=str(m.eval(n.t, model_completion=True)), dst_len=str(m.eval(z3.Length(dst.t), model_completion=True)))
            return {"kind": "c15_xmd", "args": a}
        if kind == "ValueError":
            seen["raise"] += 1
            g, m = pth.ctx.prove(bad, timeout_ms=60000)
            require(rep, g, "expand_message_xmd(%s) raises only for |DST| > 255 or ceil(len/b) > 255 (%s)" % (name, val[:30]), pth.decisions, mdl_args(m))
            return
        g, m = pth.ctx.prove(z3.Not(bad), timeout_ms=60000)
        require(rep, g, "expand_message_xmd(%s) returns bytes only when |DST| <= 255 and ceil(len/b) <= 255" % name, pth.decisions, mdl_args(m))
        # which ell is this path?
        calls = [c for c in pth.ctx.notes if c[0] == "hash"]
        k = len(calls) - 1
        seen["ret"][k] = seen["ret"].get(k, 0) + 1
        # (the implementation computes b_1 even when ell = 0; the output is then the empty prefix of it)
        g, m = pth.ctx.prove(z3.If(ell == 0, 1, ell) == k, timeout_ms=60000)
        require(rep, g, "%s: the number of block hashes is max(ell, 1), ell = ceil(len / %d) (= %d on this path)" % (name, b_in, k), pth.decisions, mdl_args(m))
        inputs, uniform = rfc_xmd_calls(name, msg.t, dst.t, n.t, k)
        for i, (c, want) in enumerate(zip(calls, inputs)):
            g, m = pth.ctx.prove(c[2] == want, timeout_ms=120000)
            require(rep, g, "%s ell=%d: input of hash call %d equals the RFC 9380 5.3.1 transcription" % (name, k, i), pth.decisions, mdl_args(m))
        out = SymBytes.lift(val)
        g, m = pth.ctx.prove(z3.Length(out.t) == n.t, timeout_ms=120000)
        require(rep, g, "%s ell=%d: output has exactly len_in_bytes bytes" % (name, k), pth.decisions, mdl_args(m))
        g, m = pth.ctx.prove(out.t == z3.SubSeq(uniform, 0, n.t), timeout_ms=180000)
        require(rep, g, "%s ell=%d: output = first len_in_bytes bytes of b_1 || ... || b_ell" % (name, k), pth.decisions, mdl_args(m))
    core.explore(run, on_path=on_path, ctx_kwargs=dict(branch_timeout_ms=60000), max_paths=200)
    require(rep, seen["raise"] >= 2, "%s: both refusal paths reachable" % name, None, rp)
    require(rep, set(seen["ret"]) >= set(range(1, max_ell + 1)), "%s: returning paths for ell = 0..%d explored (%s)" % (name, max_ell, sorted(seen["ret"])), None, rp)
    rep.bound("%s: loop unrolled for ell <= %d (unwinding assertion: %d longer path(s) cut); |msg| <= %d; |DST| 0..300 symbolic; len_in_bytes 0..70000 symbolic"
              % (name, max_ell, seen["unwind"], msg_max))


for _h in HASHES:
    def _mk(hn):
        def f(rep, tier):
            if tier == "quick":
                _check_xmd(rep, hn, 2 if hn == "sha256" else 1, 4)
            else:
                _check_xmd(rep, hn, 6 if hn == "sha256" else 3, 8)
        return f
    obligation("C15", "expand_message_xmd_%s" % _h, timeout=1500 if _h == "sha256" else 900, tier="quick" if _h in ("sha256", "sha512", "sha3_256") else "thorough",
               bound="message |msg| <= 4/8 (content only flows into H), tag of symbolic length 0..300, len_in_bytes symbolic 0..70000, ell <= 2 (quick, sha256; others 1) / <= 6 (thorough)")(_mk(_h))


@obligation("C15", "ceil_model_matches_float", bound="len_in_bytes 0..70000 x digest sizes {32, 48, 64}: exhaustive ground check that Python's float math.ceil(n / b) equals the exact -((-n) // b) used in the encoding")
def ceil_float(rep, tier):
    import math
    ok = all(math.ceil(n / b) == -((-n) // b) for b in (20, 28, 32, 48, 64) for n in range(0, 70001))
    require(rep, ok, "float ceil(n / b) is exact for every n <= 70000 (ground, 350k cases)", None, {"kind": "c15_xmd", "args": {"hash": "sha256"}})
    with core.Ctx() as ctx:
        n = SymZ.var("n", 0, 70000)
        q = world.MODULE_SHIMS["math"].ceil(n / 32)
        g, m = ctx.prove(z3.And(q.t * 32 >= n.t, (q.t - 1) * 32 < n.t))
        require(rep, g, "encoded ceil: 32*(q-1) < n <= 32*q", None, {"kind": "c15_xmd", "args": {"hash": "sha256"}})


@obligation("C15", "hash_to_field", bound="counts 1..4 (quick) / 1..8 (thorough); expand_message_xmd replaced by an uninterpreted function of (msg, DST, len); OS2IP uninterpreted")
def hash_to_field(rep, tier):
    h2c = mod("py_ecc.bls.hash_to_curve")
    o = mod("py_ecc.optimized_bls12_381")
    p = o.field_modulus
    rep.encoded(h2c.hash_to_field_FQ, h2c.hash_to_field_FQ2)
    rep.stub("expand_message_xmd(msg, DST, n, H) -> XMD(msg, DST, n) uninterpreted with |XMD| = n; os2ip -> recorded uninterpreted OS2IP")
    rp = {"kind": "c15_h2f", "args": {}}
    XMD = sbytes._uf("XMD", SEQ, SEQ, z3.IntSort(), SEQ)
    for count in range(1, (4 if tier == "quick" else 8) + 1):
        for which, m_ext in (("FQ", 1), ("FQ2", 2)):
            calls = []
            slices = []

            def xmd_stub(msg, DST, n, hash_function):
                calls.append((msg, DST, n, hash_function))
                t = XMD(SymBytes.lift(msg).t, SymBytes.lift(DST).t, SymZ.lift(n).t)
                core.cur().add_fact(z3.Length(t) == SymZ.lift(n).t)
                return SymBytes(t, n if isinstance(n, int) else SymZ.lift(n))

            def os2ip_rec(b):
                slices.append(b)
                return sbytes.bytes_to_int(b)

            def run(ctx, which=which):
                del calls[:]
                del slices[:]
                ctx.hash_uf = True
                msg = SymBytes.var("msg", 0, 8)
                dst = SymBytes.var("dst", 0, 255)
                fn = h2c.hash_to_field_FQ if which == "FQ" else h2c.hash_to_field_FQ2
                with world.patched(h2c, expand_message_xmd=xmd_stub, os2ip=os2ip_rec):
                    u = fn(msg, count, dst, hf("sha256"))
                return msg, dst, u, list(calls), list(slices)

            def on_path(pth, which=which, m_ext=m_ext, count=count):
                rep.paths += 1
                tag = "hash_to_field_%s(count=%d)" % (which, count)
                if pth.kind != "ret":
                    rep.fail("%s raised %r" % (tag, pth.value), rp)
                    return
                msg, dst, u, cl, sl = pth.value
                ok = len(cl) == 1 and cl[0][2] == count * m_ext * 64 and cl[0][0] is msg and cl[0][1] is dst
                require(rep, ok, "%s requests count*m*64 = %d bytes from expand_message_xmd(msg, DST) once" % (tag, count * m_ext * 64), pth.decisions, rp)
                require(rep, len(u) == count and len(sl) == count * m_ext, "%s returns count elements built from count*m slices" % tag, pth.decisions, rp)
                OS2IP = sbytes._uf("OS2IP", SEQ, z3.IntSort())
                good = True
                for i in range(count):
                    el = u[i]
                    coeffs = [el.n] if which == "FQ" else list(el.coeffs)
                    for j in range(m_ext):
                        s_ = sl[i * m_ext + j]
                        base, lo, n = s_.origin
                        off = 64 * (j + i * m_ext)
                        g1, _ = pth.ctx.prove(z3.And(lo.t == off, n.t == 64))
                        g2, _ = pth.ctx.prove(SymZ.lift(coeffs[j]).t == OS2IP(s_.t) % p, timeout_ms=60000)
                        good &= (g1 == "unsat" and g2 == "unsat")
                require(rep, good, "%s: element i, coordinate j = OS2IP(bytes[64(j+i*m) : +64]) mod p, big-endian" % tag, pth.decisions, rp)
            core.explore(run, on_path=on_path)
