"""Concrete replays: run the real py_ecc (no shims, /venv/bin/python) on a recorded
counterexample and compare with an oracle that is independent of the code under test.
Every function returns (reproduced: bool, message: str).  Only stdlib + py_ecc here."""
import importlib
import random


# ---------------------------------------------------------------------------
# independent plain-integer oracles

def _inv(a, p):
    a %= p
    return pow(a, p - 2, p) if a else 0


def aff_add(P, Q, p):
    """textbook affine chord-and-tangent law over F_p (a = 0); None = infinity."""
    if P is None:
        return Q
    if Q is None:
        return P
    x1, y1 = P
    x2, y2 = Q
    if (x1 - x2) % p == 0:
        if (y1 - y2) % p == 0 and y1 % p != 0:
            m = 3 * x1 * x1 * _inv(2 * y1, p) % p
        else:
            return None
    else:
        m = (y2 - y1) * _inv(x2 - x1, p) % p
    x3 = (m * m - x1 - x2) % p
    y3 = (m * (x1 - x3) - y1) % p
    return (x3, y3)


def aff_mul(P, n, p):
    R = None
    Q = P
    while n > 0:
        if n & 1:
            R = aff_add(R, Q, p)
        Q = aff_add(Q, Q, p)
        n >>= 1
    return R


def _proj_to_aff_int(pt, p):
    x, y, z = [int(c) % p for c in pt]
    if z == 0:
        return None
    zi = _inv(z, p)
    return (x * zi % p, y * zi % p)


_CURVE_MODS = {"bn128": "py_ecc.optimized_bn128", "bls12_381": "py_ecc.optimized_bls12_381"}


def _rand_pts(rng, p, n):
    return [tuple(rng.randrange(1, p) for _ in range(3)) for _ in range(n)]


def replay_c13_curve(args):
    """differential run of the real optimized curve function against the affine law, on
    inputs constructed for every case (generic, doubling through add with different
    scalings, inverse, identity operands in several representations)."""
    m = importlib.import_module(_CURVE_MODS[args["curve"]])
    FQ = m.FQ
    p = m.field_modulus
    rng = random.Random(1234)
    f = args["func"]
    bad = []

    def mk(t):
        return tuple(FQ(c) for c in t)

    def scale(t, lam):
        return tuple(c * lam % p for c in t)
    cases = []
    pt = args.get("point") or {}
    if pt:
        # the witness of the failing path: its substitutions are exact; equality literals that
        # could not be solved for an atom (equal / inverse points) are enforced by construction
        g = lambda n: int(pt.get(n, rng.randrange(1, p))) % p
        a = (g("x1"), g("y1"), g("z1"))
        b = (g("x2"), g("y2"), g("z2"))
        zl = " ".join(args.get("zero_lits") or [])
        cases.append((a, b))
        if args.get("scaled"):
            lam, mu = g("lam"), g("mu")
            if "lam" in zl and a[0] and "x1" in zl and "x2" not in zl:
                # literal lam*x1 - c == 0: solve for lam
                import re as _re
                m_ = _re.search(r"\(\* lam x1\) \(- (\d+)\)", zl)
                if m_:
                    lam = int(m_.group(1)) * _inv(a[0], p) % p
            cases.append((scale(a, lam), scale(b, mu)))
        if "x2" in zl and "x1" in zl:
            k = b[2] if b[2] else 1
            cases.append((a, scale(a, k * _inv(a[2], p) % p if a[2] else k)))
            cases.append((a, scale((a[0], -a[1] % p, a[2]), k * _inv(a[2], p) % p if a[2] else k)))
    for _ in range(6):
        a, b = _rand_pts(rng, p, 2)
        lam, mu = rng.randrange(1, p), rng.randrange(1, p)
        cases += [(a, b), (a, scale(a, lam)), (a, scale((a[0], -a[1] % p, a[2]), mu)),
                  ((a[0], a[1], 0), b), (a, (b[0], b[1], 0)), ((a[0], a[1], 0), (b[0], b[1], 0)),
                  ((1, 1, 0), b), (a, (1, 1, 0)), (scale(a, lam), scale(b, mu))]
    for a, b in cases:
        A, B = _proj_to_aff_int(a, p), _proj_to_aff_int(b, p)
        try:
            if f == "add":
                got = _proj_to_aff_int(m.add(mk(a), mk(b)), p)
                exp = aff_add(A, B, p)
            elif f == "double":
                got = _proj_to_aff_int(m.double(mk(a)), p)
                exp = aff_add(A, A, p)
            elif f == "neg":
                got = _proj_to_aff_int(m.neg(mk(a)), p)
                exp = None if A is None else (A[0], -A[1] % p)
            elif f == "eq":
                if A is None or B is None:
                    continue
                got = bool(m.eq(mk(a), mk(b)))
                exp = A == B
            elif f == "is_on_curve":
                bb = rng.randrange(p)
                got = bool(m.is_on_curve(mk(a), FQ(bb)))
                exp = True if A is None else (A[1] ** 2 - A[0] ** 3 - bb) % p == 0
                # also a point constructed to be on the curve
                if A is not None:
                    b2 = (A[1] ** 2 - A[0] ** 3) % p
                    if not m.is_on_curve(mk(a), FQ(b2)):
                        bad.append(("is_on_curve false on curve", a, b2))
            elif f == "normalize":
                if A is None:
                    continue
                n = m.normalize(mk(a))
                got = (int(n[0]), int(n[1]))
                exp = A
            elif f == "is_inf":
                got = bool(m.is_inf(mk(a)))
                exp = A is None
            else:
                return False, "unknown func %s" % f
        except Exception as e:
            bad.append(("exception %r" % (e,), a, b))
            continue
        if got != exp:
            bad.append((f, a, b, got, exp))
    return (len(bad) > 0), "c13_curve %s/%s: %d mismatches; first: %s" % (args["curve"], f, len(bad), str(bad[:1])[:400])


def replay_c13_linefunc(args):
    mod = importlib.import_module(_CURVE_MODS[args["curve"]] + ".optimized_pairing")
    m = importlib.import_module(_CURVE_MODS[args["curve"]])
    FQ = m.FQ
    p = m.field_modulus
    rng = random.Random(99)
    bad = []
    for _ in range(10):
        a, b, t = _rand_pts(rng, p, 3)
        lam = rng.randrange(1, p)
        for P1, P2 in ((a, b), (a, tuple(c * lam % p for c in a)), (a, (a[0] * lam % p, -a[1] * lam % p, a[2] * lam % p))):
            A, B, T = (_proj_to_aff_int(x, p) for x in (P1, P2, t))
            n, d = mod.linefunc(tuple(FQ(c) for c in P1), tuple(FQ(c) for c in P2), tuple(FQ(c) for c in t))
            if int(d) % p == 0:
                bad.append(("zero denominator", P1, P2))
                continue
            got = int(n) * _inv(int(d), p) % p
            if (A[0] - B[0]) % p:
                mm = (B[1] - A[1]) * _inv(B[0] - A[0], p) % p
                exp = (mm * (T[0] - A[0]) - (T[1] - A[1])) % p
            elif (A[1] - B[1]) % p == 0:
                mm = 3 * A[0] ** 2 * _inv(2 * A[1], p) % p
                exp = (mm * (T[0] - A[0]) - (T[1] - A[1])) % p
            else:
                exp = (T[0] - A[0]) % p
            if got != exp:
                bad.append((P1, P2, t, got, exp))
    return (len(bad) > 0), "c13_linefunc %s: %d mismatches; first: %s" % (args["curve"], len(bad), str(bad[:1])[:400])


def _jac_to_aff_int(pt, p):
    x, y, z = [int(c) % p for c in pt]
    if y == 0:
        return None
    zi = _inv(z, p)
    return (x * zi * zi % p, y * zi * zi * zi % p)


def replay_c13_jacobian(args):
    sp = importlib.import_module("py_ecc.secp256k1.secp256k1")
    p = sp.P
    rng = random.Random(7)
    f = args["func"]
    bad = []
    for _ in range(12):
        a, b = _rand_pts(rng, p, 2)
        lam = rng.randrange(1, p)
        a_s = (a[0] * lam * lam % p, a[1] * pow(lam, 3, p) % p, a[2] * lam % p)
        a_n = (a_s[0], -a_s[1] % p, a_s[2])
        for P1, P2 in ((a, b), (a, a_s), (a, a_n), ((0, 0, 1), b), (a, (0, 0, 1)), ((0, 0, 0), b), ((0, 0, 1), (0, 0, 0))):
            A, B = _jac_to_aff_int(P1, p), _jac_to_aff_int(P2, p)
            try:
                if f == "jacobian_add":
                    r = sp.jacobian_add(P1, P2)
                    got, exp = _jac_to_aff_int(r, p), aff_add(A, B, p)
                elif f == "jacobian_double":
                    r = sp.jacobian_double(P1)
                    got, exp = _jac_to_aff_int(r, p), aff_add(A, A, p)
                elif f == "from_jacobian":
                    r = (int(sp.from_jacobian(P1)[0]), int(sp.from_jacobian(P1)[1]))
                    got, exp = r, (A if A is not None else (0, 0))
                    if A is None and P1[0] != 0:
                        continue
                elif f == "to_jacobian":
                    if A is None:
                        continue
                    r = sp.to_jacobian(A)
                    got, exp = _jac_to_aff_int(r, p), A
                else:
                    return False, "unknown func"
                if f != "from_jacobian" and any(not (0 <= int(c) < p) for c in r):
                    bad.append(("unreduced", P1, P2, r))
            except Exception as e:
                bad.append(("exception %r" % (e,), P1, P2))
                continue
            if got != exp:
                bad.append((f, P1, P2, got, exp))
    return (len(bad) > 0), "c13_jacobian %s: %d mismatches; first: %s" % (f, len(bad), str(bad[:1])[:400])


def replay_import(args):
    """the module fails to import on the real tree (import-time self-check or error)."""
    name = args["module"]
    try:
        importlib.import_module(name)
    except Exception as e:
        return True, "import %s raises %s: %s" % (name, type(e).__name__, e)
    return False, "import %s succeeds" % name


def _fq_class(impl, curve, kind="FQ"):
    f = importlib.import_module("py_ecc.fields")
    return getattr(f, ("optimized_" if impl == "opt" else "") + curve + "_" + kind)


def replay_c08_fq(args):
    """differential run of every FQ operator against plain modular arithmetic on boundary and random operands."""
    FQ = _fq_class(args["impl"], args["curve"])
    p = FQ.field_modulus
    rng = random.Random(5)
    vals = [0, 1, 2, p - 1, p - 2, (p - 1) // 2, (p + 1) // 2] + [rng.randrange(p) for _ in range(6)]
    ints = [0, 1, -1, p, p + 1, -p, 2 * p + 3, -(3 * p) - 7, 2 ** 400] + [rng.randrange(-p * p, p * p) for _ in range(4)]
    bad = []

    def chk(name, got, exp, *ctx):
        ok = isinstance(got, FQ) and isinstance(got.n, int) and got.n == exp % p
        if not ok:
            bad.append((name, ctx, getattr(got, "n", got), exp % p))
    for a in vals:
        x = FQ(a)
        chk("neg", -x, -a, a)
        for e in (0, 1, 2, 3, 5, 8, 13):
            chk("pow", x ** e, pow(a, e, p), a, e)
        for b in vals:
            y = FQ(b)
            chk("add", x + y, a + b, a, b); chk("sub", x - y, a - b, a, b); chk("mul", x * y, a * b, a, b)
            chk("div", x / y, a * _inv(b, p), a, b)
            if (x == y) != (a == b) or (x != y) != (a != b) or (x < y) != (a < b):
                bad.append(("cmp", a, b))
        for b in ints:
            chk("add_int", x + b, a + b, a, b); chk("radd", b + x, a + b, a, b)
            chk("sub_int", x - b, a - b, a, b); chk("rsub", b - x, b - a, a, b)
            chk("mul_int", x * b, a * b, a, b); chk("rmul", b * x, a * b, a, b)
            chk("div_int", x / b, a * _inv(b, p), a, b); chk("rdiv", b / x, b * _inv(a, p), a, b)
            chk("init", FQ(b), b, b)
        if x.n != a:
            bad.append(("mutated", a))
    return (len(bad) > 0), "c08_fq %s/%s: %d mismatches; first: %s" % (args["impl"], args["curve"], len(bad), str(bad[:1])[:400])


def _rand_fqp(rng, K, deg, p):
    return K([rng.randrange(p) for _ in range(deg)])


def _model_mul(a, b, mc, p):
    d = len(a)
    c = [0] * (2 * d - 1)
    for i in range(d):
        for j in range(d):
            c[i + j] += a[i] * b[j]
    for k in range(2 * d - 2, d - 1, -1):
        top = c[k]
        for i in range(d):
            c[k - d + i] -= top * mc[i]
    return [x % p for x in c[:d]]


def _ints(x):
    return [int(c) for c in x.coeffs]


def replay_c08_fqp(args):
    K = _fq_class(args["impl"], args["curve"], "FQ%d" % args["deg"])
    p, deg = K.field_modulus, args["deg"]
    mc = list(K.FQ2_MODULUS_COEFFS if deg == 2 else K.FQ12_MODULUS_COEFFS)
    rng = random.Random(11)
    bad = []
    specials = [[0] * deg, [1] + [0] * (deg - 1), [p - 1] * deg, [0] * (deg - 1) + [1]]
    pts = args.get("point") or {}
    if pts:
        specials.append([int(pts.get("a%d" % i, 0)) % p for i in range(deg)])
        specials.append([int(pts.get("b%d" % i, 0)) % p for i in range(deg)])
    elems = specials + [[rng.randrange(p) for _ in range(deg)] for _ in range(4)]
    for a in elems:
        for b in elems:
            x, y = K(a), K(b)
            if _ints(x * y) != _model_mul(a, b, mc, p):
                bad.append(("mul", a, b))
            if _ints(x + y) != [(u + v) % p for u, v in zip(a, b)] or _ints(x - y) != [(u - v) % p for u, v in zip(a, b)]:
                bad.append(("addsub", a, b))
            if (x == y) != ([u % p for u in a] == [v % p for v in b]):
                bad.append(("eq", a, b))
        for k in (0, 1, -1, p, p + 5, -3 * p - 2, int(pts.get("k", 7))):
            if _ints(K(a) * k) != [u * k % p for u in a] or _ints(k * K(a)) != [u * k % p for u in a]:
                bad.append(("smul", a, k))
        if _ints(-K(a)) != [-u % p for u in a]:
            bad.append(("neg", a))
        if any(not (0 <= c < p) for c in _ints(K(a) * K(a))):
            bad.append(("range", a))
    return (len(bad) > 0), "c08_fqp %s: %d mismatches; first: %s" % (args, len(bad), str(bad[:1])[:300])


def replay_c08_fqp_adhoc(args):
    """ad-hoc FQP subclasses (degrees 2..4, random monic moduli) against the textbook product."""
    from py_ecc.fields import field_elements as refM, optimized_field_elements as optM
    from py_ecc.fields import bn128_FQ
    p = bn128_FQ.field_modulus
    rng = random.Random(3)
    bad = []
    for d in (2, 3, 4):
        for _ in range(4):
            mc = [rng.randrange(p) for _ in range(d)]

            class RefT(refM.FQP):
                field_modulus = p
                degree = d

                def __init__(self, coeffs, modulus_coeffs=None):
                    refM.FQP.__init__(self, coeffs, mc)

            class OptT(optM.FQP):
                field_modulus = p
                degree = d
                mc_tuples = list(enumerate(mc))

                def __init__(self, coeffs, modulus_coeffs=None):
                    optM.FQP.__init__(self, coeffs, mc)
            a = [rng.randrange(p) for _ in range(d)]
            b = [rng.randrange(p) for _ in range(d)]
            exp = _model_mul(a, b, mc, p)
            for T in (RefT, OptT):
                if _ints(T(a) * T(b)) != exp:
                    bad.append((T.__name__, d, a, b, mc))
    # FQ12 / FQ2 SUBCLASSES (their own __init__) with dense random moduli over small and large primes
    for q in (3, 7, p):
        for _ in range(3):
            mc12 = tuple(rng.randrange(q) for _ in range(12))
            mc2 = tuple(rng.randrange(q) for _ in range(2))
            for M in (refM, optM):
                class T12(M.FQ12):
                    field_modulus = q
                    FQ12_MODULUS_COEFFS = mc12

                class T2(M.FQ2):
                    field_modulus = q
                    FQ2_MODULUS_COEFFS = mc2
                a = [rng.randrange(q) for _ in range(12)]
                b = [rng.randrange(q) for _ in range(12)]
                if _ints(T12(a) * T12(b)) != _model_mul(a, b, list(mc12), q):
                    bad.append((M.__name__.split(".")[-1], "FQ12 subclass", q if q < 100 else "p"))
                if _ints(T2(a[:2]) * T2(b[:2])) != _model_mul(a[:2], b[:2], list(mc2), q):
                    bad.append((M.__name__.split(".")[-1], "FQ2 subclass", q if q < 100 else "p"))
    return (len(bad) > 0), "c08_fqp_adhoc: %d mismatches; first %s" % (len(bad), str(bad[:1])[:300])


def replay_c08_pow(args):
    """x ** n against the n-fold product (via builtin pow on the representative / repeated squaring
    in the harness), for the model exponent and a range of boundary exponents incl. very large ones."""
    impl, kind = args["impl"], args["kind"]
    bad = []
    ns = [0, 1, 2, 3, 4, 5, 7, 8, 15, 16, 31, 63, 64, 65, 255, 256, 1023, 2 ** 64 + 1]
    m = (args.get("model") or {}).get("n")
    if m is not None:
        ns.append(int(m))
    ns += [int(x) for x in args.get("extra_n", [])]
    for curve in ("bn128", "bls12_381"):
        K = _fq_class(impl, curve, kind)
        p = K.field_modulus
        for n in ns:
            try:
                if kind == "FQ":
                    got = (K(3) ** n).n
                    exp = pow(3, n, p)
                    for base in (0, 1, p - 1):
                        for nn in (n, n * (p - 1), (p - 1) * 2, p, p + 1):
                            if (K(base) ** nn).n != pow(base, nn, p):
                                bad.append((curve, "base", base, "exponent bits", nn.bit_length()))
                else:
                    deg = 12 if kind == "FQ12" else 2
                    x = K([3, 1] + [0] * (deg - 2))
                    got = _ints(x ** n)
                    # independent square-and-multiply over the textbook product
                    mc = list(K.FQ12_MODULUS_COEFFS if deg == 12 else K.FQ2_MODULUS_COEFFS)
                    acc, base, e = [1] + [0] * (deg - 1), [3, 1] + [0] * (deg - 2), n
                    while e:
                        if e & 1:
                            acc = _model_mul(acc, base, mc, p)
                        base = _model_mul(base, base, mc, p)
                        e >>= 1
                    exp = acc
                    if n in (0, 1, 2):
                        one_, zero_ = [1] + [0] * (deg - 1), [0] * deg
                        for bs in (zero_, one_, [p - 1] + [0] * (deg - 1), [0, 1] + [0] * (deg - 2)):
                            want = one_ if n == 0 else (bs if n == 1 else _model_mul(bs, bs, mc, p))
                            if _ints(K(list(bs)) ** n) != want:
                                bad.append((curve, "extension base", bs[:2], "exponent", n))
            except RecursionError:
                bad.append(("RecursionError", curve, n.bit_length()))
                continue
            except Exception as e:
                bad.append((repr(e), curve, n))
                continue
            if got != exp:
                bad.append((curve, n))
    return (len(bad) > 0), "c08_pow %s %s: %d failures; first: %s" % (impl, kind, len(bad), str(bad[:2])[:300])


def replay_c08_inv(args):
    """prime_field_inv / secp256k1.inv against pow(a, -1, n) on the model and on exhaustive small cases."""
    which = args["which"]
    if which == "prime_field_inv":
        from py_ecc.utils import prime_field_inv as f
    else:
        from py_ecc.secp256k1.secp256k1 import inv as f
    bad = []
    cases = []
    m = args.get("model") or {}
    if "a" in m and "n" in m:
        cases.append((int(m["a"]), int(m["n"])))
    for a_, n_ in args.get("candidates", []):
        cases.append((int(a_), int(n_)))
    for n in (2, 3, 5, 7, 11, 13, 17, 19, 23, 29, 31, 37, 41, 43, 101, 127):
        rng = range(-2 * n, 2 * n + 1) if which == "prime_field_inv" else range(0, n)
        cases += [(a, n) for a in rng]
    big = [21888242871839275222246405745257275088696311157297823662689037894645226208583,
           4002409555221667393417789825735904156556882819939007885332058136124031650490837864442687629129015664037894272559787,
           2 ** 256 - 2 ** 32 - 977, 115792089237316195423570985008687907852837564279074904382605163141518161494337]
    rng = random.Random(1)
    for n in big:
        cases += [(a, n) for a in (0, 1, 2, n - 1, n - 2, (n - 1) // 2, (n + 1) // 2)] + [(rng.randrange(n), n) for _ in range(8)]
        if which == "prime_field_inv":
            cases += [(n, n), (n + 1, n), (-1, n), (2 * n, n)]
    for a, n in cases:
        if which != "prime_field_inv" and not 0 <= a < n:
            continue          # secp256k1.inv is only ever called on reduced residues (its contract in C18); prime_field_inv reduces itself
        try:
            v = f(a, n)
        except Exception as e:
            bad.append((a, n, repr(e)))
            continue
        exp = 0 if a % n == 0 else pow(a, -1, n)
        if v != exp:
            bad.append((a, n, v, exp))
    return (len(bad) > 0), "c08_inv %s: %d mismatches; first %s" % (which, len(bad), str(bad[:2])[:300])


def replay_c08_fqp_inv(args):
    K = _fq_class(args["impl"], args["curve"], "FQ%d" % args["deg"])
    p, deg = K.field_modulus, args["deg"]
    rng = random.Random(21)
    S = args.get("support") or list(range(deg))
    pts = args.get("point") or {}
    bad = []
    elems = []
    if pts:
        elems.append([int(pts.get("a%d" % i, 0)) % p if i in S else 0 for i in range(deg)])
    for _ in range(5):
        elems.append([rng.randrange(p) if i in S else 0 for i in range(deg)])
    for mask in range(1, 2 ** min(len(S), 3)):
        e = [0] * deg
        for j, i in enumerate(S[:3]):
            if mask >> j & 1:
                e[i] = rng.randrange(1, p)
        elems.append(e)
    elems.append([0] * deg)
    one = [1] + [0] * (deg - 1)
    for a in elems:
        x = K(a)
        try:
            xi = x.inv()
            if any(a):
                if _ints(x * xi) != one:
                    bad.append(("x*inv(x)", a))
                y = K([rng.randrange(p) for _ in range(deg)])
                if _ints((y / x) * x) != _ints(y):
                    bad.append(("(y/x)*x", a))
            else:
                if _ints(xi) != [0] * deg:
                    bad.append(("inv(0)", a))
            if any(not (0 <= c < p) for c in _ints(xi)):
                bad.append(("range", a))
        except Exception as e:
            bad.append((repr(e), a))
    return (len(bad) > 0), "c08_fqp_inv %s: %d mismatches; first %s" % ({k: v for k, v in args.items() if k != "point"}, len(bad), str(bad[:1])[:300])


def replay_c08_small_fq(args):
    """exhaustive concrete run of the field axioms over GF(p), p <= 31, through the real class."""
    from py_ecc.fields import field_elements as refM, optimized_field_elements as optM
    Base = (refM if args["impl"] == "ref" else optM).FQ
    bad = []
    for p in (2, 3, 5, 7, 11, 13, 17, 19, 23, 29, 31):
        T = type("SmallFQ", (Base,), {"field_modulus": p})
        for a in range(p):
            x = T(a)
            for e in range(6):
                if (x ** e).n != pow(a, e, p):
                    bad.append(("pow", p, a, e))
            for b in range(p):
                y = T(b)
                try:
                    got = ((x + y).n, (x - y).n, (x * y).n, (x / y).n, (-x).n, (x + (b + p)).n, (x * (b - p)).n, (x / (b + p)).n)
                except Exception as e:
                    bad.append((repr(e), p, a, b))
                    continue
                bi = pow(b, -1, p) if b else 0
                exp = ((a + b) % p, (a - b) % p, a * b % p, a * bi % p, -a % p, (a + b) % p, a * b % p, a * bi % p)
                if got != exp:
                    bad.append((p, a, b, got, exp))
    return (len(bad) > 0), "c08_small_fq %s: %d mismatches; first %s" % (args["impl"], len(bad), str(bad[:1])[:200])


def replay_c08_small_ext(args):
    """concrete run of the real FQP subclass over GF(q^d): the solver's model plus an exhaustive sweep
    of the symbolic positions."""
    import itertools
    from py_ecc.fields import field_elements as refM, optimized_field_elements as optM
    q, f = args["q"], args["f"]
    d = len(f) - 1
    mc = tuple(f[:d])
    if args["impl"] == "ref":
        Base = refM.FQP

        class T(Base):
            field_modulus = q
            degree = d

            def __init__(self, coeffs, modulus_coeffs=None):
                Base.__init__(self, coeffs, mc)
    else:
        Base = optM.FQP

        class T(Base):
            field_modulus = q
            degree = d
            mc_tuples = [(i, c) for i, c in enumerate(mc) if c]

            def __init__(self, coeffs, modulus_coeffs=None):
                Base.__init__(self, coeffs, mc)
    fixed = args.get("fixed") or [[0] * d] * 3
    sym = args.get("sym") or list(range(d))
    bad = []
    one = [1] + [0] * (d - 1)
    elems = []
    m = args.get("model") or {}
    if m:
        elems.append([int(m.get("a%d" % i, fixed[0][i])) % q for i in range(d)])
    for vals in itertools.islice(itertools.product(range(q), repeat=len(sym)), 3000):
        e = list(fixed[0])
        for i, v in zip(sym, vals):
            e[i] = v
        elems.append(e)
    yb = [int(m.get("b%d" % i, fixed[1][i])) % q for i in range(d)]
    for a in elems:
        x = T(a)
        try:
            xi = x.inv()
            if any(a):
                if _ints(x * xi) != one:
                    bad.append(("x*inv(x)", a))
                if _ints((T(yb) / x) * x) != [v % q for v in yb]:
                    bad.append(("(y/x)*x", a))
            elif _ints(xi) != [0] * d:
                bad.append(("inv(0)", a))
            if _ints(x * x * x) != _ints(x ** 3) or _ints(x * T.one()) != [v % q for v in a]:
                bad.append(("ring", a))
        except Exception as e:
            bad.append((repr(e), a))
    return (len(bad) > 0), "c08_small_ext %s GF(%d^%d): %d mismatches; first %s" % (args["impl"], q, d, len(bad), str(bad[:1])[:200])


def _sgn0_rfc(xs):
    sign, zero = 0, 1
    for x in xs:
        sign_i = x % 2
        zero_i = 1 if x == 0 else 0
        sign = sign | (zero & sign_i)
        zero = zero & zero_i
    return sign


def replay_c14_sgn0(args):
    from py_ecc import fields as f
    bad = []
    rng = random.Random(8)
    m = args.get("model") or {}
    for curve in ("bn128", "bls12_381"):
        FQ = getattr(f, "optimized_%s_FQ" % curve)
        FQ2 = getattr(f, "optimized_%s_FQ2" % curve)
        FQ12 = getattr(f, "optimized_%s_FQ12" % curve)
        p = FQ.field_modulus
        vals = [0, 1, 2, p - 1, p - 2, (p - 1) // 2, (p + 1) // 2] + [rng.randrange(p) for _ in range(4)]
        if m:
            vals += [int(m.get("x%d" % i, 0)) % p for i in range(12)]
        for a in vals:
            if int(FQ(a).sgn0) != _sgn0_rfc([a]):
                bad.append(("FQ", curve, a))
            for b in vals:
                if int(FQ2([a, b]).sgn0) != _sgn0_rfc([a, b]):
                    bad.append(("FQ2", curve, a, b))
                if int(f.optimized_FQP.sgn0.func(FQ2([a, b]))) != _sgn0_rfc([a, b]):
                    bad.append(("FQP2", curve, a, b))
        for _ in range(30):
            xs = [rng.choice([0, 0, 0, 1, 2, p - 1, rng.randrange(p)]) for _ in range(12)]
            if int(FQ12(xs).sgn0) != _sgn0_rfc(xs):
                bad.append(("FQ12", curve, xs))
        if m:
            xs = [int(m.get("x%d" % i, 0)) % p for i in range(12)]
            if int(FQ12(xs).sgn0) != _sgn0_rfc(xs):
                bad.append(("FQ12 model", curve, xs))
    return (len(bad) > 0), "c14_sgn0: %d mismatches; first %s" % (len(bad), str(bad[:1])[:300])


def replay_c14_diff(args):
    """random + boundary differential run of the reference and optimized class of one kind."""
    from py_ecc import fields as f
    curve, kind = args["curve"], args["kind"]
    RK = getattr(f, "%s_%s" % (curve, kind))
    OK = getattr(f, "optimized_%s_%s" % (curve, kind))
    p = RK.field_modulus
    rng = random.Random(17)
    pts = args.get("point") or {}
    bad = []
    if kind == "FQ":
        vals = [0, 1, 2, p - 1, (p - 1) // 2] + [rng.randrange(p) for _ in range(5)]
        ks = [0, 1, -1, p, p + 1, -2 * p - 3, 2 ** 300]
        if pts:
            vals += [int(pts.get("a", 1)) % p, int(pts.get("b", 1)) % p]
            ks.append(int(pts.get("k", 1)))
        ops = [lambda x, y, k: x + y, lambda x, y, k: x - y, lambda x, y, k: x * y, lambda x, y, k: x / y, lambda x, y, k: -x,
               lambda x, y, k: x + k, lambda x, y, k: k - x, lambda x, y, k: x * k, lambda x, y, k: x / k, lambda x, y, k: k / x,
               lambda x, y, k: x ** 7, lambda x, y, k: x ** 0, lambda x, y, k: type(x)(k)]
        for a in vals:
            for b in vals:
                for k in ks:
                    for i, op in enumerate(ops):
                        try:
                            if op(RK(a), RK(b), k).n != op(OK(a), OK(b), k).n:
                                bad.append((i, a, b, k))
                        except Exception as e:
                            bad.append((repr(e), i, a, b, k))
                if (RK(a) == RK(b)) != (OK(a) == OK(b)) or (RK(a) < RK(b)) != (OK(a) < OK(b)):
                    bad.append(("cmp", a, b))
            for k in (a, a + p, a - p, p, 0, -1, 2 * p + a):
                for nm, cmpf in (("==", lambda x, k: x == k), ("<", lambda x, k: x < k), (">=", lambda x, k: x >= k), ("!=", lambda x, k: x != k)):
                    try:
                        u, v = cmpf(RK(a), k), cmpf(OK(a), k)
                    except Exception as e:
                        u, v = "raised", repr(e)
                    if u != v:
                        bad.append(("cmp with int", nm, a % 1000, "k - a = %d p" % ((k - a) // p)))
    else:
        deg = int(kind[2:])
        elems = [[0] * deg, [1] + [0] * (deg - 1), [p - 1] * deg] + [[rng.randrange(p) for _ in range(deg)] for _ in range(4)]
        for i in range(deg):
            e = [0] * deg
            e[i] = rng.randrange(1, p)
            elems.append(e)
        if pts:
            elems.append([int(pts.get("a%d" % i, 0)) % p for i in range(deg)])
        ops = [lambda x, y, k: x + y, lambda x, y, k: x - y, lambda x, y, k: x * y, lambda x, y, k: -x, lambda x, y, k: x * k,
               lambda x, y, k: k * x, lambda x, y, k: x / k, lambda x, y, k: x ** 3, lambda x, y, k: x.inv(), lambda x, y, k: y / x]
        for a in elems:
            for b in elems[:6]:
                for k in (0, 1, -1, p + 2, int(pts.get("k", 5))):
                    for i, op in enumerate(ops):
                        try:
                            if _ints(op(RK(a), RK(b), k)) != _ints(op(OK(a), OK(b), k)):
                                bad.append((i, a, b, k))
                        except Exception as e:
                            bad.append((repr(e), i))
                if (RK(a) == RK(b)) != (OK(a) == OK(b)):
                    bad.append(("eq", a, b))
    return (len(bad) > 0), "c14_diff %s %s: %d mismatches; first %s" % (curve, kind, len(bad), str(bad[:1])[:300])


# ---------------------------------------------------------------------------
# C11: independent ZCash-format oracle for G1

_Q381 = 4002409555221667393417789825735904156556882819939007885332058136124031650490837864442687629129015664037894272559787


def zcash_decode_g1(z):
    """returns ("inf",) / ("pt", x, y) / ("reject", why); independent transcription of the format."""
    q = _Q381
    if not 0 <= z < 2 ** 384:
        z = z % 2 ** 384 if z >= 0 else z
    c, b, a = (z >> 383) & 1, (z >> 382) & 1, (z >> 381) & 1
    x = z % 2 ** 381
    if c != 1:
        return ("reject", "c")
    if b == 1:
        if a or x:
            return ("reject", "inf bits")
        return ("inf",)
    if x >= q:
        return ("reject", "x>=q")
    t = (x ** 3 + 4) % q
    y = pow(t, (q + 1) // 4, q)
    if y * y % q != t:
        return ("reject", "nonresidue")
    if (2 * y) // q != a:
        y = q - y
    return ("pt", x, y % q)


def zcash_encode_g1(P):
    q = _Q381
    if P is None:
        return 2 ** 383 + 2 ** 382
    x, y = P
    return x + ((2 * y) // q) * 2 ** 381 + 2 ** 383


def _g1_words(model):
    q = _Q381
    ws = []
    for k in ("z", "z1"):
        if k in (model or {}):
            ws.append(int(model[k]))
    return ws


def replay_c11_g1(args):
    from py_ecc.bls import point_compression as pc
    q = _Q381
    bad = []
    for z in _g1_words(args.get("model")):
        exp = zcash_decode_g1(z)
        try:
            pt = pc.decompress_G1(z)
            if int(pt[2]) == 0:
                got = ("inf",)
            else:
                zi = pow(int(pt[2]), -1, q)
                got = ("pt", int(pt[0]) * zi % q, int(pt[1]) * zi % q)
            if pc.compress_G1(pt) != z % 2 ** 384 and z < 2 ** 384:
                bad.append(("not canonical", z))
        except ValueError as e:
            got = ("reject", str(e))
        except Exception as e:
            got = ("other exception", repr(e))
        if got[0] != exp[0] or (got[0] == "pt" and got != exp):
            bad.append((hex(z)[:24], got[:1], exp))
    # infinity in every projective form
    from py_ecc.optimized_bls12_381 import FQ, Z1, G1, multiply, double, neg, add
    for nm, P in (("Z1", Z1), ("double(Z1)", double(Z1)), ("neg(Z1)", neg(Z1)), ("(5, 7, 0)", (FQ(5), FQ(7), FQ(0))), ("(0, 0, 0)", (FQ(0), FQ(0), FQ(0))),
                  ("G1 + (-G1)", add(G1, neg(G1)))):
        try:
            w = pc.compress_G1(P)
            if w != (1 << 383) + (1 << 382) or int(pc.decompress_G1(w)[2]) != 0:
                bad.append(("infinity representative %s compresses to %s" % (nm, hex(w)[:12]),))
        except Exception as e:
            bad.append(("infinity representative %s: %r" % (nm, e),))
    return (len(bad) > 0), "c11_g1: %d mismatches; first %s" % (len(bad), str(bad[:2])[:300])


def replay_c11_g1_point(args):
    """round trip of curve points with the given x (and small x values) through the real codec."""
    from py_ecc.bls import point_compression as pc
    from py_ecc.optimized_bls12_381 import FQ
    q = _Q381
    bad = []
    xs = [int(args.get("x", 1)) % q]
    if "y" in args:
        # compress_G1 is defined on any affine pair: its sign flag must be "y is the larger root" for the model's y
        x0, y0 = xs[0], int(args["y"]) % q
        try:
            if pc.compress_G1((FQ(x0), FQ(y0), FQ(1))) != zcash_encode_g1((x0, y0)):
                bad.append(("encoding of (x, y) differs from the format", x0, y0))
        except Exception as e:
            bad.append((repr(e)[:80], x0, y0))
    # repair of the abstracted hypothesis: the solver's x need not be an x-coordinate (products are uninterpreted);
    # move to the nearest x-coordinates of real curve points (same high-order bits)
    x_model = xs[0]
    if x_model != 0:
        for sgn in (1, -1):
            for d in range(0, 64):
                xx = x_model + sgn * d
                if not 0 < xx < q:
                    break
                t = (xx ** 3 + 4) % q
                if pow(t, (q - 1) // 2, q) == 1:
                    if xx not in xs:
                        xs.append(xx)
                    break
    for x in xs:
        t = (x ** 3 + 4) % q
        y = pow(t, (q + 1) // 4, q)
        if y * y % q != t:
            continue
        for yy in (y, q - y):
            for lam in (1, 7):
                pt = (FQ(x * lam), FQ(yy * lam), FQ(lam))
                try:
                    z = pc.compress_G1(pt)
                    back = pc.decompress_G1(z)
                    if z != zcash_encode_g1((x, yy % q)):
                        bad.append(("encoding differs from the format", x, yy))
                    zi = pow(int(back[2]), -1, q)
                    if (int(back[0]) * zi % q, int(back[1]) * zi % q) != (x, yy % q):
                        bad.append(("roundtrip", x, yy))
                except Exception as e:
                    bad.append((repr(e)[:80], x, "y_is_larger=%s" % ((2 * yy) // q)))
    return (len(bad) > 0), "c11_g1_point: %d failures; first %s" % (len(bad), str(bad[:2])[:300])


def _fq2_mul(a, b, q):
    return ((a[0] * b[0] - a[1] * b[1]) % q, (a[0] * b[1] + a[1] * b[0]) % q)


def _fq2_sqrt(v, q):
    """a square root of v in F_q[i]/(i^2+1), q == 3 mod 4, or None (independent of py_ecc)."""
    a, b = v[0] % q, v[1] % q
    if b == 0:
        r = pow(a, (q + 1) // 4, q)
        if r * r % q == a:
            return (r, 0)
        r = pow(-a % q, (q + 1) // 4, q)
        if r * r % q == (-a) % q:
            return (0, r)
        return None
    n = (a * a + b * b) % q
    s = pow(n, (q + 1) // 4, q)
    if s * s % q != n:
        return None
    for sg in (s, -s % q):
        t = (a + sg) * pow(2, -1, q) % q
        x = pow(t, (q + 1) // 4, q)
        if x * x % q == t and x:
            y = b * pow(2 * x, -1, q) % q
            if _fq2_mul((x, y), (x, y), q) == (a, b):
                return (x, y)
    return None


def zcash_decode_g2(z1, z2):
    q = _Q381
    c, b, a = (z1 >> 383) & 1, (z1 >> 382) & 1, (z1 >> 381) & 1
    x1 = z1 % 2 ** 381
    if c != 1:
        return ("reject", "c")
    if b == 1:
        if a or x1 or z2:
            return ("reject", "inf bits")
        return ("inf",)
    if x1 >= q or z2 >= q:
        return ("reject", "range")
    x = (z2, x1)
    x3 = _fq2_mul(_fq2_mul(x, x, q), x, q)
    v = ((x3[0] + 4) % q, (x3[1] + 4) % q)
    y = _fq2_sqrt(v, q)
    if y is None:
        return ("reject", "nonresidue")
    big = (2 * y[1]) // q if y[1] > 0 else (2 * y[0]) // q
    if big != a:
        y = (-y[0] % q, -y[1] % q)
    return ("pt", x, y)


def _fq2_pow(a, e, q):
    r = (1, 0)
    while e:
        if e & 1:
            r = _fq2_mul(r, a, q)
        a = _fq2_mul(a, a, q)
        e >>= 1
    return r


_Z9 = {}


def _fq2_cuberoot(v, q):
    """a cube root of v in F_q^2 (q^2 - 1 = 9*m, gcd(3, m) = 1) or None."""
    n = q * q - 1
    m = n // 9
    if v == (0, 0):
        return (0, 0)
    if _fq2_pow(v, n // 3, q) != (1, 0):
        return None
    if q not in _Z9:
        g = (2, 1)
        while True:
            z = _fq2_pow(g, m, q)
            if _fq2_pow(z, 3, q) != (1, 0):
                break
            g = (g[0] + 1, g[1])
        _Z9[q] = z
    z = _Z9[q]
    e = pow(3, -1, m)
    x0 = _fq2_pow(v, e, q)
    zz = (1, 0)
    for _ in range(9):
        c = _fq2_mul(x0, zz, q)
        if _fq2_pow(c, 3, q) == v:
            return c
        zz = _fq2_mul(zz, z, q)
    return None


def _g2_special_points(q, count=3):
    """real points of E'(F_q^2): y^2 = x^3 + 4 + 4i with y purely real, purely imaginary, and generic."""
    pts = []
    t = 2
    h = (q - 1) // 2
    kinds = {"im0": 0, "re0": 0, "im1": 0, "imhalf": 0, "imhalf1": 0, "re_half_im0": 0, "im1_rebig": 0, "rebig_im0": 0}
    while min(kinds.values()) < count and t < 400:
        for kind, y in (("im0", (t, 0)), ("re0", (0, t)), ("im1", (t, 1)), ("imhalf", (t, h)), ("imhalf1", (t, h + 1)),
                        ("re_half_im0", (h - t, 0)), ("im1_rebig", (q - t, 1)), ("rebig_im0", (h + t, 0))):
            if kinds[kind] >= count:
                continue
            y2 = _fq2_mul(y, y, q)
            v = ((y2[0] - 4) % q, (y2[1] - 4) % q)
            x = _fq2_cuberoot(v, q)
            if x is not None:
                pts.append((kind, x, y))
                pts.append((kind, x, (-y[0] % q, -y[1] % q)))
                kinds[kind] += 1
        t += 1
    xr = 5
    g = 0
    while g < count:
        x = (xr, xr + 1)
        x3 = _fq2_mul(_fq2_mul(x, x, q), x, q)
        y = _fq2_sqrt(((x3[0] + 4) % q, (x3[1] + 4) % q), q)
        if y is not None:
            pts.append(("generic", x, y))
            pts.append(("generic", x, (-y[0] % q, -y[1] % q)))
            g += 1
        xr += 1
    return pts


def zcash_encode_g2(P):
    q = _Q381
    if P is None:
        return (2 ** 383 + 2 ** 382, 0)
    x, y = P
    a = (2 * y[1]) // q if y[1] > 0 else (2 * y[0]) // q
    return (x[1] + a * 2 ** 381 + 2 ** 383, x[0])


def replay_c11_g2(args):
    """real G2 codec against the independent format oracle on: the solver's words (with the abstracted
    root existence repaired by scanning nearby x), and constructed curve points whose y is purely real /
    purely imaginary / generic (both signs)."""
    from py_ecc.bls import point_compression as pc
    from py_ecc.optimized_bls12_381 import FQ2
    q = _Q381
    m = args.get("model") or {}
    bad = []
    pairs = []
    if m:
        z1, z2 = int(m.get("z1", 0)), int(m.get("z2", 0))
        pairs.append((z1, z2))
        fl = z1 >> 381
        x1 = z1 % 2 ** 381
        for d in range(1, 25):
            pairs.append(((fl << 381) | ((x1 + d) % 2 ** 381), z2))
            pairs.append(((fl << 381) | d, z2))
    pts = _g2_special_points(q)
    for kind, x, y in pts:
        w = zcash_encode_g2((x, y))
        pairs.append(w)
        for flip in (381, 382):
            pairs.append((w[0] ^ (1 << flip), w[1]))
        try:
            got = tuple(pc.compress_G2((FQ2(list(x)), FQ2(list(y)), FQ2([1, 0]))))
            if got != w:
                bad.append(("compress_G2 differs from the format (%s y)" % kind, x[0] % 1000, got[0] >> 381, w[0] >> 381))
        except Exception as e:
            bad.append((repr(e)[:60], kind))
    from py_ecc.optimized_bls12_381 import Z2 as _Z2, G2 as _G2, double as _dbl, neg as _neg, add as _add
    for nm, P in (("Z2", _Z2), ("double(Z2)", _dbl(_Z2)), ("neg(Z2)", _neg(_Z2)), ("(x, y, 0)", (FQ2([5, 1]), FQ2([7, 2]), FQ2([0, 0]))), ("G2 + (-G2)", _add(_G2, _neg(_G2)))):
        try:
            w = tuple(pc.compress_G2(P))
            if w != ((1 << 383) + (1 << 382), 0) or pc.decompress_G2(w)[2] != FQ2([0, 0]):
                bad.append(("infinity representative %s compresses to %s" % (nm, hex(w[0])[:12]),))
        except Exception as e:
            bad.append(("infinity representative %s: %r" % (nm, e),))
    for (w1, w2) in pairs:
        exp = zcash_decode_g2(w1, w2)
        try:
            pt = pc.decompress_G2((w1, w2))
            if [int(c) for c in pt[2].coeffs] == [0, 0]:
                got = ("inf",)
            else:
                got = ("pt", tuple(int(c) for c in pt[0].coeffs), tuple(int(c) for c in pt[1].coeffs))
            if tuple(pc.compress_G2(pt)) != (w1, w2):
                bad.append(("not canonical", hex(w1)[:20], hex(w2)[:20]))
        except ValueError as e:
            got = ("reject", str(e))
        except Exception as e:
            got = ("other exception", repr(e))
        if got[0] != exp[0] or (got[0] == "pt" and got != exp):
            bad.append((hex(w1)[:24], hex(w2)[:24], got[:1], exp[:1]))
    return (len(bad) > 0), "c11_g2: %d mismatches; first %s" % (len(bad), str(bad[:2])[:300])


def replay_c11_bytes(args):
    from py_ecc.bls import g2_primitives as g, G2ProofOfPossession as S
    from py_ecc.optimized_bls12_381 import G1, G2, multiply, normalize
    bad = []
    for k in (1, 2, 3, 12345, 2 ** 200 + 7):
        P1, P2 = multiply(G1, k), multiply(G2, k)
        pk, sig = g.G1_to_pubkey(P1), g.G2_to_signature(P2)
        if len(pk) != 48 or len(sig) != 96:
            bad.append(("length", k, len(pk), len(sig)))
        if normalize(g.pubkey_to_G1(pk)) != normalize(P1) or normalize(g.signature_to_G2(sig)) != normalize(P2):
            bad.append(("roundtrip", k))
    return (len(bad) > 0), "c11_bytes: %d failures %s" % (len(bad), bad[:2])


# ---------------------------------------------------------------------------
# BLS protocol replays (real pairings; each Verify costs ~1 s)

def _suite(name):
    from py_ecc import bls
    return getattr(bls, name)


_R = 52435875175126190479447740508185965837690552500527637822603658699938581184513


def replay_bls_sign_verify(args):
    S = _suite(args["suite"])
    from eth_utils import ValidationError
    bad = []
    sks = []
    if "sk" in args:
        sks.append(int(args["sk"]))
    sks += [1, 2, _R - 1, 0, _R, -1, _R + 1, 2 ** 255]
    msg = bytes.fromhex(args["msg"]) if "msg" in args else b"\x12" * 3
    for sk in sks:
        valid = 1 <= sk < _R
        try:
            pk = S.SkToPk(sk)
            sig = S.Sign(sk, msg)
            if not valid:
                bad.append(("accepted invalid sk", sk))
                continue
            if S.Verify(pk, msg, sig) is not True:
                bad.append(("honest signature rejected", sk, msg.hex()))
            if sk in (1, 2):
                # messages correlated with the key material (the property quantifies over every message)
                for m2 in (bytes(pk), bytes(pk) + b"\x00", sk.to_bytes(32, "big"), bytes(sig), b"", bytes(S.DST)):
                    if S.Verify(pk, m2, S.Sign(sk, m2)) is not True:
                        bad.append(("honest signature rejected on a key-derived message", sk, m2.hex()[:40]))
                        break
        except ValidationError:
            if valid:
                bad.append(("refused valid sk", sk))
        except Exception as e:
            bad.append((repr(e)[:80], sk))
        if len(bad) > 2:
            break
    return (len(bad) > 0), "bls_sign_verify %s: %d failures %s" % (args["suite"], len(bad), str(bad[:2])[:300])


def replay_bls_pop(args):
    S = _suite("G2ProofOfPossession")
    from eth_utils import ValidationError
    bad = []
    sks = ([int(args["sk"])] if "sk" in args else []) + [1, 3, _R - 1, 0, _R, -5]
    for sk in sks:
        valid = 1 <= sk < _R
        try:
            proof = S.PopProve(sk)
            if not valid:
                bad.append(("accepted invalid sk", sk))
                continue
            if S.PopVerify(S.SkToPk(sk), proof) is not True:
                bad.append(("honest proof rejected", sk))
        except ValidationError:
            if valid:
                bad.append(("refused valid sk", sk))
        except Exception as e:
            bad.append((repr(e)[:80], sk))
    return (len(bad) > 0), "bls_pop: %d failures %s" % (len(bad), str(bad[:2])[:300])


def _g2_torsion_point():
    """a point of E'(F_q^2) outside the prime-order subgroup, of order dividing the cofactor (r * random point)."""
    from py_ecc.optimized_bls12_381 import FQ2, multiply, is_inf, is_on_curve, b2, curve_order
    q = _Q381
    xr = 1
    while True:
        x = (xr, 3)
        x3 = _fq2_mul(_fq2_mul(x, x, q), x, q)
        y = _fq2_sqrt(((x3[0] + 4) % q, (x3[1] + 4) % q), q)
        xr += 1
        if y is None:
            continue
        P = (FQ2(list(x)), FQ2(list(y)), FQ2([1, 0]))
        T = multiply(P, curve_order)
        if not is_inf(T) and is_on_curve(T, b2):
            return T


def _g1_torsion_point():
    from py_ecc.optimized_bls12_381 import FQ
    return (FQ(0), FQ(2), FQ(1))      # order 3


def _related_battery(sk=None, msg=None):
    """(name, verifier thunk, expected) for the candidates of C02, all run on the real code."""
    from py_ecc.bls import G2Basic as Basic, G2MessageAugmentation as Aug, G2ProofOfPossession as Pop
    from py_ecc.bls.g2_primitives import signature_to_G2, G2_to_signature
    from py_ecc.optimized_bls12_381 import add, neg, multiply, Z2
    sk = sk or 0x1234567
    sk2 = sk + 1 if sk + 1 < _R else sk - 1
    m = msg if msg is not None else b"msg"
    m2 = m + b"\x00"
    out = []
    for S in (Basic, Aug, Pop):
        pk = S.SkToPk(sk)
        sig = S.Sign(sk, m)
        out.append(("%s canonical" % S.__name__, lambda S=S, pk=pk, sig=sig: S.Verify(pk, m, sig), True))
    pk = Basic.SkToPk(sk)
    sig = Basic.Sign(sk, m)
    Spt = signature_to_G2(sig)
    T = _g2_torsion_point()
    cands = [("other key", Basic.Sign(sk2, m)), ("other message", Basic.Sign(sk, m2)), ("other suite POP", Pop.Sign(sk, m)),
             ("other suite AUG", Aug.Sign(sk, m)), ("-S", G2_to_signature(neg(Spt))), ("2S", G2_to_signature(add(Spt, Spt))),
             ("S+T torsion", G2_to_signature(add(Spt, T))), ("identity", G2_to_signature(Z2)),
             ("sk+-1 * H", G2_to_signature(multiply(signature_to_G2(Basic.Sign(1, m)), sk2)))]
    for i in (0, 1, 47, 48, 95):
        b = bytearray(sig)
        b[i] ^= 0x01
        cands.append(("bit flip byte %d" % i, bytes(b)))
    for bit in (0x80, 0x40, 0x20):
        b = bytearray(sig)
        b[0] ^= bit
        cands.append(("flag flip %02x" % bit, bytes(b)))
    for name, c in cands:
        out.append((name, lambda c=c: Basic.Verify(pk, m, c), False))
    ppk = Pop.SkToPk(sk)
    out.append(("pop as sig", lambda: Pop.Verify(ppk, ppk, Pop.PopProve(sk)), False))
    out.append(("sig as pop", lambda: Pop.PopVerify(ppk, Pop.Sign(sk, ppk)), False))
    out.append(("pop canonical", lambda: Pop.PopVerify(ppk, Pop.PopProve(sk)), True))
    apk = Aug.SkToPk(sk)
    out.append(("aug without prefix", lambda: Aug.Verify(apk, m, Aug._CoreSign(sk, m, Aug.DST)), False))
    # the same candidates AFTER the legitimate verification of the same triple (no answer may be remembered across tags)
    s_on_pk = Pop.Sign(sk, ppk)
    out.append(("sig as pop, after the honest Verify", lambda: (Pop.Verify(ppk, ppk, s_on_pk), Pop.PopVerify(ppk, s_on_pk))[1], False))
    proof = Pop.PopProve(sk)
    out.append(("pop as sig, after the honest PopVerify", lambda: (Pop.PopVerify(ppk, proof), Pop.Verify(ppk, ppk, proof))[1], False))
    bsig = Basic.Sign(sk, m)
    out.append(("other suite, after the honest Verify", lambda: (Basic.Verify(pk, m, bsig), Pop.Verify(pk, m, bsig))[1], False))
    asig = Aug.Sign(sk, m)
    out.append(("aug signature checked by the basic suite on PK || m, after the honest Verify", lambda: (Aug.Verify(apk, m, asig), Pop.Verify(apk, apk + m, asig))[1], False))
    return out


def replay_bls_related(args):
    bad = []
    for name, thunk, exp in _related_battery():
        try:
            got = thunk()
        except Exception as e:
            got = repr(e)[:80]
        if got is not exp:
            bad.append((name, got, exp))
    return (len(bad) > 0), "bls_related: %d mismatches %s" % (len(bad), str(bad[:3])[:300])


replay_bls_unique = replay_bls_related


def replay_bls_aggregate(args):
    from py_ecc.bls import G2Basic as S
    from py_ecc.bls.g2_primitives import signature_to_G2, G2_to_signature
    from py_ecc.optimized_bls12_381 import add, Z2, normalize
    from eth_utils import ValidationError
    bad = []
    sigs = [S.Sign(k, b"m%d" % k) for k in (3, 5, 7, 11)]
    for n in (1, 2, 3, 4):
        pts = [signature_to_G2(s) for s in sigs[:n]]
        acc = Z2
        for p_ in pts:
            acc = add(acc, p_)
        exp = G2_to_signature(acc)
        import itertools
        for perm in list(itertools.permutations(sigs[:n]))[:6]:
            if S.Aggregate(list(perm)) != exp:
                bad.append(("order/sum", n))
    from py_ecc.optimized_bls12_381 import neg
    a_, b_ = sigs[0], sigs[1]
    na = G2_to_signature(neg(signature_to_G2(a_)))
    for lst in ([a_, a_], [a_, na, a_], [a_, b_, a_], [a_, a_, a_, b_]):
        acc = Z2
        for x_ in lst:
            acc = add(acc, signature_to_G2(x_))
        if S.Aggregate(list(lst)) != G2_to_signature(acc):
            bad.append(("repeated entries", len(lst)))
    for badlist in ([], [sigs[0][:95]], [sigs[0], sigs[1] + b"\x00"]):
        try:
            S.Aggregate(badlist)
            bad.append(("accepted", [len(x) for x in badlist]))
        except ValidationError:
            pass
        except Exception as e:
            bad.append((repr(e)[:60],))
    return (len(bad) > 0), "bls_aggregate: %d mismatches %s" % (len(bad), str(bad[:3])[:200])


def replay_bls_aggverify(args):
    """real AggregateVerify / FastAggregateVerify on honest aggregates and single-element perturbations."""
    from py_ecc import bls
    bad = []
    suites = [args["suite"]] if args.get("suite") in ("G2Basic", "G2MessageAugmentation", "G2ProofOfPossession") else ["G2Basic", "G2MessageAugmentation", "G2ProofOfPossession"]
    for sname in suites:
        S = getattr(bls, sname)
        sks = [5, 9, 9 + 4]
        msgs = [b"a", b"b", b"c"]
        pks = [S.SkToPk(k) for k in sks]
        for n in (1, 2, 3):
            sigs = [S.Sign(sks[i], msgs[i]) for i in range(n)]
            agg = S.Aggregate(sigs)
            tests = [("honest", pks[:n], msgs[:n], agg, True), ("empty", [], [], agg, False), ("mismatch", pks[:n], msgs[:n] + [b"x"], agg, False),
                     ("altered msg", pks[:n], [b"zz"] + msgs[1:n], agg, False), ("altered agg", pks[:n], msgs[:n], S.Aggregate(sigs + [sigs[0]]), False)]
            if n > 1:
                tests.append(("dropped signer", pks[:n - 1], msgs[:n - 1], agg, False))
                tests.append(("swapped keys", [pks[1], pks[0]] + pks[2:n], msgs[:n], agg, False))
            if sname == "G2Basic" and n > 1:
                same = [S.Sign(sks[i], b"same") for i in range(n)]
                tests.append(("repeated message (basic)", pks[:n], [b"same"] * n, S.Aggregate(same), False))
            if sname != "G2Basic" and n > 1:
                same = [S.Sign(sks[i], b"same") for i in range(n)]
                tests.append(("repeated message (allowed in this suite)", pks[:n], [b"same"] * n, S.Aggregate(same), True))
            if n == 2:
                # signers with opposite keys sk and r - sk: the aggregate key is the identity, AggregateVerify has no such precondition
                ko = [7, _R - 7]
                mo = [b"m1", b"m2"] if sname == "G2Basic" else [b"mm", b"mm"]
                tests.append(("opposite keys", [S.SkToPk(k) for k in ko], mo, S.Aggregate([S.Sign(k, m_) for k, m_ in zip(ko, mo)]), True))
                tests.append(("opposite keys, distinct messages", [S.SkToPk(k) for k in ko], [b"m1", b"m2"], S.Aggregate([S.Sign(k, m_) for k, m_ in zip(ko, [b"m1", b"m2"])]), True))
            for name, P, M, sg, exp in tests:
                try:
                    got = S.AggregateVerify(P, M, sg)
                except Exception as e:
                    got = repr(e)[:60]
                if got is not exp:
                    bad.append((sname, n, name, got))
            if sname == "G2ProofOfPossession":
                same = [S.Sign(sks[i], b"same") for i in range(n)]
                ag = S.Aggregate(same)
                for name, P, m, sg, exp in (("fast honest", pks[:n], b"same", ag, True), ("fast other msg", pks[:n], b"other", ag, False),
                                            ("fast empty", [], b"same", ag, False), ("fast extra key", pks[:n] + [pks[0]], b"same", ag, False)):
                    try:
                        got = S.FastAggregateVerify(P, m, sg)
                    except Exception as e:
                        got = repr(e)[:60]
                    if got is not exp:
                        bad.append((sname, n, name, got))
    return (len(bad) > 0), "bls_aggverify: %d mismatches %s" % (len(bad), str(bad[:3])[:300])


def _malformed_keys():
    from py_ecc.bls import G2Basic as S
    from py_ecc.bls.g2_primitives import G1_to_pubkey
    from py_ecc.optimized_bls12_381 import FQ, multiply, curve_order, is_inf, Z1
    q = _Q381
    pk = S.SkToPk(42)
    z = int.from_bytes(pk, "big")
    out = [("empty", b""), ("47 bytes", pk[1:]), ("47 bytes b", pk[:47]), ("leading zero byte", b"\x00" + pk), ("leading 01 byte", b"\x01" + pk),
           ("two leading bytes", b"\x00\x00" + pk), ("trailing byte", pk + b"\x00"), ("96 bytes", pk + pk), ("identity", G1_to_pubkey(Z1)),
           ("zero-padded short", b"\x00" * 48), ("random", bytes(range(48))), ("200 bytes", pk * 4 + pk[:8])]
    for fl in range(8):
        if fl != (z >> 381) and fl != ((z >> 381) ^ 1):       # flipping only the sign flag gives the (valid) key -P
            out.append(("flags %d" % fl, ((fl << 381) | (z % 2 ** 381)).to_bytes(48, "big")))
    for x, nm in ((q, "x=q"), (q + 1, "x=q+1"), (2 ** 381 - 1, "x=2^381-1"), (q - 1, "x=q-1"), (1, "x=1"), (5, "x=5 (maybe off curve)")):
        out.append((nm, ((4 << 381) | x).to_bytes(48, "big")))
    # on-curve point outside the prime-order subgroup
    x = 1
    while True:
        t = (x ** 3 + 4) % q
        y = pow(t, (q + 1) // 4, q)
        if y * y % q == t:
            P = (FQ(x), FQ(y), FQ(1))
            if not is_inf(multiply(P, curve_order)):
                out.append(("on curve, not in subgroup x=%d" % x, G1_to_pubkey(P)))
                break
        x += 1
    return pk, out


def replay_bls_keyvalidate(args):
    from py_ecc import bls
    pk, keys = _malformed_keys()
    bad = []
    for sname in ("G2Basic", "G2MessageAugmentation", "G2ProofOfPossession"):
        S = getattr(bls, sname)
        if S.KeyValidate(pk) is not True:
            bad.append((sname, "valid key rejected"))
        for nm, k in keys:
            try:
                got = S.KeyValidate(k)
            except Exception as e:
                got = repr(e)[:60]
            if got is not False:
                bad.append((sname, nm, len(k), got))
    finding = None
    if bad and all(b[1].startswith("leading") or b[1].startswith("two leading") for b in bad if len(b) > 2) and all(len(b) > 2 for b in bad):
        finding = "keyvalidate-length"
    return (len(bad) > 0), "bls_keyvalidate: %d wrong answers %s" % (len(bad), str(bad[:3])[:300])


def replay_bls_total(args):
    """every verifier on malformed keys / signatures: must answer False without raising."""
    from py_ecc import bls
    from py_ecc.bls.g2_primitives import G2_to_signature
    pk, keys = _malformed_keys()
    bad = []
    Sb = bls.G2Basic
    msg = b"m"
    sig = Sb.Sign(42, msg)
    T = _g2_torsion_point()
    sigs = [("empty", b""), ("95", sig[:95]), ("97", sig + b"\x00"), ("leading zero", b"\x00" + sig), ("48", sig[:48]),
            ("zero byte between the halves", sig[:48] + b"\x00" + sig[48:]), ("8 zero bytes between the halves", sig[:48] + b"\x00" * 8 + sig[48:]),
            ("zero byte inside the first half", sig[:1] + b"\x00" + sig[1:]),
            ("torsion point", G2_to_signature(T)), ("zeros", b"\x00" * 96), ("flag in second word", sig[:48] + bytes([sig[48] | 0x80]) + sig[49:])]
    for sname in ("G2Basic", "G2MessageAugmentation", "G2ProofOfPossession"):
        S = getattr(bls, sname)
        good_sig = S.Sign(42, msg)
        calls = []
        sel = [kk for kk in keys if kk[0] in ("identity", "leading zero byte", "47 bytes", "x=q", "flags 0") or kk[0].startswith("on curve")] + keys[:6]
        sig2 = S.Aggregate([S.Sign(42, msg), S.Sign(43, b"n")])
        pk43 = S.SkToPk(43)
        for nm, k in sel:
            calls.append(("Verify key " + nm, lambda k=k: S.Verify(k, msg, good_sig)))
            calls.append(("AggregateVerify last key " + nm, lambda k=k: S.AggregateVerify([pk, k], [msg, b"n"], good_sig)))
            calls.append(("AggregateVerify first key " + nm, lambda k=k: S.AggregateVerify([k, pk43], [msg, b"n"], S.Sign(43, b"n"))))
            calls.append(("AggregateVerify middle key " + nm, lambda k=k: S.AggregateVerify([pk, k, pk43], [msg, b"x", b"n"], sig2)))
        for nm, s_ in sigs:
            calls.append(("Verify sig " + nm, lambda s_=s_: S.Verify(pk, msg, s_)))
            calls.append(("AggregateVerify sig " + nm, lambda s_=s_: S.AggregateVerify([pk], [msg], s_)))
        from py_ecc.optimized_bls12_381 import Z2 as _Z2
        for nm, s_ in (("honest", good_sig), ("identity", G2_to_signature(_Z2)), ("empty", b"")):
            calls.append(("AggregateVerify no keys, sig " + nm, lambda s_=s_: S.AggregateVerify([], [], s_)))
            if sname == "G2ProofOfPossession":
                calls.append(("FastAggregateVerify no keys, sig " + nm, lambda s_=s_: S.FastAggregateVerify([], msg, s_)))
        if sname == "G2ProofOfPossession":
            # two keys outside the subgroup whose cofactor components cancel: a*G + T and b*G - T (the aggregate IS a valid key)
            from py_ecc.bls.g2_primitives import G1_to_pubkey as _enc1
            from py_ecc.optimized_bls12_381 import G1 as _G1, FQ as _FQ, add as _add, neg as _neg, multiply as _mul, curve_order as _ro, is_inf as _isinf
            Tt = None
            xx = 1
            while Tt is None and xx < 200:
                t_ = (xx ** 3 + 4) % _Q381
                yy = pow(t_, (_Q381 + 1) // 4, _Q381)
                if yy * yy % _Q381 == t_:
                    cand = _mul((_FQ(xx), _FQ(yy), _FQ(1)), _ro)        # r * P: the cofactor-torsion component of P
                    if not _isinf(cand):
                        Tt = cand
                xx += 1
            if Tt is not None:
                ka, kb = 21, 34
                pk_a, pk_b = _enc1(_add(_mul(_G1, ka), Tt)), _enc1(_add(_mul(_G1, kb), _neg(Tt)))
                s_ab = S.Sign(ka + kb, msg)
                calls.append(("FastAggregateVerify two keys with cancelling cofactor components", lambda: S.FastAggregateVerify([pk_a, pk_b], msg, s_ab)))
                calls.append(("FastAggregateVerify cancelling components plus an honest key", lambda: S.FastAggregateVerify([pk_a, pk, pk_b], msg, S.Aggregate([s_ab, good_sig]))))
            for nm, k in keys[:14]:
                calls.append(("PopVerify key " + nm, lambda k=k: S.PopVerify(k, good_sig)))
                calls.append(("FastAggregateVerify key " + nm, lambda k=k: S.FastAggregateVerify([pk, k], msg, good_sig)))
            for nm, s_ in sigs:
                calls.append(("PopVerify sig " + nm, lambda s_=s_: S.PopVerify(pk, s_)))
                calls.append(("FastAggregateVerify sig " + nm, lambda s_=s_: S.FastAggregateVerify([pk], msg, s_)))
        for nm, th in calls:
            try:
                got = th()
            except Exception as e:
                got = repr(e)[:60]
            if got is not False:
                bad.append((sname, nm, got))
    return (len(bad) > 0), "bls_total: %d wrong answers %s" % (len(bad), str(bad[:3])[:300])


# ---------------------------------------------------------------------------
# C15 / C16 oracles over the real hashlib

def rfc_expand_message_xmd(msg, dst, n, hname):
    import hashlib
    H = lambda b: getattr(hashlib, hname)(b).digest()
    b_in = getattr(hashlib, hname)().digest_size
    r_in = getattr(hashlib, hname)().block_size
    ell = -((-n) // b_in)
    if ell > 255 or n > 65535 or len(dst) > 255:
        raise ValueError("abort")
    dst_prime = dst + bytes([len(dst)])
    msg_prime = b"\x00" * r_in + msg + n.to_bytes(2, "big") + b"\x00" + dst_prime
    b0 = H(msg_prime)
    if ell == 0:
        return b""
    bs = [H(b0 + b"\x01" + dst_prime)]
    for i in range(2, ell + 1):
        bs.append(H(bytes(x ^ y for x, y in zip(b0, bs[-1])) + bytes([i]) + dst_prime))
    return b"".join(bs)[:n]


def replay_c15_xmd(args):
    import hashlib
    from py_ecc.bls.hash import expand_message_xmd
    hname = args.get("hash", "sha256")
    hfn = getattr(hashlib, hname)
    b_in = hfn().digest_size
    bad = []
    ns = [0, 1, b_in - 1, b_in, b_in + 1, 2 * b_in, 255 * b_in, 255 * b_in + 1, 65535, 65536, 100]
    dls = [0, 1, 254, 255, 256, 300]
    if "n" in args:
        ns.insert(0, int(args["n"]))
    if "dst_len" in args:
        dls.insert(0, int(args["dst_len"]))
    for n in ns:
        for dl in dls[:3] if n > 300 else dls:
            for msg in (b"", b"abc", b"\x00" * 70):
                dst = bytes((i * 7 + 1) % 256 for i in range(dl))
                try:
                    exp = rfc_expand_message_xmd(msg, dst, n, hname)
                except ValueError:
                    exp = "abort"
                try:
                    got = expand_message_xmd(msg, dst, n, hfn)
                except ValueError:
                    got = "abort"
                except Exception as e:
                    got = repr(e)[:50]
                if got != exp:
                    bad.append((hname, n, dl, len(msg), str(got)[:20]))
    return (len(bad) > 0), "c15_xmd: %d mismatches %s" % (len(bad), str(bad[:3])[:300])


def replay_c15_h2f(args):
    import hashlib
    from py_ecc.bls.hash_to_curve import hash_to_field_FQ, hash_to_field_FQ2
    q = _Q381
    bad = []
    for count in range(1, 9):
        for msg, dst in ((b"", b"QUUX-V01-CS02"), (b"abc", b"x" * 255)):
            ub = rfc_expand_message_xmd(msg, dst, count * 64, "sha256")
            exp = [int.from_bytes(ub[64 * i:64 * i + 64], "big") % q for i in range(count)]
            try:
                got = [int(e) for e in hash_to_field_FQ(msg, count, dst, hashlib.sha256)]
            except Exception as e:
                got = repr(e)[:60]
            if got != exp:
                bad.append(("FQ", count))
            ub = rfc_expand_message_xmd(msg, dst, count * 128, "sha256")
            exp = [[int.from_bytes(ub[64 * (j + 2 * i):64 * (j + 2 * i) + 64], "big") % q for j in range(2)] for i in range(count)]
            try:
                got = [[int(c) for c in e.coeffs] for e in hash_to_field_FQ2(msg, count, dst, hashlib.sha256)]
            except Exception as e:
                got = repr(e)[:60]
            if got != exp:
                bad.append(("FQ2", count))
    return (len(bad) > 0), "c15_h2f: %d mismatches %s" % (len(bad), bad[:3])



def replay_c08_fq2_modulus(args):
    """FQ2 instantiated with quadratic moduli that have a linear term (over small primes, exhaustively, and the bn128 prime)."""
    from py_ecc.fields import field_elements as refM, optimized_field_elements as optM
    M = refM if args["impl"] == "ref" else optM
    bad = []
    big = 21888242871839275222246405745257275088696311157297823662689037894645226208583
    cases = []
    for p in (3, 5, 7, 11):
        for m1 in range(p):
            for m0 in range(p):
                if all((x * x + m1 * x + m0) % p for x in range(p)):      # irreducible
                    cases.append((p, m0, m1))
    cases = cases[:40] + [(big, 5, 3), (big, 1, 0)]
    pts = args.get("point") or {}
    if pts:
        cases.append((big, int(pts.get("m0", 1)) % big, int(pts.get("m1", 1)) % big))
    rng = random.Random(4)
    for p, m0, m1 in cases:
        class T(M.FQ2):
            field_modulus = p
            FQ2_MODULUS_COEFFS = (m0, m1)
        elems = [(a, b) for a in range(min(p, 5)) for b in range(min(p, 5))] if p < 100 else [(rng.randrange(p), rng.randrange(p)) for _ in range(3)] + [(0, 5), (7, 0)]
        for a in elems:
            if not any(a):
                continue
            try:
                x = T(list(a))
                pr = _ints(x * x.inv())
                ex = _model_mul(list(a), _ints(x.inv()), [m0, m1], p)
                if pr != [1, 0] or ex != [1, 0]:
                    bad.append((p, m0, m1, a))
            except Exception as e:
                bad.append((repr(e)[:60], p, m0, m1, a))
    return (len(bad) > 0), "c08_fq2_modulus %s: %d failures %s" % (args["impl"], len(bad), str(bad[:3])[:200])



def replay_c11_bytes_decode(args):
    """real byte-level decoders against the independent format oracle on the model string and on structured variants."""
    from py_ecc.bls import g2_primitives as g
    from py_ecc.bls import G2Basic as S
    q = _Q381
    which = args["which"]
    bad = []
    if which == "pubkey_to_G1":
        pk = S.SkToPk(7)
        cands = [pk, bytes([0xC0]) + bytes(47), bytes([0xC0]) + bytes(46) + b"\x01", bytes([0xC0, 0x11]) + bytes(46), bytes([0xE0]) + bytes(47),
                 bytes([pk[0] ^ 0x20]) + pk[1:], bytes([pk[0] & 0x7F]) + pk[1:]]
        if args.get("bytes"):
            cands.insert(0, bytes.fromhex(args["bytes"]))
        for b in cands:
            exp = zcash_decode_g1(int.from_bytes(b, "big"))
            try:
                pt = g.pubkey_to_G1(b)
                got = ("inf",) if int(pt[2]) == 0 else ("pt", int(pt[0]) * pow(int(pt[2]), -1, q) % q, int(pt[1]) * pow(int(pt[2]), -1, q) % q)
            except ValueError:
                got = ("reject",)
            except Exception as e:
                got = ("exc", repr(e)[:40])
            if got[0] != exp[0] or (got[0] == "pt" and got != exp):
                bad.append((b.hex()[:20], got[:1], exp[:1]))
    else:
        sig = S.Sign(7, b"m")
        cands = [sig, bytes([0xC0]) + bytes(95)]
        for bit in (0x80, 0x40, 0x20):
            cands.append(sig[:48] + bytes([sig[48] | bit]) + sig[49:])
            cands.append(bytes([sig[0] ^ bit]) + sig[1:])
        cands.append(bytes([0xC0]) + bytes(94) + b"\x01")
        if args.get("bytes"):
            cands.insert(0, bytes.fromhex(args["bytes"]))
        for b in cands:
            exp = zcash_decode_g2(int.from_bytes(b[:48], "big"), int.from_bytes(b[48:], "big"))
            try:
                pt = g.signature_to_G2(b)
                got = ("inf",) if [int(c) for c in pt[2].coeffs] == [0, 0] else ("pt",)
            except ValueError:
                got = ("reject",)
            except Exception as e:
                got = ("exc", repr(e)[:40])
            if got[0] != exp[0]:
                bad.append((b.hex()[:16], b.hex()[96:104], got[:1], exp[:1]))
    return (len(bad) > 0), "c11_bytes_decode %s: %d mismatches %s" % (which, len(bad), str(bad[:3])[:300])


def rfc_hkdf(salt, ikm, info, L, prk=None):
    import hmac, hashlib
    prk = hmac.new(salt, ikm, hashlib.sha256).digest() if prk is None else prk
    t, okm = b"", b""
    i = 1
    while len(okm) < L:
        t = hmac.new(prk, t + info + bytes([i]), hashlib.sha256).digest()
        okm += t
        i += 1
    return prk, okm[:L]


def replay_c16_hkdf(args):
    from py_ecc.bls.hash import hkdf_extract, hkdf_expand
    bad = []
    Ls = [0, 1, 31, 32, 33, 48, 64, 65, 255 * 32]
    if args.get("L"):
        Ls.insert(0, int(args["L"]))
    cases = [(b"", b"", b""), (b"salt", b"ikm", b"info"), (b"\x00" * 80, b"\xff" * 300, b"i" * 300)]
    if "salt_len" in args:
        cases.insert(0, (bytes((7 * i + 1) % 256 for i in range(int(args["salt_len"]))), bytes((3 * i + 2) % 256 for i in range(int(args.get("ikm_len", 3)))), b"info"))
    for n in (63, 64, 65, 128):
        cases.append((bytes(range(n)), b"ikm" * (n // 8), b"x" * (n - 60)))
    # bytearray arguments: same output, arguments untouched
    for info_len in (0, 5, 33, 64):
        for L in (1, 32, 33, 70, 100):
            prk_b, info_b = bytearray(b"\x0b" * 32), bytearray(range(info_len))
            try:
                got = bytes(hkdf_expand(prk_b, info_b, L))
            except Exception as e:
                got = repr(e)
            if got != rfc_hkdf(b"", b"", bytes(range(info_len)), L, prk=bytes(b"\x0b" * 32))[1] or bytes(info_b) != bytes(range(info_len)) or bytes(prk_b) != b"\x0b" * 32:
                bad.append(("expand with bytearray arguments", info_len, L))
    for salt, ikm, info in cases:
        prk, _ = rfc_hkdf(salt, ikm, info, 0)
        if bytes(hkdf_extract(salt, ikm)) != prk:
            bad.append(("extract",))
        for L in Ls:
            try:
                got = bytes(hkdf_expand(prk, info, L))
            except Exception as e:
                got = repr(e)
            if got != rfc_hkdf(salt, ikm, info, L)[1]:
                bad.append(("expand", L))
    return (len(bad) > 0), "c16_hkdf: %d mismatches %s" % (len(bad), bad[:3])


def replay_c16_keygen(args):
    import hashlib
    from py_ecc.bls import G2ProofOfPossession as S
    bad = []
    for ikm, info in ((b"\x00" * 32, b""), (b"ikm", b"info"), (b"", b""), (bytes(range(128)), bytes(range(64)))):
        salt = b"BLS-SIG-KEYGEN-SALT-"
        sk = 0
        while sk == 0:
            salt = hashlib.sha256(salt).digest()
            _, okm = rfc_hkdf(salt, ikm + b"\x00", info + (48).to_bytes(2, "big"), 48)
            sk = int.from_bytes(okm, "big") % _R
        got = S.KeyGen(ikm, info)
        if got != sk or not (1 <= got < _R) or S.KeyGen(ikm, info) != got:
            bad.append((ikm[:4], got, sk))
    # the SK == 0 retry cannot be reached with real SHA-256 outputs: force it by making the first HKDF-Expand
    # of the real KeyGen return zeros (fault injection on the real code) and observe the salts of the attempts
    import py_ecc.bls.ciphersuites as csm
    import hmac
    real_expand, real_extract = csm.hkdf_expand, csm.hkdf_extract
    salts, n = [], [0]

    def ext(salt, ikm):
        salts.append(bytes(salt))
        return real_extract(salt, ikm)

    def exp(prk, info, L):
        n[0] += 1
        if n[0] == 1:
            return b"\x00" * L
        return real_expand(prk, info, L)
    csm.hkdf_expand, csm.hkdf_extract = exp, ext
    try:
        import threading
        res = []
        t = threading.Thread(target=lambda: res.append(S.KeyGen(b"ikm-for-retry", b"")), daemon=True)
        t.start()
        t.join(20)
        if t.is_alive() or not res:
            bad.append(("KeyGen does not terminate after a zero SK attempt",))
        else:
            s1 = hashlib.sha256(b"BLS-SIG-KEYGEN-SALT-").digest()
            s2 = hashlib.sha256(s1).digest()
            if salts[:2] != [s1, s2]:
                bad.append(("salt is not re-hashed before every attempt", [x.hex()[:8] for x in salts[:3]]))
            _, okm = rfc_hkdf(s2, b"ikm-for-retry\x00", (48).to_bytes(2, "big"), 48)
            if res[0] != int.from_bytes(okm, "big") % _R:
                bad.append(("second attempt value",))
    finally:
        csm.hkdf_expand, csm.hkdf_extract = real_expand, real_extract
    return (len(bad) > 0), "c16_keygen: %d mismatches %s" % (len(bad), str(bad[:2])[:200])


# ---------------------------------------------------------------------------
# secp256k1

_SP = 2 ** 256 - 2 ** 32 - 977
_SN = 0xFFFFFFFFFFFFFFFFFFFFFFFFFFFFFFFEBAAEDCE6AF48A03BBFD25E8CD0364141
_SG = (0x79BE667EF9DCBBAC55A06295CE870B07029BFCDB2DCE28D959F2815B16F81798, 0x483ADA7726A3C4655DA4FBFC0E1108A8FD17B448A68554199C47D08FFB10D4B8)


def _sec_mul(P, n):
    R = aff_mul(P, n % _SN, _SP) if P is not None else None
    return R


def replay_c18_consts(args):
    from py_ecc.secp256k1 import secp256k1 as sp
    ok = (sp.P, sp.N, sp.A, sp.B, sp.Gx, sp.Gy) == (_SP, _SN, 0, 7, _SG[0], _SG[1])
    return (not ok), "c18_consts: constants %s" % ("match" if ok else "DIFFER")


def replay_c18_multiply(args):
    from py_ecc.secp256k1 import secp256k1 as sp
    bad = []
    ns = [0, 1, 2, 3, _SN - 1, _SN, _SN + 1, 2 * _SN + 5, -1, -7, 2 ** 300 + 1, -(2 ** 260)]
    if args.get("n"):
        ns.insert(0, int(args["n"]))
    Q = aff_mul(_SG, 987654321, _SP)
    for P in (_SG, Q, (0, 0)):
        for n in ns:
            exp = _sec_mul(P if P != (0, 0) else None, n)
            exp = (0, 0) if exp is None else exp
            try:
                got = tuple(int(c) for c in sp.multiply(P, n))
            except Exception as e:
                got = repr(e)[:50]
            if got != exp:
                bad.append((P[0] % 1000, n if abs(n) < 10 ** 6 else "big", str(got)[:30]))
    return (len(bad) > 0), "c18_multiply: %d mismatches %s" % (len(bad), str(bad[:3])[:200])


def replay_c18_affine(args):
    from py_ecc.secp256k1 import secp256k1 as sp
    bad = []
    P1, P2 = aff_mul(_SG, 5, _SP), aff_mul(_SG, 11, _SP)
    negP1 = (P1[0], -P1[1] % _SP)
    cases = [(P1, P2), (P1, P1), (P1, negP1), (P1, (0, 0)), ((0, 0), P1), ((0, 0), (0, 0)), (_SG, _SG)]
    for a, b in cases:
        exp = aff_add(None if a == (0, 0) else a, None if b == (0, 0) else b, _SP)
        exp = (0, 0) if exp is None else exp
        got = tuple(int(c) for c in sp.add(a, b))
        if got != exp:
            bad.append((a[0] % 1000, b[0] % 1000, got[0] % 1000))
    ds = [b"\x01", (5).to_bytes(32, "big"), (_SN - 1).to_bytes(32, "big"), b"\x00" * 31 + b"\x02", (7).to_bytes(32, "big") + b"\x01", b"\x00" + (9).to_bytes(32, "big")]
    if "key_len" in args:
        ds.insert(0, bytes((5 * i + 3) % 256 for i in range(int(args["key_len"]))))
    for d in ds:
        if tuple(sp.privtopub(d)) != _sec_mul(_SG, int.from_bytes(d, "big")):
            bad.append(("privtopub", d.hex()[:8]))
    return (len(bad) > 0), "c18_affine: %d mismatches %s" % (len(bad), str(bad[:3])[:200])


def replay_c18_b2i(args):
    from py_ecc.secp256k1 import secp256k1 as sp
    bad = [L for L in range(0, 40) if sp.bytes_to_int(bytes((7 * i + 1) % 256 for i in range(L))) != int.from_bytes(bytes((7 * i + 1) % 256 for i in range(L)), "big")]
    return (len(bad) > 0), "c18_b2i: %s" % bad[:5]


def _sec_lift(x, parity):
    t = (x ** 3 + 7) % _SP
    y = pow(t, (_SP + 1) // 4, _SP)
    if y * y % _SP != t:
        return None
    if y % 2 != parity:
        y = _SP - y
    return (x, y)


def _oracle_recover(z, v, r, s):
    """independent ECDSA public key recovery; returns point, or 'reject'."""
    if v not in (27, 28) or r % _SN == 0 or s % _SN == 0 or not (0 <= r < _SP):
        return "reject"
    R = _sec_lift(r, v - 27)
    if R is None:
        return "reject"
    ri = pow(r % _SN, -1, _SN)
    sR = aff_mul(R, s % _SN, _SP)
    zG = aff_mul(_SG, (-z) % _SN, _SP)
    Q = aff_mul(aff_add(sR, zG, _SP), ri, _SP) if aff_add(sR, zG, _SP) is not None else None
    return Q if Q is not None else (0, 0)


def replay_c19_recover(args):
    from py_ecc.secp256k1 import secp256k1 as sp
    bad = []
    rng = random.Random(19)
    xs_valid = [x for x in range(1, 40) if _sec_lift(x, 0)]
    xs_invalid = [x for x in range(1, 40) if not _sec_lift(x, 0)]
    cases = []
    if args.get("r") is not None and args.get("v") is not None:
        cases.append((int(args.get("z", 1)), int(args["v"]), int(args["r"]), int(args.get("s", 1))))
        for vv in (27, 28):
            cases.append((int(args.get("z", 1)), vv, int(args["r"]), int(args.get("s", 1))))
            cases.append((int(args.get("z", 1)), vv, int(args["r"]), max(1, int(args.get("s", 1)) % _SN)))
        # repair: the solver's r may not be an abscissa; also try the neighbouring valid / invalid abscissae with the same v, s
        for x in xs_valid[:2] + xs_invalid[:10]:
            cases.append((int(args.get("z", 1)), int(args["v"]), x, int(args.get("s", 1))))
    for x in xs_invalid[:10]:
        for vv in (27, 28):
            cases.append((rng.randrange(2 ** 256), vv, x, 12345))
    for v in (0, 1, 26, 27, 28, 29, 35):
        for r in (0, 1, xs_valid[0], xs_invalid[0], _SN - 1, _SN, _SN + 1, _SP - 1, aff_mul(_SG, 77, _SP)[0]):
            for s in (0, 1, (_SN - 1) // 2, (_SN + 1) // 2, _SN - 1, _SN, _SN + 1, 12345):
                if v in (27, 28) or (r, s) == (1, 1):
                    cases.append((rng.randrange(2 ** 256), v, r, s))
    for z, v, r, s in cases[:320]:
        h = z.to_bytes(max(1, (z.bit_length() + 7) // 8), "big")
        zz = int.from_bytes(h, "big")
        exp = _oracle_recover(zz, v, r, s)
        try:
            got = tuple(int(c) for c in sp.ecdsa_raw_recover(h, (v, r, s)))
        except ValueError:
            got = "reject"
        except Exception as e:
            got = repr(e)[:40]
        if got != exp:
            bad.append((v, r if r < 10 ** 6 else "big", s if s < 10 ** 6 else "big", str(got)[:20]))
    return (len(bad) > 0), "c19_recover: %d mismatches %s" % (len(bad), str(bad[:3])[:250])


def replay_c06_nonce(args):
    import hmac, hashlib
    from py_ecc.secp256k1 import secp256k1 as sp
    bad = []
    for priv, h in ((b"\x01" * 32, b"\x00" * 32), (bytes(range(32)), b""), (b"\xff" * 32, b"\xab" * 64), (b"\x10" * 32, b"\x01" * 31),
                    (b"\x02" * 32, b"\xff" * 32), (b"\x03" * 32, _SN.to_bytes(32, "big")), (b"\x04" * 32, (_SN + 1).to_bytes(32, "big"))):
        V, K = b"\x01" * 32, b"\x00" * 32
        K = hmac.new(K, V + b"\x00" + priv + h, hashlib.sha256).digest()
        V = hmac.new(K, V, hashlib.sha256).digest()
        K = hmac.new(K, V + b"\x01" + priv + h, hashlib.sha256).digest()
        V = hmac.new(K, V, hashlib.sha256).digest()
        T = hmac.new(K, V, hashlib.sha256).digest()
        if sp.deterministic_generate_k(h, priv) != int.from_bytes(T, "big"):
            bad.append((priv[:2].hex(), len(h)))
    return (len(bad) > 0), "c06_nonce: %d mismatches %s" % (len(bad), bad[:3])


def replay_c06_sign(args):
    from py_ecc.secp256k1 import secp256k1 as sp
    bad = []
    rng = random.Random(6)
    ds = [1, 2, _SN - 2, _SN - 1, 12345] + [rng.randrange(1, _SN) for _ in range(6)]
    hs = [b"\x00" * 32, b"\xff" * 32, (_SN - 1).to_bytes(32, "big"), _SN.to_bytes(32, "big"), (_SN + 1).to_bytes(32, "big"), b"", b"abc", b"\x07" * 64] + \
         [bytes(rng.randrange(256) for _ in range(32)) for _ in range(4)]
    for d in ds:
        priv = d.to_bytes(32, "big")
        pub = _sec_mul(_SG, d)
        for h in hs[: (12 if d < 20 or d > _SN - 5 else 5)]:
            try:
                v, r, s = sp.ecdsa_raw_sign(h, priv)
                z = int.from_bytes(h, "big")
                ok = v in (27, 28) and 1 <= r < _SN and 1 <= s <= _SN // 2
                # verification equation
                w = pow(s, -1, _SN)
                X = aff_add(aff_mul(_SG, z * w % _SN, _SP), aff_mul(pub, r * w % _SN, _SP), _SP)
                ok = ok and X is not None and X[0] % _SN == r
                ok = ok and tuple(int(c) for c in sp.ecdsa_raw_recover(h, (v, r, s))) == pub
                try:
                    other = tuple(int(c) for c in sp.ecdsa_raw_recover(h, (55 - v, r, s)))
                except ValueError:
                    other = None
                ok = ok and other != pub
                if sp.ecdsa_raw_sign(h, priv) != (v, r, s):
                    ok = False
                if not ok:
                    bad.append((d if d < 10 ** 6 else "big", h[:4].hex(), v))
            except Exception as e:
                bad.append((repr(e)[:50], d if d < 10 ** 6 else "big"))
    # boundary values of s are unreachable through SHA-256 (probability 2^-256): inject the nonce (deterministic_generate_k
    # is C06.rfc6979_nonce's subject) and choose the hash so that s0 = k^-1 (z + r d) hits the boundary
    real_k = sp.deterministic_generate_k
    try:
        for d in (5, _SN - 3):
            pub = _sec_mul(_SG, d)
            for k in (3, 2 ** 200 + 9):
                r = aff_mul(_SG, k, _SP)[0]
                for target in ((_SN - 1) // 2, (_SN + 1) // 2, 1, _SN - 1, (_SN + 3) // 2):
                    z = (target * k - r * d) % _SN
                    h = z.to_bytes(32, "big")
                    sp.deterministic_generate_k = lambda msghash, priv, k=k: k
                    v, rr, s = sp.ecdsa_raw_sign(h, d.to_bytes(32, "big"))
                    ok = v in (27, 28) and rr == r and 1 <= s <= _SN // 2 and s in (target, _SN - target)
                    try:
                        ok = ok and tuple(int(c) for c in sp.ecdsa_raw_recover(h, (v, rr, s))) == pub
                    except Exception:
                        ok = False
                    if not ok:
                        bad.append(("injected nonce", d if d < 100 else "N-3", "s0=%s" % ("(N+1)/2" if target == (_SN + 1) // 2 else target if target < 10 else "boundary"), v))
    finally:
        sp.deterministic_generate_k = real_k
    return (len(bad) > 0), "c06_sign: %d failures %s" % (len(bad), str(bad[:3])[:250])


# ---------------------------------------------------------------------------
# C07

_REF_MODS = {"bn128": "py_ecc.bn128", "bls12_381": "py_ecc.bls12_381"}


def replay_c07_ref(args):
    m = importlib.import_module(_REF_MODS[args["curve"]])
    FQ = m.FQ
    p = m.field_modulus
    rng = random.Random(77)
    bad = []
    pt = args.get("point") or {}

    def mk(P):
        return None if P is None else (FQ(P[0]), FQ(P[1]))

    def un(P):
        return None if P is None else (int(P[0]), int(P[1]))
    cases = []
    if pt:
        g = lambda n: int(pt.get(n, rng.randrange(1, p))) % p
        a, b = (g("x1"), g("y1")), (g("x2"), g("y2"))
        cases += [(a, b), (a, a), (a, (a[0], -a[1] % p))]
    for _ in range(6):
        a = (rng.randrange(1, p), rng.randrange(1, p))
        b = (rng.randrange(1, p), rng.randrange(1, p))
        cases += [(a, b), (a, a), (a, (a[0], -a[1] % p)), (None, b), (a, None), (None, None)]
    for a in ((0, 0), (0, 5), (7, 0), (1, 1)):
        try:
            bb = (a[1] ** 2 - a[0] ** 3) % p
            if m.is_on_curve(mk(a), FQ(bb)) is not True or m.is_on_curve(mk(a), FQ(bb + 1)) is not False or m.is_inf(mk(a)):
                bad.append(("is_on_curve / is_inf on a finite pair with zero coordinates", a))
        except Exception as e:
            bad.append((repr(e)[:60], a))
    for a, b in cases:
        try:
            got = un(m.add(mk(a), mk(b)))
            exp = aff_add(a, b, p)
            if got != exp:
                bad.append(("add", a and a[0] % 1000, b and b[0] % 1000))
            if a is not None:
                if un(m.double(mk(a))) != aff_add(a, a, p):
                    bad.append(("double", a[0] % 1000))
                if un(m.neg(mk(a))) != (a[0], -a[1] % p):
                    bad.append(("neg",))
                if m.eq(mk(a), mk(a)) is not True or (b is not None and bool(m.eq(mk(a), mk(b))) != (a == b)) or m.eq(mk(a), None) or not m.eq(None, None):
                    bad.append(("eq",))
                bb = (a[1] ** 2 - a[0] ** 3) % p
                if not m.is_on_curve(mk(a), FQ(bb)) or m.is_on_curve(mk(a), FQ(bb + 1)):
                    bad.append(("is_on_curve",))
        except Exception as e:
            bad.append((repr(e)[:60],))
    return (len(bad) > 0), "c07_ref %s: %d mismatches %s" % (args["curve"], len(bad), str(bad[:3])[:200])


def replay_c07_multiply(args):
    m = importlib.import_module(args["module"])
    p = m.field_modulus
    opt = "optimized" in args["module"]
    bad = []
    g = (int(m.G1[0]), int(m.G1[1]))
    ns = [0, 1, 2, 3, 4, 5, 7, 8, 15, 16, 17, 31, 255, 256, 2 ** 64 + 1, m.curve_order - 1, m.curve_order, m.curve_order + 1, 2 * p - m.curve_order, 2 ** 300 + 12345]
    if args.get("n"):
        ns.insert(0, int(args["n"]))
    FQ = m.FQ
    # base points: the generator, and an arbitrary pair (a point of SOME curve y^2 = x^3 + b' of unknown order: the
    # formulas do not use b, and multiply(P, n) must be the n-fold sum without any reduction of n)
    bases = [g, (12345, 67890), (0, 2)]
    for base in bases:
        for n in ns:
            exp = aff_mul(base, n, p)
            try:
                pt = (FQ(base[0]), FQ(base[1]), FQ(1)) if opt else (FQ(base[0]), FQ(base[1]))
                r = m.multiply(pt, n)
                got = _proj_to_aff_int(r, p) if opt else (None if r is None else (int(r[0]), int(r[1])))
            except Exception as e:
                got = repr(e)[:40]
            if got != exp:
                bad.append((base[0] % 100000, n if n < 10 ** 6 else "big(%d bits)" % n.bit_length(),))
    return (len(bad) > 0), "c07_multiply %s: %d mismatches %s" % (args["module"], len(bad), str(bad[:4])[:200])


def replay_c07_twist(args):
    """twist against an independent computation: it must map E'(F_p^2) points to points of y^2 = x^3 + b over F_p^12, be additive and injective."""
    curve, impl = args["curve"], args["impl"]
    m = importlib.import_module({("ref", "bn128"): "py_ecc.bn128.bn128_curve", ("ref", "bls12_381"): "py_ecc.bls12_381.bls12_381_curve",
                                 ("opt", "bn128"): "py_ecc.optimized_bn128.optimized_curve", ("opt", "bls12_381"): "py_ecc.optimized_bls12_381.optimized_curve"}[(impl, curve)])
    bad = []
    P = m.G2
    Q = m.multiply(m.G2, 5)
    S = m.add(P, Q)
    tw = m.twist
    try:
        for X in (P, Q, S, m.double(P), m.neg(Q)):
            if not m.is_on_curve(tw(X), m.b12):
                bad.append(("twist not on curve",))
        if not m.eq(m.add(tw(P), tw(Q)), tw(S)):
            bad.append(("not additive",))
        if not m.eq(m.double(tw(P)), tw(m.double(P))):
            bad.append(("double",))
        if not m.eq(m.neg(tw(P)), tw(m.neg(P))):
            bad.append(("neg",))
        if m.eq(tw(P), tw(Q)):
            bad.append(("not injective",))
        # coefficient structure: psi(c0 + c1 i) = (c0 - k c1) + c1 w^6
        k = 9 if curve == "bn128" else 1
        p = m.field_modulus
        x = P[0]
        c0, c1 = int(x.coeffs[0]), int(x.coeffs[1])
        w = m.FQ12([0, 1] + [0] * 10)
        if [int(c) for c in m.w.coeffs] != [0, 1] + [0] * 10:
            bad.append(("module constant w is not the adjoined root",))
        if impl == "ref":
            tx = tw((P[0], P[1]))[0]
            base = tx * (w ** 2) if curve == "bls12_381" else tx
            shift = 0 if curve == "bls12_381" else 2
        else:
            tx = tw(P)[0]
            base = tx
            shift = 1 if curve == "bls12_381" else 2
        exp = [0] * 12
        exp[shift] = (c0 - k * c1) % p
        exp[shift + 6] = c1 % p
        if [int(c) for c in base.coeffs] != exp:
            bad.append(("coefficients",))
        if impl == "opt":
            # every projective representative twists to the same point (incl. purely real / purely imaginary z)
            t0 = tw(P)
            for lam in ([0, 5], [3, 0], [2, 7], [1, 1]):
                L = m.FQ2(lam)
                t1 = tw((P[0] * L, P[1] * L, P[2] * L))
                if t0[0] * t1[2] != t1[0] * t0[2] or t0[1] * t1[2] != t1[1] * t0[2] or t1[2] == m.FQ12.zero():
                    bad.append(("twist depends on the representative", lam))
        # y coordinate and cross-module agreement: affine twist = (psi(x) u^2, psi(y) u^3) with the standard u
        T = tw((P[0], P[1])) if impl == "ref" else tw(P)
        if impl == "opt":
            T = (T[0] / T[2], T[1] / T[2])
        y = P[1] if impl == "ref" else P[1] / P[2]
        d0, d1 = int(y.coeffs[0]), int(y.coeffs[1])
        psi_y = m.FQ12([(d0 - k * d1) % p] + [0] * 5 + [d1 % p] + [0] * 5)
        if curve == "bls12_381":
            if T[1] * (w ** 3) != psi_y:
                bad.append(("y coordinate is not psi(y) / w^3",))
        elif T[1] != psi_y * (w ** 3):
            bad.append(("y coordinate is not psi(y) * w^3",))
    except Exception as e:
        bad.append((repr(e)[:60],))
    return (len(bad) > 0), "c07_twist %s %s: %s" % (impl, curve, bad[:3])


def replay_c07_consts(args):
    bad = []
    for name in ("py_ecc.bn128", "py_ecc.bls12_381", "py_ecc.optimized_bn128", "py_ecc.optimized_bls12_381"):
        m = importlib.import_module(name)
        try:
            if not (m.is_inf(m.multiply(m.G1, m.curve_order)) and m.is_inf(m.multiply(m.G2, m.curve_order)) and m.is_on_curve(m.G12, m.b12)):
                bad.append((name, "generator order / curve"))
        except Exception as e:
            bad.append((name, repr(e)[:50]))
    from py_ecc.optimized_bls12_381 import G1, field_modulus, curve_order
    if field_modulus != 0x1a0111ea397fe69a4b1ba7b6434bacd764774b84f38512bf6730d2a0f6b0f6241eabfffeb153ffffb9feffffffffaaab or int(G1[0]) != 0x17f1d3a73197d7942695638c4fa9ac0fc3688c4f9774b905a14e3a3f171bac586c55e83ff97a1aeffb3af00adb22c6bb:
        bad.append(("bls12-381 constants",))
    return (len(bad) > 0), "c07_consts: %s" % bad[:3]


def replay_c17_subgroup(args):
    from py_ecc.bls.g2_primitives import subgroup_check
    from py_ecc.optimized_bls12_381 import G1, G2, Z1, Z2, FQ, FQ2, multiply, add, curve_order, is_inf
    bad = []
    T2 = _g2_torsion_point()
    T1 = (FQ(0), FQ(2), FQ(1))
    q = _Q381
    # a second G1 torsion point of larger order
    x = 1
    T1b = None
    while T1b is None:
        t = (x ** 3 + 4) % q
        y = pow(t, (q + 1) // 4, q)
        if y * y % q == t:
            P = multiply((FQ(x), FQ(y), FQ(1)), curve_order)
            if not is_inf(P):
                T1b = P
        x += 1
    good = [G1, G2, Z1, Z2, multiply(G1, 5), multiply(G2, curve_order - 1), (FQ(7), FQ(9), FQ(0)), multiply(multiply(G1, 3), 1)]
    badpts = [T1, T1b, T2, add(G1, T1b), add(multiply(G2, 77), T2), tuple(c * 5 for c in add(G1, T1))]
    for P in good:
        if subgroup_check(P) is not True:
            bad.append(("rejected subgroup point",))
    for P in badpts:
        if subgroup_check(P) is not False:
            bad.append(("accepted point with cofactor component",))
    return (len(bad) > 0), "c17_subgroup: %d wrong answers %s" % (len(bad), bad[:3])


def replay_c17_clear(args):
    from py_ecc.bls.g2_primitives import subgroup_check
    from py_ecc.optimized_bls12_381 import FQ, FQ2, multiply, normalize, is_inf, multiply_clear_cofactor_G1, multiply_clear_cofactor_G2
    from py_ecc.optimized_bls12_381 import constants as cst
    q = _Q381
    bad = []
    if cst.H_EFF_G1 != 0xd201000000010001 or cst.H_EFF_G2 != 0xbc69f08f2ee75b3584c6a0ea91b352888e2a8e9145ad7689986ff031508ffe1329c2f178731db956d82bf015d1212b02ec0ec69d7477c1ae954cbc06689f6a359894c0adebbf6b4e8020005aaa95551:
        bad.append(("h_eff constants",))
    n = 0
    x = 1
    while n < 3:
        t = (x ** 3 + 4) % q
        y = pow(t, (q + 1) // 4, q)
        if y * y % q == t:
            P = (FQ(x), FQ(y), FQ(1))
            C = multiply_clear_cofactor_G1(P)
            if not subgroup_check(C):
                bad.append(("G1 clearing leaves the subgroup", x))
            if normalize(C) != normalize(multiply(P, 0xd201000000010001)):
                bad.append(("G1 clearing is not h_eff * P", x))
            n += 1
        x += 1
    for kind, xx, yy in _g2_special_points(q, 1)[:4]:
        P = (FQ2(list(xx)), FQ2(list(yy)), FQ2([1, 0]))
        C = multiply_clear_cofactor_G2(P)
        if not subgroup_check(C):
            bad.append(("G2 clearing leaves the subgroup", kind))
    # points already inside the prime-order subgroup, scaled representatives and the identity
    from py_ecc.optimized_bls12_381 import G1, G2, Z1, Z2
    HE2 = 0xbc69f08f2ee75b3584c6a0ea91b352888e2a8e9145ad7689986ff031508ffe1329c2f178731db956d82bf015d1212b02ec0ec69d7477c1ae954cbc06689f6a359894c0adebbf6b4e8020005aaa95551
    for k in (1, 7):
        P = multiply(G1, k)
        P = (P[0] * 5, P[1] * 5, P[2] * 5)
        if normalize(multiply_clear_cofactor_G1(P)) != normalize(multiply(P, 0xd201000000010001)):
            bad.append(("G1 clearing of a subgroup point is not h_eff * P", k))
        Q = multiply(G2, k)
        Q = (Q[0] * 3, Q[1] * 3, Q[2] * 3)
        if normalize(multiply_clear_cofactor_G2(Q)) != normalize(multiply(Q, HE2)):
            bad.append(("G2 clearing of a subgroup point is not h_eff * P", k))
    if not is_inf(multiply_clear_cofactor_G1(Z1)) or not is_inf(multiply_clear_cofactor_G2(Z2)):
        bad.append(("clearing the identity",))
    # the published cofactor constants against the values derived from the curve parameter and from point counting
    from py_ecc.bls import constants as bc
    xp = -0xd201000000010000
    h2 = (xp ** 8 - 4 * xp ** 7 + 5 * xp ** 6 - 4 * xp ** 4 + 6 * xp ** 3 - 4 * xp ** 2 - 4 * xp + 13) // 9
    if getattr(bc, "G2_COFACTOR", None) != h2:
        bad.append(("G2_COFACTOR differs from (x^8 - 4x^7 + 5x^6 - 4x^4 + 6x^3 - 4x^2 - 4x + 13)/9",))
    if HE2 != h2 * (3 * xp * xp - 3) or cst.H_EFF_G1 != 1 - xp:
        bad.append(("effective cofactors differ from h2 (3x^2 - 3) / 1 - x",))
    return (len(bad) > 0), "c17_clear: %d failures %s" % (len(bad), bad[:3])


# ---------------------------------------------------------------------------
# C10: RFC 9380 F.2 simplified SWU (straight-line, AB != 0) over plain integers, BLS12-381 G1 suite

_G1A = 0x144698a3b8e9433d693a02c96d4982b0ea985383ee66a8d8e8981aefd881ac98936f8da0e0f97f5cf428082d584c1d
_G1B = 0x12e2908d11688030018b12e8753eee3b2016c1f0f24f4070a0b9c14fcef35ef55a23215a316ceaa5d1cc48e98e172be0


def rfc_sswu_g1(u):
    p, A, B, Z = _Q381, _G1A, _G1B, 11
    inv0 = lambda a: pow(a, p - 2, p) if a % p else 0
    is_sq = lambda a: a % p == 0 or pow(a, (p - 1) // 2, p) == 1
    sqrt = lambda a: pow(a, (p + 1) // 4, p)
    tv1 = Z * u * u % p
    tv2 = tv1 * tv1 % p
    x1 = inv0((tv1 + tv2) % p)
    e1 = x1 == 0
    x1 = (x1 + 1) % p
    if e1:
        x1 = (-inv0(Z)) % p
    x1 = x1 * ((-B) * inv0(A) % p) % p
    gx1 = (x1 * x1 % p * x1 + A * x1 + B) % p
    x2 = tv1 * x1 % p
    tv2 = tv1 * tv2 % p
    gx2 = gx1 * tv2 % p
    if is_sq(gx1):
        x, y2 = x1, gx1
    else:
        x, y2 = x2, gx2
    y = sqrt(y2)
    assert y * y % p == y2
    if u % 2 != y % 2:
        y = (-y) % p
    return (x, y)


def replay_c10_map(args):
    from py_ecc.optimized_bls12_381 import FQ, optimized_swu_G1, iso_map_G1, is_on_curve, b
    p = _Q381
    rng = random.Random(10)
    bad = []
    w = (-pow(11, -1, p)) % p
    ts = [0, 1, 2, 3, p - 1, (p - 1) // 2, (p + 1) // 2] + [rng.randrange(p) for _ in range(12)]
    pt = args.get("point") or {}
    if "t" in pt:
        ts.insert(0, int(pt["t"]) % p)
    if pow(w, (p - 1) // 2, p) == 1:
        r = pow(w, (p + 1) // 4, p)
        ts += [r, p - r]
    for t in ts:
        try:
            N, Y, D = optimized_swu_G1(FQ(t))
            got = (int(N / D), int(Y / D))
            if got != rfc_sswu_g1(t):
                bad.append(("swu", t if t < 10 ** 6 else "big"))
            P = iso_map_G1(N, Y, D)
            if not is_on_curve(P, b):
                bad.append(("iso image off curve", t if t < 10 ** 6 else "big"))
        except Exception as e:
            bad.append((repr(e)[:50], t if t < 10 ** 6 else "big"))
    # field elements u whose SWU image lies in the rational kernel of the 11-isogeny: map_to_curve_G1(u) is the point at infinity
    try:
        from py_ecc.bls.hash_to_curve import map_to_curve_G1
        Zc = 11
        k = (-_G1B) * pow(_G1A, -1, p) % p
        sq = lambda a: pow(a, (p + 1) // 4, p) if pow(a % p, (p - 1) // 2, p) in (0, 1) else None
        us = []
        for xr, yr in _iso11_kernel_points():
            ws = []
            c1 = (xr * pow(k, -1, p) - 1) % p            # tv1 for x1 = x'
            if c1:
                disc = sq((1 + 4 * pow(c1, -1, p)) % p)
                if disc is not None:
                    ws += [(-1 + disc) * pow(2, -1, p) % p, (-1 - disc) * pow(2, -1, p) % p]
            disc = sq(((k - xr) ** 2 - 4 * k * (k - xr)) % p)   # k w^2 + (k - x') w + (k - x') = 0 for x2 = x'
            if disc is not None:
                ws += [(-(k - xr) + disc) * pow(2 * k, -1, p) % p, (-(k - xr) - disc) * pow(2 * k, -1, p) % p]
            for w_ in ws:
                u2 = w_ * pow(Zc, -1, p) % p
                u = sq(u2)
                if u is not None and u * u % p == u2:
                    for uu in (u, p - u):
                        if rfc_sswu_g1(uu)[0] == xr and uu not in us:
                            us.append(uu)
        for uu in us[:8]:
            P = map_to_curve_G1(FQ(uu))
            if int(P[2]) != 0:
                bad.append(("map_to_curve_G1(u) for u over the isogeny kernel is not the point at infinity", "on curve" if is_on_curve(P, b) else "OFF the curve"))
    except ImportError:
        pass
    return (len(bad) > 0), "c10_map: %d mismatches %s" % (len(bad), str(bad[:3])[:200])


def _iso11_kernel_points():
    """affine points (x, y) of the 11-isogenous curve E' whose abscissa is a root of the isogeny's x-denominator (rational kernel)."""
    p = _Q381
    rng = random.Random(5)
    from py_ecc.optimized_bls12_381.constants import ISO_11_MAP_COEFFICIENTS as K11
    xden = [int(c) % p for c in K11[1]]

    def pmod(a, f):
        a = list(a)
        df = len(f) - 1
        inv_lead = pow(f[-1], -1, p)
        while len(a) - 1 >= df and any(a):
            if a[-1]:
                q_ = a[-1] * inv_lead % p
                sh = len(a) - 1 - df
                for i, fi in enumerate(f):
                    a[sh + i] = (a[sh + i] - q_ * fi) % p
            a.pop()
        while len(a) > 1 and a[-1] == 0:
            a.pop()
        return a or [0]

    def pmulmod(a, b_, f):
        res = [0] * (len(a) + len(b_) - 1)
        for i, ai in enumerate(a):
            if ai:
                for j, bj in enumerate(b_):
                    res[i + j] = (res[i + j] + ai * bj) % p
        return pmod(res, f)

    def ppow(base, e, f):
        acc = [1]
        while e:
            if e & 1:
                acc = pmulmod(acc, base, f)
            base = pmulmod(base, base, f)
            e >>= 1
        return acc

    def pgcd(a, b_):
        while any(b_):
            a, b_ = b_, pmod(a, b_)
        return a

    def trim(h):
        h = list(h)
        while len(h) > 1 and h[-1] == 0:
            h.pop()
        return h
    f = trim(xden)
    t = ppow([0, 1], p, f)
    t = list(t) + [0] * max(0, 2 - len(t))
    t[1] = (t[1] - 1) % p
    g = trim(pgcd(f, t))
    roots, stack, tries = [], [g], 0
    while stack and tries < 300:
        h = trim(stack.pop())
        if len(h) <= 1:
            continue
        if len(h) == 2:
            roots.append((-h[0]) * pow(h[1], -1, p) % p)
            continue
        tries += 1
        c = rng.randrange(p)
        a = list(ppow(pmod([c, 1], h), (p - 1) // 2, h))
        a[0] = (a[0] - 1) % p
        d = trim(pgcd(h, a))
        if 1 < len(d) < len(h):
            qt, rem = [0] * (len(h) - len(d) + 1), list(h)
            invd = pow(d[-1], -1, p)
            for i in range(len(h) - len(d), -1, -1):
                qt[i] = rem[i + len(d) - 1] * invd % p
                for j, dj in enumerate(d):
                    rem[i + j] = (rem[i + j] - qt[i] * dj) % p
            stack += [d, qt]
        else:
            stack.append(h)
    out = []
    for xr in roots:
        gx = (xr ** 3 + _G1A * xr + _G1B) % p
        yr = pow(gx, (p + 1) // 4, p)
        if yr * yr % p == gx:
            out.append((xr, yr))
    return out


def replay_c10_iso(args):
    from py_ecc.optimized_bls12_381 import FQ, FQ2, iso_map_G1, iso_map_G2, optimized_swu_G1, optimized_swu_G2, is_on_curve, b, b2, normalize
    p = _Q381
    rng = random.Random(12)
    bad = []
    for _ in range(6):
        t = rng.randrange(p)
        N, Y, D = optimized_swu_G1(FQ(t))
        lam = rng.randrange(1, p)
        P1 = iso_map_G1(N, Y, D)
        P2 = iso_map_G1(N * lam, Y * lam, D * lam)
        if not is_on_curve(P1, b) or normalize(P1) != normalize(P2):
            bad.append(("G1", t % 1000))
        t2 = FQ2([rng.randrange(p), rng.randrange(p)])
        N, Y, D = optimized_swu_G2(t2)
        l2 = FQ2([rng.randrange(p), rng.randrange(1, p)])
        Q1 = iso_map_G2(N, Y, D)
        Q2 = iso_map_G2(N * l2, Y * l2, D * l2)
        if not is_on_curve(Q1, b2) or normalize(Q1) != normalize(Q2):
            bad.append(("G2",))
    # the rational kernel of the 11-isogeny: the projective map sends it to the point at infinity (z = 0); anything else
    # (e.g. an affine triple built with inv0) is off the curve
    for xr, yr in _iso11_kernel_points():
        for lam in (1, 5):
            P = iso_map_G1(FQ(xr * lam), FQ(yr * lam), FQ(lam))
            if int(P[2]) != 0 and not is_on_curve(P, b):
                bad.append(("G1 kernel point maps off the curve", xr % 1000))
            elif int(P[2]) != 0:
                bad.append(("G1 kernel point does not map to infinity", xr % 1000))
    return (len(bad) > 0), "c10_iso: %d failures %s" % (len(bad), bad[:3])


def replay_c10_pipeline(args):
    """hash_to_G2 / hash_to_G1 against the composition of the RFC steps, and the RFC 9380 J.10.1 vector."""
    import hashlib
    from py_ecc.bls.hash_to_curve import hash_to_G1, hash_to_G2, hash_to_field_FQ, hash_to_field_FQ2, map_to_curve_G1, map_to_curve_G2, clear_cofactor_G1, clear_cofactor_G2
    from py_ecc.optimized_bls12_381 import add, normalize
    from py_ecc.bls.g2_primitives import subgroup_check
    bad = []
    dst = b"QUUX-V01-CS02-with-BLS12381G2_XMD:SHA-256_SSWU_RO_"
    for hf in (hashlib.sha512, hashlib.sha384):
        u0, u1 = hash_to_field_FQ(b"abc", 2, dst, hf)
        if normalize(clear_cofactor_G1(add(map_to_curve_G1(u0), map_to_curve_G1(u1)))) != normalize(hash_to_G1(b"abc", dst, hf)):
            bad.append(("G1 with " + hf().name,))
        v0, v1 = hash_to_field_FQ2(b"abc", 2, dst, hf)
        if normalize(clear_cofactor_G2(add(map_to_curve_G2(v0), map_to_curve_G2(v1)))) != normalize(hash_to_G2(b"abc", dst, hf)):
            bad.append(("G2 with " + hf().name,))
    for msg in (b"", b"abc"):
        u0, u1 = hash_to_field_FQ2(msg, 2, dst, hashlib.sha256)
        exp = clear_cofactor_G2(add(map_to_curve_G2(u0), map_to_curve_G2(u1)))
        got = hash_to_G2(msg, dst, hashlib.sha256)
        if normalize(exp) != normalize(got) or not subgroup_check(got):
            bad.append(("G2", msg))
        u0, u1 = hash_to_field_FQ(msg, 2, dst, hashlib.sha256)
        exp = clear_cofactor_G1(add(map_to_curve_G1(u0), map_to_curve_G1(u1)))
        got = hash_to_G1(msg, dst, hashlib.sha256)
        if normalize(exp) != normalize(got) or not subgroup_check(got):
            bad.append(("G1", msg))
    x0 = 0x0141ebfbdca40eb85b87142e130ab689c673cf60f1a3e98d69335266f30d9b8d4ac44c1038e9dcdd5393faf5c41fb78a
    P = normalize(hash_to_G2(b"", dst, hashlib.sha256))
    if int(P[0].coeffs[0]) != x0:
        bad.append(("RFC 9380 J.10.1 vector",))
    return (len(bad) > 0), "c10_pipeline: %s" % bad[:3]


def _fq2_inv(a, q):
    n = (a[0] * a[0] + a[1] * a[1]) % q
    ni = pow(n, q - 2, q) if n else 0
    return (a[0] * ni % q, -a[1] * ni % q)


def _fq2_sgn0(a):
    return (a[0] % 2) | ((1 if a[0] == 0 else 0) & (a[1] % 2))


def rfc_sswu_g2(u):
    """RFC 9380 F.2 simplified SWU over F_p^2 for the BLS12381G2 suite: A' = 240 i, B' = 1012 (1 + i), Z = -(2 + i)."""
    q = _Q381
    A, B, Z = (0, 240), (1012, 1012), (q - 2, q - 1)
    add = lambda a, b: ((a[0] + b[0]) % q, (a[1] + b[1]) % q)
    neg = lambda a: (-a[0] % q, -a[1] % q)
    mul = lambda a, b: _fq2_mul(a, b, q)
    u = (u[0] % q, u[1] % q)
    tv1 = mul(Z, mul(u, u))
    tv2 = mul(tv1, tv1)
    x1 = add(tv1, tv2)
    x1 = _fq2_inv(x1, q)
    e1 = x1 == (0, 0)
    x1 = add(x1, (1, 0))
    if e1:
        x1 = neg(_fq2_inv(Z, q))
    x1 = mul(x1, mul(neg(B), _fq2_inv(A, q)))
    gx1 = add(add(mul(mul(x1, x1), x1), mul(A, x1)), B)
    x2 = mul(tv1, x1)
    tv2 = mul(tv1, tv2)
    gx2 = mul(gx1, tv2)
    r1 = _fq2_sqrt(gx1, q)
    if r1 is not None:
        x, y = x1, r1
    else:
        x, y = x2, _fq2_sqrt(gx2, q)
        assert y is not None
    if _fq2_sgn0(u) != _fq2_sgn0(y):
        y = neg(y)
    return (x, y)


_old_replay_c10_map = replay_c10_map


def replay_c10_map(args):
    if args.get("group") != "G2":
        return _old_replay_c10_map(args)
    from py_ecc.optimized_bls12_381 import FQ2, optimized_swu_G2, iso_map_G2, is_on_curve, b2
    q = _Q381
    rng = random.Random(102)
    bad = []
    ts = [(0, 0), (1, 0), (0, 1), (0, 3), (0, q - 1), (q - 1, 0), (2, 0), (0, 2), ((q - 1) // 2, 1), (1, (q + 1) // 2)] + \
         [(rng.randrange(q), rng.randrange(q)) for _ in range(10)]
    # roots of Z t^2 + 1
    w = _fq2_inv((2, 1), q)           # -1/Z = 1/(2+i)
    r = _fq2_sqrt(w, q)
    if r is not None:
        ts += [r, (-r[0] % q, -r[1] % q)]
    for t in ts:
        try:
            N, Y, D = optimized_swu_G2(FQ2(list(t)))
            x, y = N / D, Y / D
            got = (tuple(int(c) for c in x.coeffs), tuple(int(c) for c in y.coeffs))
            if got != rfc_sswu_g2(t):
                bad.append(("swu G2", (t[0] % 1000, t[1] % 1000)))
            if not is_on_curve(iso_map_G2(N, Y, D), b2):
                bad.append(("iso image off curve",))
        except Exception as e:
            bad.append((repr(e)[:50], (t[0] % 1000, t[1] % 1000)))
    return (len(bad) > 0), "c10_map G2: %d mismatches %s" % (len(bad), str(bad[:3])[:200])


# ---------------------------------------------------------------------------
# pairings (real, slow: a reference pairing costs ~10 s)

_PAIR_MODS = {("ref", "bn128"): "py_ecc.bn128", ("ref", "bls12_381"): "py_ecc.bls12_381", ("opt", "bn128"): "py_ecc.optimized_bn128",
              ("opt", "bls12_381"): "py_ecc.optimized_bls12_381"}


def replay_c05_guards(args):
    m = importlib.import_module(_PAIR_MODS[(args["impl"], args["curve"])])
    one = m.FQ12.one()
    bad = []
    opt = args["impl"] == "opt"
    offP = (m.FQ(1), m.FQ(1), m.FQ(1)) if opt else (m.FQ(1), m.FQ(1))
    offQ = (m.FQ2([1, 1]), m.FQ2([1, 2]), m.FQ2.one()) if opt else (m.FQ2([1, 1]), m.FQ2([1, 2]))
    cases = [(offQ, m.G1, "Q off curve"), (m.G2, offP, "P off curve"), (offQ, offP, "both off curve")]
    if opt:
        s2, s1 = m.FQ2([3, 5]), m.FQ(7)
        cases += [(tuple(c * s2 for c in offQ), m.G1, "Q off curve, z != 1"), (m.G2, tuple(c * s1 for c in offP), "P off curve, z != 1"),
                  ((m.FQ2.one(), m.FQ2.one(), m.FQ2.zero()), offP, "Q infinity, P off curve"), (offQ, (m.FQ.one(), m.FQ.one(), m.FQ.zero()), "P infinity, Q off curve")]
    else:
        cases += [(None, offP, "Q infinity, P off curve"), (offQ, None, "P infinity, Q off curve")]
    for Q, P, nm in cases:
        try:
            m.pairing(Q, P)
            bad.append((nm, "paired"))
        except ValueError:
            pass
        except Exception as e:
            bad.append((nm, repr(e)[:40]))
    infs = [((m.FQ2.one(), m.FQ2.one(), m.FQ2.zero()), m.G1), (m.G2, (m.FQ.one(), m.FQ.one(), m.FQ.zero())), ((m.FQ2([3, 4]), m.FQ2([5, 6]), m.FQ2.zero()), m.G1)] if opt else \
        [(None, m.G1), (m.G2, None)]
    for Q, P in infs:
        try:
            if m.pairing(Q, P) != one:
                bad.append(("infinity not unit",))
        except Exception as e:
            bad.append(("infinity", repr(e)[:40]))
    return (len(bad) > 0), "c05_guards %s: %s" % (args, bad[:3])


def replay_c05_linefunc(args):
    m = importlib.import_module(_PAIR_MODS[("ref", args["curve"])])
    pm = importlib.import_module(_PAIR_MODS[("ref", args["curve"])] + "." + ("bn128_pairing" if args["curve"] == "bn128" else "bls12_381_pairing"))
    p = m.field_modulus
    FQ = m.FQ
    rng = random.Random(5)
    bad = []
    for _ in range(10):
        a, b, t = [(rng.randrange(1, p), rng.randrange(1, p)) for _ in range(3)]
        for P1, P2 in ((a, b), (a, a), (a, (a[0], -a[1] % p))):
            got = int(pm.linefunc((FQ(P1[0]), FQ(P1[1])), (FQ(P2[0]), FQ(P2[1])), (FQ(t[0]), FQ(t[1]))))
            if (P1[0] - P2[0]) % p:
                mm = (P2[1] - P1[1]) * _inv(P2[0] - P1[0], p) % p
                exp = (mm * (t[0] - P1[0]) - (t[1] - P1[1])) % p
            elif (P1[1] - P2[1]) % p == 0:
                mm = 3 * P1[0] ** 2 * _inv(2 * P1[1], p) % p
                exp = (mm * (t[0] - P1[0]) - (t[1] - P1[1])) % p
            else:
                exp = (t[0] - P1[0]) % p
            if got != exp:
                bad.append((P1[0] % 1000,))
    return (len(bad) > 0), "c05_linefunc %s: %d mismatches" % (args["curve"], len(bad))


def replay_c05_pairing(args):
    """bilinearity / non-degeneracy / optimized = reference on a few scalars through the real pairings."""
    impl, curve = args["impl"], args["curve"]
    m = importlib.import_module(_PAIR_MODS[(impl, curve)])
    one = m.FQ12.one()
    bad = []
    try:
        e11 = m.pairing(m.G2, m.G1)
        if e11 == one:
            bad.append(("degenerate",))
        if m.pairing(m.multiply(m.G2, 3), m.multiply(m.G1, 5)) != e11 ** 15:
            bad.append(("bilinearity 3,5",))
        if m.pairing(m.G2, m.neg(m.G1)) * e11 != one:
            bad.append(("negation",))
        if e11 ** m.curve_order != one:
            bad.append(("order",))
        if impl == "opt":
            ref = importlib.import_module(_PAIR_MODS[("ref", curve)])
            r11 = ref.pairing(ref.G2, ref.G1)
            if [int(c) for c in r11.coeffs] != [int(c) for c in e11.coeffs]:
                bad.append(("optimized != reference",))
            a = m.pairing(m.G2, m.G1, final_exponentiate=False) * m.pairing(m.multiply(m.G2, 2), m.G1, final_exponentiate=False)
            if m.final_exponentiate(a) != e11 ** 3:
                bad.append(("split final exponentiation",))
    except Exception as e:
        bad.append((repr(e)[:60],))
    return (len(bad) > 0), "c05_pairing %s %s: %s" % (impl, curve, bad[:3])


replay_c12_pairing = lambda args: replay_c05_pairing({"impl": "opt", "curve": args["curve"]})


def replay_c12_finalexp(args):
    from py_ecc.optimized_bls12_381 import optimized_pairing as pm
    from py_ecc.optimized_bls12_381 import FQ12, field_modulus as p, curve_order as r
    rng = random.Random(12)
    bad = []
    for x in (FQ12([rng.randrange(p) for _ in range(12)]), FQ12([3] + [0] * 11), FQ12([0, 1] + [0] * 10), FQ12.one()):
        if pm.exp_by_p(x) != x ** p:
            bad.append(("exp_by_p",))
        if pm.final_exponentiate(x) != x ** ((p ** 12 - 1) // r):
            bad.append(("final_exponentiate",))
    if pm.exp_by_p(FQ12.zero()) != FQ12.zero():
        bad.append(("exp_by_p(0)",))
    # sparse / unit-coefficient shapes
    for cs in ([3, 0, 0, 0, 0, 0, 5, 0, 0, 0, 0, 0], [0, 0, 0, 0, 0, 0, 1, 0, 0, 0, 0, 0], [7, 0, 0, 0, 0, 0, p - 2, 0, 0, 0, 0, 0], [0, 0, 0, 4, 0, 0, 0, 0, 0, 9, 0, 0],
               [2, 1] + [0] * 10, [5] * 11 + [1], [1] * 12, [0, 0, 1, 0, 0, 0, 0, 7, 0, 0, 0, 1], [p - 1, 1, p - 1, 1] + [0] * 8):
        x = FQ12(cs)
        if pm.exp_by_p(x) != x ** p:
            bad.append(("exp_by_p on unit / sparse coefficients", cs[:4]))
    # the other three modules: final_exponentiate is the plain power
    for name in ("py_ecc.optimized_bn128.optimized_pairing", "py_ecc.bn128.bn128_pairing", "py_ecc.bls12_381.bls12_381_pairing"):
        m = importlib.import_module(name)
        x = m.FQ12([rng.randrange(m.field_modulus) for _ in range(12)])
        if m.final_exponentiate(x) != x ** ((m.field_modulus ** 12 - 1) // m.curve_order):
            bad.append(("final_exponentiate", name))
    return (len(bad) > 0), "c12_finalexp: %s" % bad[:3]


def replay_c20_purity(args):
    """concrete frame monitor over the public API on the real code: state before == state after, arguments unchanged,
    a second call gives an equal result, also after interleaving other calls."""
    from checks import statefp
    import py_ecc
    from py_ecc import bn128, bls12_381, optimized_bn128, optimized_bls12_381, secp256k1
    from py_ecc import bls
    import hashlib
    from py_ecc.bls import hash as H, hash_to_curve as h2c, point_compression as pc, g2_primitives as g2p
    bad = []
    base = statefp.state_fp()
    S = bls.G2ProofOfPossession
    ob = optimized_bls12_381
    sk = 12345
    pk = S.SkToPk(sk)
    sig = S.Sign(sk, b"m")
    pairs = sorted([(pk, b"m", sk), (S.SkToPk(7), b"n", 7), (S.SkToPk(9), b"o", 9)], reverse=True)      # descending: an in-place sort would be visible
    keys, msgs = [p_[0] for p_ in pairs], [p_[1] for p_ in pairs]
    agg = S.Aggregate([S.Sign(p_[2], p_[1]) for p_ in pairs])
    agg_same = S.Aggregate([S.Sign(p_[2], b"m") for p_ in pairs])
    A_ = bls.G2MessageAugmentation
    agg_aug = A_.Aggregate([A_.Sign(p_[2], p_[1]) for p_ in pairs])
    calls = []
    for m in (bn128, bls12_381, optimized_bn128, optimized_bls12_381):
        calls += [(m.__name__ + ".add", lambda m=m: m.add(m.G1, m.multiply(m.G1, 2))), (m.__name__ + ".multiply", lambda m=m: m.multiply(m.G2, 9)),
                  (m.__name__ + ".twist", lambda m=m: m.twist(m.G2)), (m.__name__ + ".neg", lambda m=m: m.neg(m.G1)), (m.__name__ + ".double", lambda m=m: m.double(m.G2)),
                  (m.__name__ + ".FQ12 ops", lambda m=m: (m.FQ12([1, 2] + [0] * 10) * m.FQ12([3] * 12)).inv() ** 5),
                  (m.__name__ + ".FQ2 ops", lambda m=m: (-(m.FQ2([1, 2]) / m.FQ2([3, 4])), m.FQ2([5, 6]) ** 9, m.FQ(3) / m.FQ(7)))]
    calls += [("optimized pairing", lambda: ob.pairing(ob.G2, ob.G1)), ("final_exponentiate", lambda: ob.final_exponentiate(ob.FQ12([2] * 12))),
              ("hash_to_G2", lambda: h2c.hash_to_G2(b"msg", b"DST", hashlib.sha256)), ("hash_to_G1", lambda: h2c.hash_to_G1(b"msg", b"DST", hashlib.sha256)),
              ("expand_message_xmd", lambda: H.expand_message_xmd(b"m", b"d", 77, hashlib.sha256)), ("hkdf", lambda: bytes(H.hkdf_expand(H.hkdf_extract(b"s", b"i"), b"x", 70))),
              ("compress/decompress", lambda: (pc.decompress_G1(pc.compress_G1(ob.G1)), pc.decompress_G2(pc.compress_G2(ob.G2)))),
              ("KeyGen", lambda: S.KeyGen(b"\x01" * 32)), ("SkToPk", lambda: S.SkToPk(sk)), ("Sign", lambda: S.Sign(sk, b"m")), ("Verify", lambda: S.Verify(pk, b"m", sig)),
              ("AggregateVerify", lambda: S.AggregateVerify(keys, msgs, agg)), ("FastAggregateVerify", lambda: S.FastAggregateVerify(keys, b"m", agg_same)),
              ("Aggregate", lambda: S.Aggregate([sig, sig])), ("PopProve/PopVerify", lambda: S.PopVerify(pk, S.PopProve(sk))),
              ("G2Basic", lambda: bls.G2Basic.Verify(bls.G2Basic.SkToPk(5), b"x", bls.G2Basic.Sign(5, b"x"))),
              ("G2MessageAugmentation", lambda: bls.G2MessageAugmentation.AggregateVerify(keys, msgs, agg_aug)),
              ("secp256k1", lambda: (secp256k1.privtopub(b"\x05" * 32), secp256k1.ecdsa_raw_recover(b"\x01" * 32, secp256k1.ecdsa_raw_sign(b"\x01" * 32, b"\x05" * 32)),
                                      secp256k1.multiply(secp256k1.G, -3), secp256k1.add(secp256k1.G, secp256k1.G))),
              ("swu/iso", lambda: (ob.optimized_swu_G2(ob.FQ2([1, 2])), ob.iso_map_G1(ob.FQ(1), ob.FQ(2), ob.FQ(3))))]
    from eth_utils import ValidationError

    def refused(fn_):
        try:
            fn_()
        except ValidationError:
            return "refused"
        return "ok"
    bad_sk = int(args["sk"]) if str(args.get("sk", "")).lstrip("-").isdigit() else 0
    for bsk in (bad_sk, 0, _R, -1):
        calls += [("refusing PopProve(%d...)" % (bsk % 1000), lambda bsk=bsk: refused(lambda: S.PopProve(bsk))),
                  ("refusing Sign(%d...)" % (bsk % 1000), lambda bsk=bsk: refused(lambda: bls.G2Basic.Sign(bsk, b"m"))),
                  ("Sign after a refusal (%d...)" % (bsk % 1000), lambda: S.Sign(sk, b"m"))]
    # constructors must not rewrite caller-owned lists
    from py_ecc import fields as F_

    def ctor_keeps_list(K, n):
        lst = [-1 - i for i in range(n)]
        keep = list(lst)
        K(lst)
        return lst == keep
    for nm in ("bn128_FQ2", "optimized_bn128_FQ2", "bls12_381_FQ12", "optimized_bls12_381_FQ12"):
        K = getattr(F_, nm)
        calls.append((nm + " constructor keeps the caller's list", lambda K=K: ctor_keeps_list(K, K.degree)))
    # ad-hoc instantiations in both orders
    from py_ecc.fields import field_elements as refM_, optimized_field_elements as optM_

    def adhoc(Mx, order):
        outs = []
        for mc in order:
            T = type("AdHoc", (Mx.FQ2,), {"field_modulus": 7, "FQ2_MODULUS_COEFFS": mc})
            x = T([0, 1])
            outs.append((mc, [int(c) for c in (x * x).coeffs]))
        return sorted(outs)
    for Mx in (refM_, optM_):
        calls.append((Mx.__name__ + " ad-hoc GF(7^2) with two moduli (order A)", lambda Mx=Mx: adhoc(Mx, [(1, 0), (2, 0)])))
        calls.append((Mx.__name__ + " ad-hoc GF(7^2) with two moduli (order B)", lambda Mx=Mx: adhoc(Mx, [(2, 0), (1, 0)])))
        exp = sorted([((1, 0), [6, 0]), ((2, 0), [5, 0])])
        calls.append((Mx.__name__ + " ad-hoc values", lambda Mx=Mx, exp=exp: adhoc(Mx, [(2, 0), (1, 0)]) == exp and adhoc(Mx, [(1, 0), (2, 0)]) == exp))
    first = {}
    for name, th in calls:
        k0, m0 = list(keys), list(msgs)
        before = statefp.state_fp()
        try:
            r = th()
        except Exception as e:
            r = ("raised", repr(e)[:60])
        after = statefp.state_fp()
        d = statefp.diff(before, after)
        if d:
            bad.append((name, "module state changed", d[:2]))
        if keys != k0 or msgs != m0:
            bad.append((name, "argument lists mutated"))
        first[name] = statefp._val(r)
    # history independence: second round in reverse order
    for name, th in reversed(calls):
        try:
            r = th()
        except Exception as e:
            r = ("raised", repr(e)[:60])
        v = statefp._val(r)
        if repr(v) != repr(first[name]):
            bad.append((name, "result differs on a later call"))
    d = statefp.diff(base, statefp.state_fp())
    if d:
        bad.append(("final", "state differs from the post-import snapshot", d[:3]))
    for name, v in first.items():
        if v is False:
            bad.append((name, "returned False"))
    if args.get("what") == "sources":
        import os
        found, allowed, n = statefp.scan_sources(os.path.dirname(os.path.dirname(py_ecc.__file__)))
        if found:
            bad.append(("sources", found[:2]))
    return (len(bad) > 0), "c20_purity: %d findings %s" % (len(bad), str(bad[:3])[:300])



def replay_bls_vectors(args):
    """SkToPk / Sign / PopProve against the IETF definition evaluated directly: tags written out literally, hash_to_G2 and
    the compressed encodings called with the expected arguments; includes messages that start with the signer's public key."""
    import hashlib
    from py_ecc import bls
    from py_ecc.bls.hash_to_curve import hash_to_G2
    from py_ecc.bls.g2_primitives import G1_to_pubkey, G2_to_signature
    from py_ecc.optimized_bls12_381 import G1, multiply
    tags = {"G2Basic": b"BLS_SIG_BLS12381G2_XMD:SHA-256_SSWU_RO_NUL_", "G2MessageAugmentation": b"BLS_SIG_BLS12381G2_XMD:SHA-256_SSWU_RO_AUG_",
            "G2ProofOfPossession": b"BLS_SIG_BLS12381G2_XMD:SHA-256_SSWU_RO_POP_"}
    pop_tag = b"BLS_POP_BLS12381G2_XMD:SHA-256_SSWU_RO_POP_"
    bad = []
    for sk in (1, 0x1234567, _R - 1):
        pk = G1_to_pubkey(multiply(G1, sk))
        for name, tag in tags.items():
            S = getattr(bls, name)
            if S.SkToPk(sk) != pk:
                bad.append((name, "SkToPk", sk))
            for msg in (b"", b"abc", pk, pk + b"tail", b"\x00" * 64):
                m2 = pk + msg if name == "G2MessageAugmentation" else msg
                exp = G2_to_signature(multiply(hash_to_G2(m2, tag, hashlib.sha256), sk))
                if S.Sign(sk, msg) != exp:
                    bad.append((name, "Sign", len(msg)))
        exp = G2_to_signature(multiply(hash_to_G2(pk, pop_tag, hashlib.sha256), sk))
        if bls.G2ProofOfPossession.PopProve(sk) != exp:
            bad.append(("PopProve", sk))
        if sk == 1:
            # the same message bytes signed back to back under different tags (history: a memo keyed on the message alone)
            if bls.G2ProofOfPossession.Sign(sk, pk) != G2_to_signature(multiply(hash_to_G2(pk, tags["G2ProofOfPossession"], hashlib.sha256), sk)):
                bad.append(("Sign after PopProve of the same bytes", sk))
            if bls.G2ProofOfPossession.PopProve(sk) != exp:
                bad.append(("PopProve after Sign of the same bytes", sk))
            for name in ("G2Basic", "G2ProofOfPossession", "G2Basic"):
                if getattr(bls, name).Sign(sk, b"same bytes") != G2_to_signature(multiply(hash_to_G2(b"same bytes", tags[name], hashlib.sha256), sk)):
                    bad.append((name, "Sign of the same bytes under alternating tags"))
        if len(bad) > 3:
            break
    return (len(bad) > 0), "bls_vectors: %d mismatches %s" % (len(bad), str(bad[:3])[:200])


def replay_c07_small(args):
    """exhaustive concrete run of the reference curve functions over a small curve."""
    from py_ecc.fields import field_elements as fe
    m = importlib.import_module(_REF_MODS[args["curve"]])
    p, b = args["p"], args["b"]
    T = type("SmallFQ", (fe.FQ,), {"field_modulus": p})
    pts = [None] + [(x, y) for x in range(p) for y in range(p) if (y * y - x * x * x - b) % p == 0]
    mk = lambda P: None if P is None else (T(P[0]), T(P[1]))
    un = lambda P: None if P is None else (int(P[0]), int(P[1]))
    bad = []
    for P in pts:
        for Q in pts:
            try:
                s = un(m.add(mk(P), mk(Q)))
                if s != aff_add(P, Q, p) or s != un(m.add(mk(Q), mk(P))) or (s is not None and s not in pts):
                    bad.append(("add", P, Q))
                for R_ in pts:
                    if un(m.add(m.add(mk(P), mk(Q)), mk(R_))) != un(m.add(mk(P), m.add(mk(Q), mk(R_)))):
                        bad.append(("assoc", P, Q, R_))
            except Exception as e:
                bad.append((repr(e)[:40], P, Q))
    return (len(bad) > 0), "c07_small GF(%d) b=%d: %d failures %s" % (p, b, len(bad), str(bad[:2])[:200])


def replay_c18_small(args):
    """the secp256k1 module with its constants rebound to a small prime-order curve, enumerated concretely against an affine oracle."""
    from py_ecc.secp256k1 import secp256k1 as sp
    p, b, N = args["p"], args["b"], args["N"]
    pts = [(x, y) for x in range(p) for y in range(p) if (y * y - x * x * x - b) % p == 0]
    saved = {k: getattr(sp, k) for k in ("P", "N", "A", "B", "Gx", "Gy", "G")}
    bad = []
    try:
        sp.P, sp.N, sp.A, sp.B, sp.Gx, sp.Gy, sp.G = p, N, 0, b, pts[0][0], pts[0][1], pts[0]
        allp = [(0, 0)] + pts
        o = lambda Q: None if Q == (0, 0) else Q
        e = lambda Q: (0, 0) if Q is None else Q
        for A_ in allp:
            for B_ in allp:
                if tuple(sp.add(A_, B_)) != e(aff_add(o(A_), o(B_), p)):
                    bad.append(("add", A_, B_))
                for z1 in range(1, p):
                    Aj = (A_[0] * z1 * z1 % p, A_[1] * z1 ** 3 % p, z1)
                    Bj = (B_[0] * 4 % p, B_[1] * 8 % p, 2)
                    if A_ != (0, 0) and B_ != (0, 0) and tuple(sp.from_jacobian(sp.jacobian_add(Aj, Bj))) != e(aff_add(o(A_), o(B_), p)):
                        bad.append(("jacobian_add", A_, B_, z1))
            for n in range(-N - 3, 2 * N + 4):
                exp = None
                for _ in range(n % N):
                    exp = aff_add(exp, o(A_), p)
                if tuple(sp.multiply(A_, n)) != e(exp):
                    bad.append(("multiply", A_, n))
    except Exception as ex:
        bad.append((repr(ex)[:60],))
    finally:
        for k, v in saved.items():
            setattr(sp, k, v)
    return (len(bad) > 0), "c18_small GF(%d): %d mismatches %s" % (p, len(bad), str(bad[:3])[:200])


def replay_c07_small_opt(args):
    """optimized projective module vs independent affine arithmetic, exhaustively on a small curve."""
    from py_ecc.fields import optimized_field_elements as ofe
    m = importlib.import_module(_CURVE_MODS[args["curve"]])
    p, b = args["p"], args["b"]
    T = type("SmallOptFQ", (ofe.FQ,), {"field_modulus": p})
    pts = [None] + [(x, y) for x in range(p) for y in range(p) if (y * y - x * x * x - b) % p == 0]
    reps = lambda P: [(T(1), T(1), T(0)), (T(3), T(0), T(0))] if P is None else [(T(P[0] * z), T(P[1] * z), T(z)) for z in range(1, p)]

    def un(S):
        if int(S[2]) == 0:
            return None
        zi = pow(int(S[2]), p - 2, p)
        return (int(S[0]) * zi % p, int(S[1]) * zi % p)
    bad = []
    try:
        for P in pts:
            for Pr in reps(P)[:3]:
                for Q in pts:
                    for Qr in reps(Q)[:3]:
                        if un(m.add(Pr, Qr)) != aff_add(P, Q, p):
                            bad.append(("add", P, Q))
                if un(m.double(Pr)) != aff_add(P, P, p):
                    bad.append(("double", P))
                for n in range(0, 22):
                    if un(m.multiply(Pr, n)) != aff_mul(P, n, p):
                        bad.append(("multiply", P, n))
    except Exception as e:
        bad.append((repr(e)[:60],))
    return (len(bad) > 0), "c07_small_opt GF(%d): %d failures %s" % (p, len(bad), str(bad[:3])[:200])


def replay_c18_cases(args):
    """secp256k1.add on real curve points whose abscissae differ by the model's difference (and by N, P - N, 1), against the affine law."""
    from py_ecc.secp256k1 import secp256k1 as sp
    bad = []
    diffs = [_SN, _SP - _SN, 1, 2]
    try:
        diffs.insert(0, abs(int(args["x2"]) - int(args["x1"])))
    except Exception:
        pass
    for d in diffs:
        if d <= 0 or d >= _SP:
            continue
        found = 0
        for k in range(1, 400):
            A_, B_ = _sec_lift(k, 0), _sec_lift((k + d) % _SP, 0)
            if A_ and B_:
                for X, Y in ((A_, B_), (B_, A_), (A_, (B_[0], _SP - B_[1]))):
                    exp = aff_add(X, Y, _SP)
                    exp = (0, 0) if exp is None else exp
                    got = tuple(int(c) for c in sp.add(X, Y))
                    if got != exp:
                        bad.append((k, "d=%s..." % str(d)[:12], got[0] % 1000))
                found += 1
                if found >= 3:
                    break
    return (len(bad) > 0), "c18_cases: %d mismatches %s" % (len(bad), str(bad[:3])[:200])
