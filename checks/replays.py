"""Concrete replays: run the real py_ecc (no shims, /venv/bin/python) on a recorded
counterexample and compare with an oracle that is independent of the code under test.
Every function returns (reproduced: bool, message: str).  Only stdlib + py_ecc here."""
import importlib
import random


# ---------------------------------------------------------------------------
# independent plain-integer oracles

def _inv(a, p):
    a %= p
    return pow(a, p - 2, p) if a else 0


def aff_add(P, Q, p):
    """textbook affine chord-and-tangent law over F_p (a = 0); None = infinity."""
    if P is None:
        return Q
    if Q is None:
        return P
    x1, y1 = P
    x2, y2 = Q
    if (x1 - x2) % p == 0:
        if (y1 - y2) % p == 0 and y1 % p != 0:
            m = 3 * x1 * x1 * _inv(2 * y1, p) % p
        else:
            return None
    else:
        m = (y2 - y1) * _inv(x2 - x1, p) % p
    x3 = (m * m - x1 - x2) % p
    y3 = (m * (x1 - x3) - y1) % p
    return (x3, y3)


def aff_mul(P, n, p):
    R = None
    Q = P
    while n > 0:
        if n & 1:
            R = aff_add(R, Q, p)
        Q = aff_add(Q, Q, p)
        n >>= 1
    return R


def _proj_to_aff_int(pt, p):
    x, y, z = [int(c) % p for c in pt]
    if z == 0:
        return None
    zi = _inv(z, p)
    return (x * zi % p, y * zi % p)


_CURVE_MODS = {"bn128": "py_ecc.optimized_bn128", "bls12_381": "py_ecc.optimized_bls12_381"}


def _rand_pts(rng, p, n):
    return [tuple(rng.randrange(1, p) for _ in range(3)) for _ in range(n)]


def replay_c13_curve(args):
    """differential run of the real optimized curve function against the affine law, on
    inputs constructed for every case (generic, doubling through add with different
    scalings, inverse, identity operands in several representations)."""
    m = importlib.import_module(_CURVE_MODS[args["curve"]])
    FQ = m.FQ
    p = m.field_modulus
    rng = random.Random(1234)
    f = args["func"]
    bad = []

    def mk(t):
        return tuple(FQ(c) for c in t)

    def scale(t, lam):
        return tuple(c * lam % p for c in t)
    cases = []
    pt = args.get("point") or {}
    if pt:
        # the witness of the failing path: its substitutions are exact; equality literals that
        # could not be solved for an atom (equal / inverse points) are enforced by construction
        g = lambda n: int(pt.get(n, rng.randrange(1, p))) % p
        a = (g("x1"), g("y1"), g("z1"))
        b = (g("x2"), g("y2"), g("z2"))
        zl = " ".join(args.get("zero_lits") or [])
        cases.append((a, b))
        if args.get("scaled"):
            lam, mu = g("lam"), g("mu")
            if "lam" in zl and a[0] and "x1" in zl and "x2" not in zl:
                # literal lam*x1 - c == 0: solve for lam
                import re as _re
                m_ = _re.search(r"\(\* lam x1\) \(- (\d+)\)", zl)
                if m_:
                    lam = int(m_.group(1)) * _inv(a[0], p) % p
            cases.append((scale(a, lam), scale(b, mu)))
        if "x2" in zl and "x1" in zl:
            k = b[2] if b[2] else 1
            cases.append((a, scale(a, k * _inv(a[2], p) % p if a[2] else k)))
            cases.append((a, scale((a[0], -a[1] % p, a[2]), k * _inv(a[2], p) % p if a[2] else k)))
    for _ in range(6):
        a, b = _rand_pts(rng, p, 2)
        lam, mu = rng.randrange(1, p), rng.randrange(1, p)
        cases += [(a, b), (a, scale(a, lam)), (a, scale((a[0], -a[1] % p, a[2]), mu)),
                  ((a[0], a[1], 0), b), (a, (b[0], b[1], 0)), ((a[0], a[1], 0), (b[0], b[1], 0)),
                  ((1, 1, 0), b), (a, (1, 1, 0)), (scale(a, lam), scale(b, mu))]
    for a, b in cases:
        A, B = _proj_to_aff_int(a, p), _proj_to_aff_int(b, p)
        try:
            if f == "add":
                got = _proj_to_aff_int(m.add(mk(a), mk(b)), p)
                exp = aff_add(A, B, p)
            elif f == "double":
                got = _proj_to_aff_int(m.double(mk(a)), p)
                exp = aff_add(A, A, p)
            elif f == "neg":
                got = _proj_to_aff_int(m.neg(mk(a)), p)
                exp = None if A is None else (A[0], -A[1] % p)
            elif f == "eq":
                if A is None or B is None:
                    continue
                got = bool(m.eq(mk(a), mk(b)))
                exp = A == B
            elif f == "is_on_curve":
                bb = rng.randrange(p)
                got = bool(m.is_on_curve(mk(a), FQ(bb)))
                exp = True if A is None else (A[1] ** 2 - A[0] ** 3 - bb) % p == 0
                # also a point constructed to be on the curve
                if A is not None:
                    b2 = (A[1] ** 2 - A[0] ** 3) % p
                    if not m.is_on_curve(mk(a), FQ(b2)):
                        bad.append(("is_on_curve false on curve", a, b2))
            elif f == "normalize":
                if A is None:
                    continue
                n = m.normalize(mk(a))
                got = (int(n[0]), int(n[1]))
                exp = A
            elif f == "is_inf":
                got = bool(m.is_inf(mk(a)))
                exp = A is None
            else:
                return False, "unknown func %s" % f
        except Exception as e:
            bad.append(("exception %r" % (e,), a, b))
            continue
        if got != exp:
            bad.append((f, a, b, got, exp))
    return (len(bad) > 0), "c13_curve %s/%s: %d mismatches; first: %s" % (args["curve"], f, len(bad), str(bad[:1])[:400])


def replay_c13_linefunc(args):
    mod = importlib.import_module(_CURVE_MODS[args["curve"]] + ".optimized_pairing")
    m = importlib.import_module(_CURVE_MODS[args["curve"]])
    FQ = m.FQ
    p = m.field_modulus
    rng = random.Random(99)
    bad = []
    for _ in range(10):
        a, b, t = _rand_pts(rng, p, 3)
        lam = rng.randrange(1, p)
        for P1, P2 in ((a, b), (a, tuple(c * lam % p for c in a)), (a, (a[0] * lam % p, -a[1] * lam % p, a[2] * lam % p))):
            A, B, T = (_proj_to_aff_int(x, p) for x in (P1, P2, t))
            n, d = mod.linefunc(tuple(FQ(c) for c in P1), tuple(FQ(c) for c in P2), tuple(FQ(c) for c in t))
            if int(d) % p == 0:
                bad.append(("zero denominator", P1, P2))
                continue
            got = int(n) * _inv(int(d), p) % p
            if (A[0] - B[0]) % p:
                mm = (B[1] - A[1]) * _inv(B[0] - A[0], p) % p
                exp = (mm * (T[0] - A[0]) - (T[1] - A[1])) % p
            elif (A[1] - B[1]) % p == 0:
                mm = 3 * A[0] ** 2 * _inv(2 * A[1], p) % p
                exp = (mm * (T[0] - A[0]) - (T[1] - A[1])) % p
            else:
                exp = (T[0] - A[0]) % p
            if got != exp:
                bad.append((P1, P2, t, got, exp))
    return (len(bad) > 0), "c13_linefunc %s: %d mismatches; first: %s" % (args["curve"], len(bad), str(bad[:1])[:400])


def _jac_to_aff_int(pt, p):
    x, y, z = [int(c) % p for c in pt]
    if y == 0:
        return None
    zi = _inv(z, p)
    return (x * zi * zi % p, y * zi * zi * zi % p)


def replay_c13_jacobian(args):
    sp = importlib.import_module("py_ecc.secp256k1.secp256k1")
    p = sp.P
    rng = random.Random(7)
    f = args["func"]
    bad = []
    for _ in range(12):
        a, b = _rand_pts(rng, p, 2)
        lam = rng.randrange(1, p)
        a_s = (a[0] * lam * lam % p, a[1] * pow(lam, 3, p) % p, a[2] * lam % p)
        a_n = (a_s[0], -a_s[1] % p, a_s[2])
        for P1, P2 in ((a, b), (a, a_s), (a, a_n), ((0, 0, 1), b), (a, (0, 0, 1)), ((0, 0, 0), b), ((0, 0, 1), (0, 0, 0))):
            A, B = _jac_to_aff_int(P1, p), _jac_to_aff_int(P2, p)
            try:
                if f == "jacobian_add":
                    r = sp.jacobian_add(P1, P2)
                    got, exp = _jac_to_aff_int(r, p), aff_add(A, B, p)
                elif f == "jacobian_double":
                    r = sp.jacobian_double(P1)
                    got, exp = _jac_to_aff_int(r, p), aff_add(A, A, p)
                elif f == "from_jacobian":
                    r = (int(sp.from_jacobian(P1)[0]), int(sp.from_jacobian(P1)[1]))
                    got, exp = r, (A if A is not None else (0, 0))
                    if A is None and P1[0] != 0:
                        continue
                elif f == "to_jacobian":
                    if A is None:
                        continue
                    r = sp.to_jacobian(A)
                    got, exp = _jac_to_aff_int(r, p), A
                else:
                    return False, "unknown func"
                if f != "from_jacobian" and any(not (0 <= int(c) < p) for c in r):
                    bad.append(("unreduced", P1, P2, r))
            except Exception as e:
                bad.append(("exception %r" % (e,), P1, P2))
                continue
            if got != exp:
                bad.append((f, P1, P2, got, exp))
    return (len(bad) > 0), "c13_jacobian %s: %d mismatches; first: %s" % (f, len(bad), str(bad[:1])[:400])


def replay_import(args):
    """the module fails to import on the real tree (import-time self-check or error)."""
    name = args["module"]
    try:
        importlib.import_module(name)
    except Exception as e:
        return True, "import %s raises %s: %s" % (name, type(e).__name__, e)
    return False, "import %s succeeds" % name


def _fq_class(impl, curve, kind="FQ"):
    f = importlib.import_module("py_ecc.fields")
    return getattr(f, ("optimized_" if impl == "opt" else "") + curve + "_" + kind)


def replay_c08_fq(args):
    """differential run of every FQ operator against plain modular arithmetic on boundary and random operands."""
    FQ = _fq_class(args["impl"], args["curve"])
    p = FQ.field_modulus
    rng = random.Random(5)
    vals = [0, 1, 2, p - 1, p - 2, (p - 1) // 2, (p + 1) // 2] + [rng.randrange(p) for _ in range(6)]
    ints = [0, 1, -1, p, p + 1, -p, 2 * p + 3, -(3 * p) - 7, 2 ** 400] + [rng.randrange(-p * p, p * p) for _ in range(4)]
    bad = []

    def chk(name, got, exp, *ctx):
        ok = isinstance(got, FQ) and isinstance(got.n, int) and got.n == exp % p
        if not ok:
            bad.append((name, ctx, getattr(got, "n", got), exp % p))
    for a in vals:
        x = FQ(a)
        chk("neg", -x, -a, a)
        for e in (0, 1, 2, 3, 5, 8, 13):
            chk("pow", x ** e, pow(a, e, p), a, e)
        for b in vals:
            y = FQ(b)
            chk("add", x + y, a + b, a, b); chk("sub", x - y, a - b, a, b); chk("mul", x * y, a * b, a, b)
            chk("div", x / y, a * _inv(b, p), a, b)
            if (x == y) != (a == b) or (x != y) != (a != b) or (x < y) != (a < b):
                bad.append(("cmp", a, b))
        for b in ints:
            chk("add_int", x + b, a + b, a, b); chk("radd", b + x, a + b, a, b)
            chk("sub_int", x - b, a - b, a, b); chk("rsub", b - x, b - a, a, b)
            chk("mul_int", x * b, a * b, a, b); chk("rmul", b * x, a * b, a, b)
            chk("div_int", x / b, a * _inv(b, p), a, b); chk("rdiv", b / x, b * _inv(a, p), a, b)
            chk("init", FQ(b), b, b)
        if x.n != a:
            bad.append(("mutated", a))
    return (len(bad) > 0), "c08_fq %s/%s: %d mismatches; first: %s" % (args["impl"], args["curve"], len(bad), str(bad[:1])[:400])
