"""C18 -- secp256k1 point arithmetic equals the textbook group law for all points / scalars."""
import z3
from symx import core, ring, world, loopcut
world.install()
from symx.core import SymZ, SymBool
from symx.ring import Ring, Res
from symx.harness import obligation
from .common import mod, require, control, lits_summary
from . import c13
from .c08 import check_inv_loop_step, _check_inv_small, PRIMES

SP = "py_ecc.secp256k1.secp256k1"

# SEC 2 v2, section 2.4.1 (literals pinned in the harness)
SEC2 = dict(
    P=0xFFFFFFFFFFFFFFFFFFFFFFFFFFFFFFFFFFFFFFFFFFFFFFFFFFFFFFFEFFFFFC2F,
    N=0xFFFFFFFFFFFFFFFFFFFFFFFFFFFFFFFEBAAEDCE6AF48A03BBFD25E8CD0364141,
    A=0, B=7,
    Gx=0x79BE667EF9DCBBAC55A06295CE870B07029BFCDB2DCE28D959F2815B16F81798,
    Gy=0x483ADA7726A3C4655DA4FBFC0E1108A8FD17B448A68554199C47D08FFB10D4B8)

# the Jacobian formula obligations are shared with C13
obligation("C18", "jacobian_formulas_mod_P", bound="all coordinate triples as residues mod P; every control path of jacobian_add / jacobian_double / from_jacobian / to_jacobian")(c13.secp_jacobian)
obligation("C18", "jacobian_outputs_reduced", bound="all coordinates in [0, P); QF_UFLIA")(c13.secp_range)


@obligation("C18", "constants_sec2", bound="ground")
def constants(rep, tier):
    sp = mod(SP)
    rp = {"kind": "c18_consts", "args": {}}
    for k, v in SEC2.items():
        require(rep, getattr(sp, k) == v, "secp256k1.%s is the SEC 2 value" % k, None, rp)
    require(rep, sp.G == (SEC2["Gx"], SEC2["Gy"]), "G = (Gx, Gy)", None, rp)
    require(rep, (SEC2["Gy"] ** 2 - SEC2["Gx"] ** 3 - 7) % SEC2["P"] == 0, "ground: G lies on y^2 = x^3 + 7", None, rp)
    rep.trust("#E(F_P) = N is prime (SEC 2), so every non-identity point has order N")


class Y:
    """y-coordinate of a model point: only its comparison with 0 is meaningful (identity marker)."""

    def __init__(self, k, n):
        self.k, self.n = k, n

    def __eq__(self, o):
        if isinstance(o, int) and o == 0:
            return SymBool((self.k.t % self.n) == 0)
        raise core.Unsupported("model y compared with %r" % (o,))

    def __ne__(self, o):
        return ~self.__eq__(o)

    def __bool__(self):
        return bool(~self.__eq__(0))

    __hash__ = None


class JP:
    """Jacobian point k*B for a fixed base point B of order N (exponent model)."""

    def __init__(self, k, n):
        self.k = SymZ.lift(k)
        self.n = n

    def __getitem__(self, i):
        if i == 1:
            return Y(self.k, self.n)
        raise core.Unsupported("model point coordinate %d read" % i)

    def __iter__(self):
        raise core.Unsupported("model point unpacked")


def as_jp(x, n):
    if isinstance(x, JP):
        return x
    if isinstance(x, tuple) and len(x) == 3 and x[1] == 0:
        return JP(0, n)
    raise core.Unsupported("not a model point: %r" % (x,))


@obligation("C18", "jacobian_multiply_every_integer", bound="EVERY integer n (negative, >= N included): one level of jacobian_multiply with the recursive call replaced by its contract (well-founded induction), exponent model k*B for a point B of order N; QF_LIA")
def jacobian_multiply_step(rep, tier):
    sp = mod(SP)
    N = sp.N
    rep.encoded(sp.jacobian_multiply, sp.multiply)
    rep.stub("jacobian_double / jacobian_add -> exponent model (2k, k1+k2) [contract: C13/C18 formulas]; recursive jacobian_multiply(a, m) -> m*a for smaller measure")
    rp = {"kind": "c18_multiply", "args": {}}
    real = sp.jacobian_multiply
    seen = {"paths": 0}
    from .c08 import _has_while
    if _has_while(real, also_for=True):
        # ---- iterative form: the recursion contract does not apply.  Every scalar in [-2^5, 2^6) is its own path (bounded
        # unrolling on the exponent model), plus ground instances of the property's scalar list; larger symbolic scalars are
        # reported as not covered.
        def dbl_(b):
            return JP(as_jp(b, N).k * 2, N)

        def add_(b, c):
            return JP(as_jp(b, N).k + as_jp(c, N).k, N)

        def run_it(ctx):
            n = SymZ.var("n", -32, 63)
            with world.patched(sp, jacobian_double=dbl_, jacobian_add=add_):
                r = real(JP(1, N), n)
            return n, r

        def on_it(pth):
            rep.paths += 1
            mdl = lambda m: {"kind": "c18_multiply", "args": {"n": str(m.eval(z3.Int("n"), model_completion=True)) if m is not None else "5"}}
            if pth.kind != "ret":
                g, m = pth.ctx.satisfiable()
                if g != "unsat":
                    rep.fail("jacobian_multiply raised %r for some n in [-32, 63]" % (pth.value,), mdl(m))
                return
            n, r = pth.value
            g, m = pth.ctx.prove((as_jp(r, N).k.t - n.t) % N == 0)
            require(rep, g, "jacobian_multiply(B, n) = (n mod N) * B (iterative form unrolled, every n in [-32, 63])", pth.decisions, mdl(m))
        core.explore(run_it, on_path=on_it, ctx_kwargs=dict(max_decisions=80), max_paths=2000)
        with core.Ctx() as gctx:
            for n0 in (-1, -2, -N, -N - 5, N - 1, N, N + 1, 2 * N + 7, 2 ** 255, 2 ** 256 + 1, 2 ** 512 - 3, -(2 ** 300)):
                try:
                    with world.patched(sp, jacobian_double=dbl_, jacobian_add=add_):
                        r0 = real(JP(1, N), n0)
                    ok0 = gctx.prove((as_jp(r0, N).k.t - z3.IntVal(n0)) % N == 0)[0]
                except core.Unsupported as e_:
                    rep.unknown("jacobian_multiply on the model for n = %d: %s" % (n0, e_))
                    continue
                require(rep, ok0, "jacobian_multiply(B, n) = (n mod N) * B on the exponent model for n = %s (ground)" % (str(n0) if abs(n0) < 10 ** 6 else "%d bits, sign %d" % (n0.bit_length(), (n0 > 0) - (n0 < 0))), None,
                        {"kind": "c18_multiply", "args": {"n": str(n0)}})
        rep.unknown("jacobian_multiply is iterative: decided for every n in [-32, 63] and the listed ground scalars only (no induction over the loop)")
        return

    def run(ctx):
        n = SymZ.var("n")
        a = JP(1, N)
        calls = []

        def rec(b, m):
            calls.append((b, SymZ.lift(m)))
            b = as_jp(b, N)
            return JP(b.k * SymZ.lift(m), N) if b.k._is_const() or SymZ.lift(m)._is_const() else JP(SymZ(b.k.t * SymZ.lift(m).t), N)

        def dbl(b):
            return JP(as_jp(b, N).k * 2, N)

        def add(b, c):
            return JP(as_jp(b, N).k + as_jp(c, N).k, N)
        with world.patched(sp, jacobian_multiply=rec, jacobian_double=dbl, jacobian_add=add):
            r = real(a, n)
        return n, r, calls

    def on_path(pth):
        rep.paths += 1
        seen["paths"] += 1
        if pth.kind != "ret":
            g, m = pth.ctx.satisfiable()
            rep.fail("jacobian_multiply raised %r for some integer n" % (pth.value,), {"kind": "c18_multiply", "args": {"n": str(m.eval(z3.Int("n"))) if m else "5"}})
            return
        n, r, calls = pth.value
        mdl = lambda m: {"kind": "c18_multiply", "args": {"n": str(m.eval(n.t, model_completion=True)) if m is not None else "5"}}
        rj = as_jp(r, N)
        g, m = pth.ctx.prove((rj.k.t - n.t) % N == 0)
        require(rep, g, "jacobian_multiply(B, n) = (n mod N) * B given the contract for the recursive call", pth.decisions, mdl(m))
        for (b, mm) in calls:
            # well-founded: out-of-range n recurses once with n mod N; in-range n recurses with 0 <= n//2 < n
            g, m = pth.ctx.prove(z3.Or(z3.And(z3.Or(n.t < 0, n.t >= N), mm.t >= 0, mm.t < N), z3.And(n.t >= 0, n.t < N, mm.t >= 0, mm.t < n.t)))
            require(rep, g, "recursive call has a smaller measure (terminates for every integer n)", pth.decisions, mdl(m))
            require(rep, isinstance(b, JP) and b.k._is_const() and b.k._cval() == 1, "recursive call multiplies the same point", pth.decisions, mdl(None))
    core.explore(run, on_path=on_path)
    require(rep, seen["paths"] >= 5, "jacobian_multiply: n = 0, n = 1, out-of-range, even, odd paths explored", None, rp)

    # identity base point: every n gives the identity
    def run0(ctx):
        n = SymZ.var("n")
        return real(JP(0, N), n)

    def on0(pth):
        rep.paths += 1
        require(rep, pth.kind == "ret" and isinstance(pth.value, tuple) and pth.value[1] == 0, "jacobian_multiply(identity, n) is an identity marker for every n", pth.decisions, rp)
    core.explore(run0, on_path=on0)


@obligation("C18", "affine_wrappers", bound="all points (residues mod P), identity encoded (0, 0); add / multiply / privtopub are from_jacobian o jacobian_* o to_jacobian (call trace)")
def affine_wrappers(rep, tier):
    sp = mod(SP)
    P = sp.P
    rep.encoded(sp.add, sp.multiply, sp.privtopub, sp.to_jacobian, sp.from_jacobian)
    rp = {"kind": "c18_affine", "args": {}}
    log = []

    def rec(name, ret):
        def f(*a):
            log.append((name, a))
            return ret(*a) if callable(ret) else ret
        return f
    with world.patched(sp, jacobian_add=rec("jadd", "J1"), jacobian_multiply=rec("jmul", "J2"), from_jacobian=rec("fj", lambda p: ("AFF", p)),
                       to_jacobian=rec("tj", lambda p: ("JAC", p))):
        r1 = sp.add("a", "b")
        r2 = sp.multiply("a", 12345)
    require(rep, r1 == ("AFF", "J1") and ("jadd", (("JAC", "a"), ("JAC", "b"))) in log, "add(a, b) = from_jacobian(jacobian_add(to_jacobian(a), to_jacobian(b)))", None, rp)
    require(rep, r2 == ("AFF", "J2") and ("jmul", (("JAC", "a"), 12345)) in log, "multiply(a, n) = from_jacobian(jacobian_multiply(to_jacobian(a), n))", None, rp)
    del log[:]
    with world.patched(sp, multiply=rec("mul", "PUB"), bytes_to_int=rec("b2i", 777)):
        r3 = sp.privtopub(b"key")
    require(rep, r3 == "PUB" and ("mul", (sp.G, 777)) in log and ("b2i", (b"key",)) in log, "privtopub(d) = multiply(G, bytes_to_int(d))", None, rp)

    # privtopub on key strings of EVERY length 0..80: the scalar handed to multiply is the big-endian integer of the whole string
    from symx import sbytes
    from symx.sbytes import SymBytes, SEQ
    OS2IP = sbytes._uf("OS2IP", SEQ, z3.IntSort())

    def run_priv(ctx):
        d = SymBytes.var("d", 0, 80)
        got = []
        with world.patched(sp, multiply=lambda pt, n: got.append((pt, n)) or "PUB", bytes_to_int=lambda b: SymZ(OS2IP(SymBytes.lift(b).t))):
            out = sp.privtopub(d)
        return d, got, out

    def on_priv(pth):
        rep.paths += 1
        if pth.kind != "ret":
            rep.fail("privtopub raised %r on a byte string" % (pth.value,), rp)
            return
        d, got, out = pth.value
        ok = out == "PUB" and len(got) == 1 and got[0][0] == sp.G
        rpm = rp
        if ok:
            g, m = pth.ctx.prove(SymZ.lift(got[0][1]).t == OS2IP(d.t), timeout_ms=60000)
            if g == "sat":
                rpm = {"kind": "c18_affine", "args": {"key_len": m.eval(z3.Length(d.t), model_completion=True).as_long()}}
        else:
            g = "sat"
        require(rep, g, "privtopub(d) = multiply(G, OS2IP(d)) for key strings of every length 0..80 (no truncation, no marker stripping)", pth.decisions, rpm)
    core.explore(run_priv, on_path=on_priv, ctx_kwargs=dict())

    # identity (0, 0) through the real Jacobian code (ring mode, inv contract)
    real_inv = sp.inv

    def inv_stub(a, n):
        Rr = core.cur().ring
        a = Rr.lift(a)
        if a.is_zero():
            return 0
        return a._inverse()

    def fn(R):
        x, y = R.atom("x"), R.atom("y")
        R.declare_nonzero(y)
        with world.patched(sp, inv=inv_stub):
            return (x, y), sp.add((x, y), (0, 0)), sp.add((0, 0), (x, y)), sp.add((x, y), (x, -y)), sp.multiply((0, 0), 5), sp.add((0, 0), (0, 0))
    for pth, R in ring.run_paths(fn, lambda: Ring(P)):
        rep.paths += 1
        path = lits_summary(R)
        if pth.kind != "ret":
            rep.fail("affine add with identity operands raised %r" % (pth.value,), rp)
            continue
        (x, y), r1, r2, r3, r4, r5 = pth.value
        lift = lambda t: tuple(R.lift(c) for c in t)
        r1, r2, r3, r4, r5 = lift(r1), lift(r2), lift(r3), lift(r4), lift(r5)
        ok = lambda a, b: R.prove_equal(a, b) == "zero"
        require(rep, ok(r1[0], x) and ok(r1[1], y), "add(P, (0,0)) = P", path, rp)
        require(rep, ok(r2[0], x) and ok(r2[1], y), "add((0,0), P) = P", path, rp)
        require(rep, ok(r3[0], 0) and ok(r3[1], 0), "add(P, -P) = (0, 0)", path, rp)
        require(rep, ok(r4[0], 0) and ok(r4[1], 0), "multiply((0,0), n) = (0, 0)", path, rp)
        require(rep, ok(r5[0], 0) and ok(r5[1], 0), "add((0,0), (0,0)) = (0, 0)", path, rp)


@obligation("C18", "bytes_to_int_big_endian", bound="byte strings of every length 0..33 with symbolic content")
def bytes_to_int_be(rep, tier):
    sp = mod(SP)
    from symx.sbytes import SymBytes
    rep.encoded(sp.bytes_to_int, sp.safe_ord)
    rp = {"kind": "c18_b2i", "args": {}}
    for L in range(0, 34):
        def run(ctx, L=L):
            ctx.exact_os2ip = 64        # int.from_bytes on a string of concrete length is modelled bit-precisely (not as the uninterpreted OS2IP)
            b = SymBytes.var("d", length=L)
            return b, sp.bytes_to_int(b)

        def on_path(pth, L=L):
            rep.paths += 1
            if pth.kind != "ret":
                rep.fail("bytes_to_int raised %r" % (pth.value,), rp)
                return
            b, v = pth.value
            want = z3.IntVal(0)
            for i in range(L):
                want = want * 256 + z3.BV2Int(b.t[z3.IntVal(i)], False)
            g, m = pth.ctx.prove(SymZ.lift(v).t == want)
            require(rep, g, "bytes_to_int is the big-endian integer (|d| = %d)" % L, pth.decisions, rp)
        core.explore(run, on_path=on_path)


@obligation("C18", "inv_small_and_loop_step", timeout=900,
            bound="inv(a, n): a and n symbolic, n any prime <= 13 (quick) / <= 31 (thorough), 0 <= a < n, exact bit-vectors; plus one inductive loop step at the real P and N")
def inv_checks(rep, tier):
    sp = mod(SP)
    rep.encoded(sp.inv)
    primes = [q for q in PRIMES if q <= (13 if tier == "quick" else 31)]
    _check_inv_small(rep, sp.inv, "secp256k1.inv", primes, 20 if tier == "quick" else 24, {"kind": "c08_inv", "args": {"which": "secp256k1.inv"}}, False)
    for nm, n in (("P", sp.P), ("N", sp.N)):
        check_inv_loop_step(rep, sp.inv, "secp256k1.inv mod %s" % nm, n, {"kind": "c08_inv", "args": {"which": "secp256k1.inv"}})
    rep.assume("inv(a, n) is only claimed for a == 0 or a not a multiple of n (callers pass reduced values; inv(n, n) returns 1)")


# ---------------------------------------------------------------------------
# thorough: the same code with its curve constants replaced by small prime-order curves; every pair of points, every scalar

SMALL_PRIME_ORDER = [(7, 3, 13), (13, 2, 19)]      # (p, b, N): y^2 = x^3 + b over GF(p) has prime order N (re-counted in the obligation)


def _small_secp(rep, p, b, N, part):
    sp = mod(SP)
    ref = mod("py_ecc.bn128.bn128_curve")
    fe = mod("py_ecc.fields.field_elements")
    W = (12 * (p - 1) ** 4).bit_length() + 2      # largest intermediate of the Jacobian formulas before its % P (e.g. p[1] * q[2] ** 3, 8 * ysq ** 2)
    pts = [(x, y) for x in range(p) for y in range(p) if (y * y - x * x * x - b) % p == 0]
    rp = {"kind": "c18_small", "args": {"p": p, "b": b, "N": N}}
    require(rep, len(pts) + 1 == N and all(N % d for d in range(2, N)), "ground: y^2 = x^3 + %d over GF(%d) has prime order %d" % (b, p, N), None, rp)
    G = pts[0]
    T = type("SmallFQ", (fe.FQ,), {"field_modulus": p})
    tag = "secp256k1 code on y^2 = x^3 + %d over GF(%d), N = %d" % (b, p, N)
    bv = lambda v: z3.BitVecVal(v, W)

    def inv_bv(a, n):
        ctx = core.cur()
        a = SymZ.lift(a)
        v = SymZ.var(ctx.fresh_name("inv"), 0, n - 1)
        am = a % n
        ctx.add_fact(z3.If(am.t == 0, v.t == 0, z3.URem(am.t * v.t, bv(n)) == 1))
        return v

    def pt(ctx, nm, allow_identity=True):
        x, y = SymZ.var("x" + nm, 0, p - 1), SymZ.var("y" + nm, 0, p - 1)
        on = z3.URem(y.t * y.t, bv(p)) == z3.URem(z3.URem(z3.URem(x.t * x.t, bv(p)) * x.t, bv(p)) + b, bv(p))
        ctx.assume(z3.Or(on, z3.And(x.t == 0, y.t == 0)) if allow_identity else on)
        return (x, y)

    def oracle_add(ctx, A, B):
        """the reference bn128_curve.add over GF(p) (decided for every triple by C07 small_curve_all_triples), identity (0, 0) <-> None."""
        def to_ref(Pt):
            if ctx.branch(z3.And(SymZ.lift(Pt[0]).t == 0, SymZ.lift(Pt[1]).t == 0)):
                return None
            return (T(Pt[0]), T(Pt[1]))
        with world.patched(fe, prime_field_inv=inv_bv):
            S = ref.add(to_ref(A), to_ref(B))
        return (SymZ.const(0), SymZ.const(0)) if S is None else (SymZ.lift(S[0].n), SymZ.lift(S[1].n))

    def same(A, B):
        return z3.And(SymZ.lift(A[0]).t == SymZ.lift(B[0]).t, SymZ.lift(A[1]).t == SymZ.lift(B[1]).t)

    consts = dict(P=p, N=N, A=0, B=b, Gx=G[0], Gy=G[1], G=G, inv=inv_bv)

    def finish(pth, what, vals_of=("x1", "y1", "x2", "y2", "n", "z1", "z2")):
        rep.paths += 1
        if pth.kind != "ret":
            g, mm = pth.ctx.satisfiable()
            if g == "sat":
                rep.fail("%s: %s raised %r" % (tag, what, pth.value), rp)
            elif g != "unsat":
                rep.unknown("%s: feasibility of a raising path undecided" % tag)
            return
        for w, gl in pth.value:
            g, mm = pth.ctx.prove(gl, timeout_ms=120000)
            rpm = rp
            if g == "sat":
                vals = {d_.name(): mm[d_].as_signed_long() for d_ in mm.decls() if d_.name() in vals_of}
                rpm = {"kind": "c18_small", "args": dict(rp["args"], model=vals)}
            require(rep, g, "%s: %s" % (tag, w), pth.decisions, rpm)
        g, mm = pth.ctx.prove_side()
        if g != "unsat":
            rep.unknown("%s: bit-vector arithmetic may wrap (%s)" % (tag, what))
    kw = dict(backend=("bv", W), branch_timeout_ms=60000, max_decisions=300)

    # (a) add on every pair (identity included) = the reference affine law
    def run_add(ctx):
        A, B = pt(ctx, "1"), pt(ctx, "2")
        with world.patched(sp, **consts):
            S = sp.add(A, B)
        return [("add(A, B) = affine chord-and-tangent sum for ALL pairs incl. doubling, inverse, identity (0, 0)", same(S, oracle_add(ctx, A, B)))]
    if part == "add":
        core.explore(run_add, ctx_kwargs=kw, on_path=lambda pth: finish(pth, "add"), max_paths=3000)

    # (b) jacobian_add on arbitrary representatives (x z^2, y z^3, z)
    def run_jadd(ctx):
        A, B = pt(ctx, "1", False), pt(ctx, "2", False)
        z1, z2 = SymZ.var("z1", 1, p - 1), SymZ.var("z2", 1, p - 1)
        Aj = ((A[0] * z1 * z1) % p, (A[1] * z1 * z1 * z1) % p, z1)
        Bj = ((B[0] * z2 * z2) % p, (B[1] * z2 * z2 * z2) % p, z2)
        with world.patched(sp, **consts):
            S = sp.from_jacobian(sp.jacobian_add(Aj, Bj))
            D = sp.from_jacobian(sp.jacobian_double(Aj))
        return [("from_jacobian(jacobian_add(A~, B~)) = A + B for ALL representatives", same(S, oracle_add(ctx, A, B))),
                ("from_jacobian(jacobian_double(A~)) = A + A for ALL representatives", same(D, oracle_add(ctx, A, A)))]
    if part == "jacobian":
        core.explore(run_jadd, ctx_kwargs=kw, on_path=lambda pth: finish(pth, "jacobian_add"), max_paths=3000)

    # (c) multiply for every scalar in [-N - 2, 2N + 2] and every point: n*P by the recurrence (n+1)P = nP + P
    def run_mul(ctx):
        A = pt(ctx, "1")
        n = SymZ.var("n", -N - 2, 2 * N + 2)
        with world.patched(sp, **consts):
            M0 = sp.multiply(A, n)
            M1 = sp.multiply(A, n + 1)
        return [("multiply(P, n + 1) = multiply(P, n) + P for EVERY n in [-N-2, 2N+2] and every point", same(M1, oracle_add(ctx, M0, A)))]

    def run_mul_base(ctx):
        A = pt(ctx, "1")
        with world.patched(sp, **consts):
            Z = sp.multiply(A, 0)
            One = sp.multiply(A, 1)
        return [("multiply(P, 0) = (0, 0)", same(Z, (SymZ.const(0), SymZ.const(0)))), ("multiply(P, 1) = P", same(One, A))]
    if part == "multiply":
        core.explore(run_mul_base, ctx_kwargs=kw, on_path=lambda pth: finish(pth, "multiply base cases"), max_paths=100)
        core.explore(run_mul, ctx_kwargs=kw, on_path=lambda pth: finish(pth, "multiply"), max_paths=6000)
    rep.stub("inv(a, p) -> fresh v with a*v == 1 (mod p), inv(0) = 0 (contract: inv_small_and_loop_step)")
    rep.stub("oracle: reference bn128_curve.add over the same small field (C07 small_curve_all_triples decides its group axioms)")


for _p, _b, _N in SMALL_PRIME_ORDER:
    for _part in (("add", "jacobian", "multiply") if _p == 7 else ("add",)):
        def _mk_sm(p=_p, b=_b, N=_N, part=_part):
            def f(rep, tier):
                sp = mod(SP)
                rep.encoded(sp.add, sp.multiply, sp.jacobian_add, sp.jacobian_double, sp.jacobian_multiply, sp.from_jacobian, sp.to_jacobian)
                _small_secp(rep, p, b, N, part)
            return f
        obligation("C18", "small_prime_order_curve_p%d_%s" % (_p, _part), tier=("quick" if _part == "add" else "thorough"), timeout=3000,
                   bound="module constants P, N, A, B, G rebound to y^2 = x^3 + %d over GF(%d) (prime order %d): %s; exact bit-vectors (16 resp. 20 bits) with no-wrap side conditions"
                   % (_b, _p, _N, {"add": "add on EVERY pair of points incl. identity", "jacobian": "jacobian_add / jacobian_double on every pair and EVERY Jacobian representative",
                                   "multiply": "multiply for every point and EVERY scalar in [-N-2, 2N+3] (base cases 0, 1 and the recurrence (n+1)P = nP + P, which fixes the value for every n in the range)"}[_part]))(_mk_sm())


@obligation("C18", "jacobian_add_case_split_on_integers", bound="affine operands (z = 1) with ALL integer coordinates in [0, P), y != 0: which of the three cases (doubling / inverse / chord) jacobian_add takes, decided over the integers (not only modulo P); QF_LIA")
def jacobian_add_cases(rep, tier):
    """the case analysis must be 'same abscissa' = equality of the reduced residues: a test that is merely implied by equality
    (e.g. congruence modulo another constant) sends distinct points into the doubling / inverse branch."""
    sp = mod(SP)
    P = sp.P
    rep.encoded(sp.jacobian_add)
    seen = set()

    def run(ctx):
        x1, y1, x2, y2 = (SymZ.var(n_, 0, P - 1) for n_ in ("x1", "y1", "x2", "y2"))
        ctx.assume(z3.And(y1.t != 0, y2.t != 0))
        with world.patched(sp, jacobian_double=lambda p_: "DBL"):
            r = sp.jacobian_add((x1, y1, 1), (x2, y2, 1))
        return x1, y1, x2, y2, r

    def on_path(pth):
        rep.paths += 1
        mdl = lambda m: {"kind": "c18_cases", "args": {k: str(m.eval(z3.Int(k), model_completion=True)) for k in ("x1", "y1", "x2", "y2")} if m is not None else {}}
        if pth.kind != "ret":
            g, m = pth.ctx.satisfiable()
            if g != "unsat":
                rep.fail("jacobian_add raised %r on affine operands" % (pth.value,), mdl(m))
            return
        x1, y1, x2, y2, r = pth.value
        if isinstance(r, str) and r == "DBL":
            case, goal = "doubling", z3.And(x1.t == x2.t, y1.t == y2.t)
        elif isinstance(r, tuple) and len(r) == 3 and not isinstance(r[1], SymZ) and r[1] == 0:
            case, goal = "inverse", z3.And(x1.t == x2.t, y1.t != y2.t)
        else:
            case, goal = "chord", x1.t != x2.t
        seen.add(case)
        g, m = pth.ctx.prove(goal)
        require(rep, g, "jacobian_add takes the %s branch only when the operands are in that position (as integers in [0, P))" % case, pth.decisions, mdl(m))
    core.explore(run, on_path=on_path, ctx_kwargs=dict(mul="uf"))
    require(rep, seen == {"doubling", "inverse", "chord"}, "jacobian_add: doubling, inverse and chord branches all reachable on affine operands", None, {"kind": "c18_cases", "args": {}})
