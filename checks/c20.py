"""C20 -- public functions are pure: no mutation of inputs or module-level constants, history independent.

Inductive invariant over call histories: *module state equals the snapshot taken after import*.  For every
entry of a catalogue of public functions the real code is executed on symbolic arguments (the shapes used by the
other checks: abstract field elements, exact symbolic integers, symbolic byte strings, model points) with path
exploration; on every path a frame monitor compares (deeply, by value / by term) all module-level objects and
class attributes of every loaded py_ecc module and the arguments before and after the call, and the call is
repeated on the same arguments to compare the results structurally.  One inductive step: any interleaving of
calls leaves every later call in the snapshot state, hence its result is a function of its arguments.
A syntactic scan of the sources lists every use of randomness / clocks / `global`.
"""
import ast
import os
import z3
from symx import core, ring, world
world.install()
from symx.core import SymZ, SymBool
from symx.ring import Ring, Res
from symx.sbytes import SymBytes
from symx.harness import obligation, REPO
from .common import mod, require, control, lits_summary
from . import statefp

ALL = ["py_ecc.bn128", "py_ecc.bls12_381", "py_ecc.optimized_bn128", "py_ecc.optimized_bls12_381", "py_ecc.secp256k1", "py_ecc.bls",
       "py_ecc.bls.ciphersuites", "py_ecc.bls.hash", "py_ecc.bls.hash_to_curve", "py_ecc.bls.point_compression", "py_ecc.bls.g2_primitives", "py_ecc.fields"]


def _term_fp(o, depth=0):
    """structural fingerprint of (possibly symbolic) arguments / results."""
    if isinstance(o, SymZ):
        return ("SymZ", o.t.get_id())
    if isinstance(o, SymBool):
        return ("SymBool", o.t.get_id())
    if isinstance(o, Res):
        return ("Res", tuple(sorted((m, c.get_id()) for m, c in o.comp.items())), o.den.get_id())
    if hasattr(o, "t") and hasattr(o, "length"):
        return ("Bytes", o.t.get_id())
    if isinstance(o, (list, tuple)):
        return (type(o).__name__,) + tuple(_term_fp(x, depth + 1) for x in o)
    if hasattr(o, "coeffs") and hasattr(o, "modulus_coeffs"):
        return ("FQP", type(o).__name__, _term_fp(tuple(o.coeffs), depth + 1))
    if hasattr(o, "n") and hasattr(type(o), "field_modulus"):
        return ("FQ", type(o).__name__, _term_fp(o.n, depth + 1))
    if hasattr(o, "kp") and hasattr(o, "tp"):
        return ("MP", o.group, o.k.get_id(), o.t.get_id())
    if hasattr(o, "ep"):
        return ("GT", o.e.get_id())
    return statefp._val(o)


class Monitor:
    def __init__(self, rep):
        self.rep = rep
        for m in ALL:
            mod(m)
        self.base = statefp.state_fp()
        self.calls = 0

    def call(self, label, fn, *args, repeat=True, **kw):
        """run fn(*args) (twice) and check the frame condition; returns the result."""
        rp = {"kind": "c20_purity", "args": {"what": label}}
        a0 = _term_fp(args)
        before = statefp.state_fp()
        r1 = fn(*args, **kw)
        after = statefp.state_fp()
        a1 = _term_fp(args)
        d = statefp.diff(before, after)
        d0 = [k for k in statefp.diff(self.base, before) if not k.endswith(".prime_field_inv")]      # the harness's own stub
        self.calls += 1
        require(self.rep, not d, "%s leaves every module-level object and class attribute unchanged %s" % (label, d[:3]), label, rp)
        require(self.rep, not d0, "%s starts from the post-import snapshot (earlier calls left no trace) %s" % (label, d0[:3]), label, rp)
        require(self.rep, a0 == a1, "%s does not mutate its arguments" % label, label, rp)
        if repeat:
            r2 = fn(*args, **kw)
            require(self.rep, _term_fp(r1) == _term_fp(r2), "%s returns a structurally identical result when called again on the same arguments" % label, label, rp)
        return r1


@obligation("C20", "field_and_curve_functions_are_pure", timeout=900,
            bound="field operators of the 12 field classes, curve functions of the 4 curve modules, line functions, SWU / isogeny maps, secp256k1 Jacobian functions: symbolic operands (abstract elements), every control path")
def pure_algebra(rep, tier):
    M = Monitor(rep)
    f = mod("py_ecc.fields")
    from .c08 import inv_stub_ring
    names = ["bn128_FQ", "bn128_FQ2", "bn128_FQ12", "bls12_381_FQ", "bls12_381_FQ2", "bls12_381_FQ12",
             "optimized_bn128_FQ", "optimized_bn128_FQ2", "optimized_bn128_FQ12", "optimized_bls12_381_FQ", "optimized_bls12_381_FQ2", "optimized_bls12_381_FQ12"]
    for nm in names:
        K = getattr(f, nm)
        p = K.field_modulus
        deg = getattr(K, "degree", 0) or 0
        Mod = mod(K.__mro__[1].__module__)

        def fn(R, K=K, deg=deg, nm=nm):
            if deg:
                x, y = K([R.atom("a%d" % i) for i in range(deg)]), K([R.atom("b%d" % i) for i in range(deg)])
            else:
                x, y = K(R.atom("a")), K(R.atom("b"))
            with world.patched(Mod, prime_field_inv=inv_stub_ring):
                M.call(nm + ".__add__", lambda: x + y)
                M.call(nm + ".__sub__", lambda: x - y)
                M.call(nm + ".__mul__", lambda: x * y)
                M.call(nm + ".__neg__", lambda: -x)
                M.call(nm + ".__pow__", lambda: x ** 3)
                M.call(nm + ".__mul__(int)", lambda: x * 7)
                M.call(nm + ".one/zero", lambda: (K.one(), K.zero()))
                if deg in (0, 2):
                    M.call(nm + ".__truediv__", lambda: x / y)
                M.call(nm + ".__eq__", lambda: x == y, repeat=False)
            return True
        for pth, R in ring.run_paths(fn, lambda: Ring(p, policy=lambda live: "generic")):
            rep.paths += 1
            if pth.kind != "ret":
                rep.unknown("%s operators under the monitor: %r" % (nm, pth.value))
    # constructors on caller-owned lists of ARBITRARY integers (exact ints): the list must not be rewritten
    for nm in ("bn128_FQ2", "optimized_bn128_FQ2", "bls12_381_FQ12", "optimized_bls12_381_FQ12"):
        K = getattr(f, nm)
        dg = K.degree

        def run_ctor(ctx, K=K, dg=dg, nm=nm):
            lst = [SymZ.var("k%d" % i) for i in range(dg)]
            M.call(nm + "(list of any ints)", K, lst, repeat=False)
            tp = tuple(lst)
            M.call(nm + "(tuple)", K, tp, repeat=False)
            return True
        core.explore(run_ctor, ctx_kwargs=dict(mul="uf"), on_path=lambda pth: None)
        rep.paths += 1
    # ad-hoc instantiations (other primes / modulus polynomials) share no state with the library's classes and with each other
    refM, optM = mod("py_ecc.fields.field_elements"), mod("py_ecc.fields.optimized_field_elements")
    for Mx, tagx in ((refM, "ref"), (optM, "opt")):
        for q, mc in ((7, (1, 0)), (7, (2, 0)), (f.bn128_FQ.field_modulus, (5, 3)), (f.bls12_381_FQ.field_modulus, (2, 1))):
            T = type("AdHocFQ2", (Mx.FQ2,), {"field_modulus": q, "FQ2_MODULUS_COEFFS": mc})
            x, y = T([3, 5]), T([2, 6])
            M.call("%s ad-hoc FQ2 over %s with modulus %s: mul" % (tagx, q if q < 100 else "a curve prime", mc), lambda x=x, y=y: x * y)
            M.call("%s ad-hoc FQ2: inv" % tagx, lambda x=x: x.inv())
        # the library's own class is unaffected by the ad-hoc use above (value check against plain arithmetic)
        K = getattr(f, ("optimized_" if tagx == "opt" else "") + "bn128_FQ2")
        pr = K([3, 5]) * K([2, 6])
        require(rep, [int(c) for c in pr.coeffs] == [(3 * 2 - 5 * 6) % K.field_modulus, (3 * 6 + 5 * 2) % K.field_modulus], "%s bn128 FQ2 product unaffected by ad-hoc instantiations" % tagx, None,
                {"kind": "c20_purity", "args": {"what": "adhoc"}})
    # curve modules
    for mn in ("py_ecc.bn128.bn128_curve", "py_ecc.bls12_381.bls12_381_curve", "py_ecc.optimized_bn128.optimized_curve", "py_ecc.optimized_bls12_381.optimized_curve"):
        m = mod(mn)
        opt = "optimized" in mn

        def fn(R, m=m, opt=opt, mn=mn):
            if opt:
                p1, p2 = tuple(R.atom(c + "1") for c in "xyz"), tuple(R.atom(c + "2") for c in "xyz")
            else:
                p1, p2 = tuple(R.atom(c + "1") for c in "xy"), tuple(R.atom(c + "2") for c in "xy")
            R.declare_nonzero(p1[1])
            s = mn.split(".")[-2] + "."
            M.call(s + "add", m.add, p1, p2)
            M.call(s + "double", m.double, p1)
            M.call(s + "neg", m.neg, p1)
            M.call(s + "multiply", m.multiply, p1, 5)
            M.call(s + "is_on_curve", m.is_on_curve, p1, R.atom("b"), repeat=False)
            M.call(s + "eq", m.eq, p1, p1, repeat=False)
            return True
        for pth, R in ring.run_paths(fn, lambda: Ring(None, policy=lambda live: "generic")):
            rep.paths += 1
            if pth.kind != "ret":
                rep.unknown("%s under the monitor: %r" % (mn, pth.value))
        # concrete (ground) calls on the module's own constants: generators, twist, normalisation
        M.call(mn + ".twist(G2)", m.twist, m.G2)
        M.call(mn + ".multiply(G1, 77)", m.multiply, m.G1, 77)
        M.call(mn + ".add(G2, G2)", m.add, m.G2, m.G2)
        M.call(mn + ".neg(G1)", m.neg, m.G1)
        if opt:
            M.call(mn + ".normalize(G2)", m.normalize, m.G2)
    # pairing helpers, SWU, isogenies, secp256k1 (ground calls on constants and small inputs)
    ob = mod("py_ecc.optimized_bls12_381")
    op = mod("py_ecc.optimized_bls12_381.optimized_pairing")
    M.call("optimized_bls12_381.linefunc", op.linefunc, ob.G1, ob.multiply(ob.G1, 2), ob.multiply(ob.G1, 3))
    M.call("optimized_bls12_381.exp_by_p", op.exp_by_p, ob.FQ12([1, 2, 3] + [0] * 9))
    M.call("optimized_bls12_381.cast_point_to_fq12", op.cast_point_to_fq12, ob.G1)
    M.call("optimized_swu_G1", ob.optimized_swu_G1, ob.FQ(5))
    M.call("optimized_swu_G2", ob.optimized_swu_G2, ob.FQ2([5, 7]))
    M.call("iso_map_G1", ob.iso_map_G1, ob.FQ(3), ob.FQ(4), ob.FQ(5))
    M.call("iso_map_G2", ob.iso_map_G2, ob.FQ2([3, 1]), ob.FQ2([4, 1]), ob.FQ2([5, 1]))
    sp = mod("py_ecc.secp256k1.secp256k1")
    M.call("secp256k1.add", sp.add, sp.G, sp.G)
    M.call("secp256k1.multiply", sp.multiply, sp.G, 12345)
    M.call("secp256k1.jacobian_add", sp.jacobian_add, (sp.Gx, sp.Gy, 1), (sp.Gx, sp.Gy, 1))
    M.call("secp256k1.privtopub", sp.privtopub, b"\x07" * 32)
    M.call("secp256k1.ecdsa_raw_sign", sp.ecdsa_raw_sign, b"\x01" * 32, b"\x02" * 32)
    M.call("secp256k1.ecdsa_raw_recover", sp.ecdsa_raw_recover, b"\x01" * 32, sp.ecdsa_raw_sign(b"\x01" * 32, b"\x02" * 32))
    rep.note("%d monitored calls" % M.calls)


@obligation("C20", "codec_hash_and_protocol_functions_are_pure", timeout=900,
            bound="compress/decompress (all 384-bit words), expand_message_xmd / HKDF (uninterpreted hashes), the three ciphersuites over the ideal model with symbolic keys, messages, signatures and lists: every explored path")
def pure_protocol(rep, tier):
    M = Monitor(rep)
    pc = mod("py_ecc.bls.point_compression")
    o = mod("py_ecc.optimized_bls12_381")
    h = mod("py_ecc.bls.hash")
    q = o.field_modulus
    from .c11 import sqrt_hook_g1
    from .c15 import hf

    def run_dec(ctx):
        ctx.pow_hook = sqrt_hook_g1(q)
        z = SymZ.var("z", 0, (1 << 384) - 1)
        try:
            pt = M.call("decompress_G1", pc.decompress_G1, z, repeat=False)
        except ValueError:
            return None
        M.call("compress_G1", pc.compress_G1, pt)
        return True
    core.explore(run_dec, ctx_kwargs=dict(mul="uf"), on_path=lambda pth: None)
    rep.paths += 1

    def run_xmd(ctx):
        ctx.hash_uf = True
        ctx.unwind = 2
        msg, dst = SymBytes.var("msg", 0, 4), SymBytes.var("dst", 0, 300)
        n = SymZ.var("n", 0, 96)
        try:
            M.call("expand_message_xmd", h.expand_message_xmd, msg, dst, n, hf("sha256"), repeat=False)
        except ValueError:
            pass
        ctx.sym_bytearray = True
        M.call("hkdf_extract", h.hkdf_extract, msg, dst, repeat=False)
        return True
    core.explore(run_xmd, on_path=lambda pth: None, ctx_kwargs=dict(branch_timeout_ms=30000))

    def run_mut(ctx):
        """the same byte-string functions on BYTEARRAY arguments (mutable shadows: an in-place += / extend on an alias of an
        argument writes through and is seen by the argument fingerprint of the monitor)"""
        ctx.hash_uf = True
        ctx.unwind = 2
        ctx.sym_bytearray = True
        msg, dst = SymBytes.var("msg", 0, 4).thawed(), SymBytes.var("dst", 0, 300).thawed()
        n = SymZ.var("n", 0, 64)
        M.call("hkdf_extract(bytearray, bytearray)", h.hkdf_extract, msg, dst, repeat=False)
        L = SymZ.var("L", 0, 64)
        M.call("hkdf_expand(bytearray, bytearray, L)", h.hkdf_expand, msg, dst, L, repeat=False)
        a, b_ = SymBytes.var("xa", length=32).thawed(), SymBytes.var("xb", length=32).thawed()
        M.call("xor(bytearray, bytearray)", h.xor, a, b_, repeat=False)
        return True
    core.explore(run_mut, on_path=lambda pth: None, ctx_kwargs=dict(branch_timeout_ms=30000), max_paths=200)
    # ciphersuites over the ideal model (abstract bytes)
    from symx.blsmodel import World
    from symx.sbytes import AbsBytes
    cs = mod("py_ecc.bls.ciphersuites")
    for suite in ("G2Basic", "G2MessageAugmentation", "G2ProofOfPossession"):
        S = getattr(cs, suite)

        def run(ctx, S=S, suite=suite):
            W = World()
            sk = SymZ.var("sk", 1, cs.curve_order - 1)
            m = AbsBytes.var("m", 0, 300)
            sig = AbsBytes.var("sig", 0, 200)
            keys = [AbsBytes.var("pk0", 0, 200), AbsBytes.var("pk1", 0, 200)]
            msgs = [m, AbsBytes.var("m1", 0, 300)]
            with world.patched(cs, **W.bindings()):
                base = statefp.state_fp()
                pk = S.SkToPk(sk)
                s = S.Sign(sk, m)
                bool(S.Verify(pk, m, s))
                bool(S.Verify(keys[0], m, sig))
                klist, mlist = list(keys), list(msgs)
                bool(S.AggregateVerify(klist, mlist, sig))
                ok = klist == keys and mlist == msgs and len(klist) == 2
                try:
                    S.Aggregate([s, s])
                except Exception:
                    pass
                if suite == "G2ProofOfPossession":
                    bool(S.FastAggregateVerify(klist, m, sig))
                    bool(S.PopVerify(pk, S.PopProve(sk)))
                after = statefp.state_fp()
            return statefp.diff(base, after), ok

        def on_path(pth, suite=suite):
            rep.paths += 1
            rp = {"kind": "c20_purity", "args": {"what": suite}}
            if pth.kind != "ret":
                rep.unknown("%s under the monitor: %r" % (suite, pth.value))
                return
            d, ok = pth.value
            require(rep, not d, "%s: SkToPk / Sign / Verify / AggregateVerify / Aggregate%s leave module state unchanged on this path %s" % (suite, " / FastAggregateVerify / Pop*" if suite.endswith("Possession") else "", d[:3]),
                    pth.decisions, rp)
            require(rep, ok, "%s: key and message lists passed to the verifiers are not mutated" % suite, pth.decisions, rp)
        core.explore(run, on_path=on_path, ctx_kwargs=dict(branch_timeout_ms=30000, max_decisions=400), max_paths=3000)
        d = statefp.diff(M.base, statefp.state_fp())
        require(rep, not d, "%s: state equals the post-import snapshot after all explored paths %s" % (suite, d[:3]), None, {"kind": "c20_purity", "args": {"what": suite}})

        # ground pass: the same API sequence on concrete arguments (keys of dicts / sets keyed by the arguments become concrete,
        # which the symbolic pass cannot follow), twice, under the state fingerprint
        def ground(S=S, suite=suite):
            from eth_utils import ValidationError
            out = []
            with core.Ctx():
                W = World()
                with world.patched(cs, **W.bindings()):
                    base = statefp.state_fp()
                    for sk_ in (3, 3, 5, cs.curve_order - 1):
                        pk = S.SkToPk(sk_)
                        s = S.Sign(sk_, b"msg")
                        r1 = bool(S.Verify(pk, b"msg", s))
                        r2 = bool(S.Verify(pk, b"msg", s))
                        r3 = bool(S.AggregateVerify([pk], [b"msg"], s))
                        if suite == "G2ProofOfPossession":
                            bool(S.PopVerify(pk, S.PopProve(sk_)))
                            bool(S.FastAggregateVerify([pk], b"msg", s))
                        out.append((r1, r2, r3))
                    for bad_sk in (0, -1, cs.curve_order, 3.0):
                        for fn_ in (lambda: S.SkToPk(bad_sk), lambda: S.Sign(bad_sk, b"msg")):
                            try:
                                fn_()
                                out.append(("accepted", repr(bad_sk)))
                            except (ValidationError, TypeError):
                                pass
                    after = statefp.state_fp()
            return statefp.diff(base, after), out
        try:
            d, out = ground()
            rpg = {"kind": "c20_purity", "args": {"what": suite}}
            require(rep, not d, "%s: the API sequence on concrete keys and messages (repeated, incl. refused keys 0, -1, r, 3.0) leaves module state unchanged %s" % (suite, d[:3]), None, rpg)
            require(rep, all(o == out[0] for o in out[:4]) and not [o for o in out if o[0] == "accepted"],
                    "%s: repeated concrete calls give identical answers; refused keys stay refused after valid calls %s" % (suite, [o for o in out if o[0] == "accepted"][:2]), None, rpg)
        except core.Unsupported as e:
            rep.unknown("%s ground pass: %s" % (suite, e))

        # calls that REFUSE their input (ValidationError) must leave no trace either: sk is ANY integer here
        def run_bad(ctx, S=S, suite=suite):
            from eth_utils import ValidationError
            W = World()
            sk = SymZ.var("sk")
            m = AbsBytes.var("m", 0, 300)
            with world.patched(cs, **W.bindings()):
                base = statefp.state_fp()
                for fn_ in ([lambda: S.SkToPk(sk), lambda: S.Sign(sk, m)] + ([lambda: S.PopProve(sk)] if suite == "G2ProofOfPossession" else [])):
                    try:
                        fn_()
                    except ValidationError:
                        pass
                after = statefp.state_fp()
            return statefp.diff(base, after)

        def on_bad(pth, suite=suite):
            rep.paths += 1
            if pth.kind != "ret":
                rep.unknown("%s refusing calls under the monitor: %r" % (suite, pth.value))
                return
            g_, m_ = pth.ctx.satisfiable()
            skv = str(m_.eval(z3.Int("sk"), model_completion=True)) if m_ is not None else "0"
            require(rep, not pth.value, "%s: SkToPk / Sign%s leave module state unchanged for EVERY integer sk, also when they raise %s" % (suite, " / PopProve" if suite.endswith("Possession") else "", pth.value[:3]),
                    pth.decisions, {"kind": "c20_purity", "args": {"what": suite, "sk": skv}})
        core.explore(run_bad, on_path=on_bad, ctx_kwargs=dict(branch_timeout_ms=30000))
    rep.note("%d monitored calls" % M.calls)


@obligation("C20", "no_hidden_inputs_in_the_sources", bound="syntactic: every module under py_ecc/ (AST of the working tree)")
def no_hidden_inputs(rep, tier):
    """no randomness, clock, environment, id()-dependent ordering or `global` rebinding in library code; no statement that
    assigns into / calls a mutating method on a module-level name from inside a function."""
    rp = {"kind": "c20_purity", "args": {"what": "sources"}}
    bad, allowed, n_files = statefp.scan_sources(REPO)
    require(rep, not bad, "no randomness / clock / environment / global rebinding / mutation of module-level objects in %d source files %s" % (n_files, bad[:3]), None, rp)
    rep.note("py_ecc/__init__.py lazily imports sub-packages into its globals (import machinery, not a function of the API): %s" % [a[2] for a in allowed][:3])
