"""helpers shared by the check modules (solver side; imports z3)."""
import importlib
from symx import world as _world
_world.install()      # every check module loads py_ecc through the private import world (from VERIF_REPO, default /repo)
import z3
from symx import core, ring
from symx.ring import Ring, Res


def rdiv(a, b):
    """a / b without the inv0 fork (oracle side; b is non-zero by case assumption)."""
    R = a.ring if isinstance(a, Res) else b.ring
    return R.lift(a) * R.lift(b)._inverse()


# ---- textbook affine chord-and-tangent law (the oracle), on Res values, None = infinity
def aff_double(P):
    if P is None:
        return None
    x, y = P
    m = rdiv(3 * x * x, 2 * y)
    x3 = m * m - 2 * x
    y3 = m * (x - x3) - y
    return (x3, y3)


def aff_add_generic(P, Q):
    x1, y1 = P
    x2, y2 = Q
    m = rdiv(y2 - y1, x2 - x1)
    x3 = m * m - x1 - x2
    y3 = m * (x1 - x3) - y1
    return (x3, y3)


def aff_neg(P):
    if P is None:
        return None
    return (P[0], -P[1])


def aff_line(P1, P2, T, case):
    x1, y1 = P1
    x2, y2 = P2
    xt, yt = T
    if case == "chord":
        m = rdiv(y2 - y1, x2 - x1)
        return m * (xt - x1) - (yt - y1)
    if case == "tangent":
        m = rdiv(3 * x1 * x1, 2 * y1)
        return m * (xt - x1) - (yt - y1)
    return xt - x1


def proj_to_aff(p):
    x, y, z = p
    return (rdiv(x, z), rdiv(y, z))


def jac_to_aff(p):
    x, y, z = p
    return (rdiv(x, z * z), rdiv(y, z * z * z))


CUR_R = [None]
WITNESS_MOD = [None]     # prime of the concrete field the replay will run in (set by harnesses over Z)


def lits_summary(R):
    """path description; also remembers R as the current path's ring so that require() can
    attach the path's concrete witness point (substitutions + evaluation point) to replays."""
    CUR_R[0] = R
    return [("%s%s0" % (" & ".join(core._short(c, 70) for c in l[0]), "==" if l[1] else "!=")) for l in R.lits]


def _attach_witness(replay):
    R = CUR_R[0]
    if R is None or "point" in replay.get("args", {}):
        return replay
    return {"kind": replay["kind"], "args": dict(replay["args"], point=R.witness(WITNESS_MOD[0]),
                                                 zero_lits=[core._short(c, 200) for l in R.lits if l[1] for c in l[0]])}


from symx import harness as _h
_h.Report.replay_hook = staticmethod(_attach_witness)


def lit_index(R, origin=None):
    return [(l[0], l[1]) for l in R.lits if origin is None or l[2] == origin]


def mod(name):
    return importlib.import_module(name)


def require(rep, verdict, what, path=None, replay=None, detail=""):
    """turn an identity verdict into a report entry."""
    if verdict == "zero" or verdict is True or verdict == "unsat":
        rep.ok(what, path=path)
        if replay is not None:
            rep.replay_seen(replay)
        return True
    if verdict == "nonzero" or verdict is False or verdict == "sat":
        rep.fail(what + (" [path %s]" % (path,) if path is not None else ""), replay, detail=detail)
        return False
    rep.unknown(what + (" [path %s]" % (path,) if path is not None else ""), detail)
    return False


def control(rep, verdict, what):
    """negative control: a deliberately wrong statement must be refuted by the same tactic."""
    if verdict in ("nonzero", "sat", False):
        rep.ok("control refuted: " + what, nontrivial=False)
    else:
        rep.unknown("negative control NOT refuted (%s): %s" % (verdict, what))
