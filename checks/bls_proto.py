"""C01-C04, C09 -- the real py_ecc/bls/ciphersuites.py executed over the ideal model (symx.blsmodel)."""
import z3
from symx import core, world
world.install()
from symx.core import SymZ, SymBool
from symx.sbytes import SymBytes, SEQ
from symx.blsmodel import World, MP, GT, F, I, B, R_ORDER
from symx.harness import obligation
from .common import mod, require, control

CS = "py_ecc.bls.ciphersuites"
SUITES = ("G2Basic", "G2MessageAugmentation", "G2ProofOfPossession")
DST = {"G2Basic": b"BLS_SIG_BLS12381G2_XMD:SHA-256_SSWU_RO_NUL_",
       "G2MessageAugmentation": b"BLS_SIG_BLS12381G2_XMD:SHA-256_SSWU_RO_AUG_",
       "G2ProofOfPossession": b"BLS_SIG_BLS12381G2_XMD:SHA-256_SSWU_RO_POP_"}
POP_TAG = b"BLS_POP_BLS12381G2_XMD:SHA-256_SSWU_RO_POP_"
r = R_ORDER


def cs_mod():
    return mod(CS)


def VE():
    from eth_utils import ValidationError
    return ValidationError


def model_vals(m, terms):
    out = {}
    for k, t in terms.items():
        try:
            v = m.eval(t, model_completion=True)
            if z3.is_int_value(v):
                out[k] = str(v.as_long())
            elif z3.is_string_value(v) or v.sort().kind() == z3.Z3_SEQ_SORT:
                out[k] = seq_bytes(m, t).hex()
        except Exception:
            pass
    return out


def seq_bytes(m, t):
    """concrete bytes of a sequence term in a model."""
    n = m.eval(z3.Length(t), model_completion=True).as_long()
    bs = []
    for i in range(min(n, 400)):
        v = m.eval(t[z3.IntVal(i)], model_completion=True)
        bs.append(v.as_long() if z3.is_bv_value(v) else 0)
    return bytes(bs)


def monitor_pairings(rep, pth, W, what, rp):
    """every recorded pairing call has subgroup arguments (t == 0) under the path condition."""
    for (Q, P, fe) in W.pairings:
        g, m = pth.ctx.prove(z3.And(Q.t == 0, P.t == 0))
        require(rep, g, "%s: pairing evaluated only on prime-order-subgroup points" % what, pth.decisions, rp)


# ---------------------------------------------------------------------------
# C01

def _c01_suite(rep, suite):
    cs = cs_mod()
    S = getattr(cs, suite)
    rep.encoded(S.SkToPk, S.Sign, S.Verify, cs.BaseG2Ciphersuite._CoreSign, cs.BaseG2Ciphersuite._CoreVerify, cs.BaseG2Ciphersuite.KeyValidate,
                cs.BaseG2Ciphersuite._is_valid_privkey, S._is_valid_pubkey)
    rep.stub("curve / pairing / codec / hash_to_G2 -> ideal model (symx.blsmodel): bilinear pairing of order r, canonical injective codec, hash into the subgroup")
    rp = {"kind": "bls_sign_verify", "args": {"suite": suite}}
    seen = {"refused": 0, "verified": 0}

    def run(ctx):
        W = World()
        sk = SymZ.var("sk")
        m = SymBytes.var("m", 0, 4)
        with world.patched(cs, **W.bindings()):
            try:
                pk = S.SkToPk(sk)
            except VE():
                try:
                    S.Sign(sk, m)
                    return sk, m, W, ("pk refused but Sign succeeded",)
                except VE():
                    return sk, m, W, ("refused",)
            try:
                sig = S.Sign(sk, m)
            except VE():
                return sk, m, W, ("sign refused",)
            ok = S.Verify(pk, m, sig)
            okb = bool(ok)
        return sk, m, W, ("done", pk, sig, okb, ok)

    def on_path(pth):
        rep.paths += 1
        if pth.kind != "ret":
            rep.fail("%s: SkToPk/Sign/Verify raised %r" % (suite, pth.value), rp)
            return
        sk, m, W, out = pth.value
        mv = lambda mdl: {"kind": "bls_sign_verify", "args": dict(suite=suite, **(model_vals(mdl, {"sk": sk.t, "msg": m.t}) if mdl else {}))}
        in_range = z3.And(sk.t >= 1, sk.t < r)
        if out[0] == "refused":
            seen["refused"] += 1
            g, mdl = pth.ctx.prove(z3.Not(in_range))
            require(rep, g, "%s: SkToPk and Sign refuse (ValidationError) only secret keys outside [1, r-1]" % suite, pth.decisions, mv(mdl))
            return
        if out[0] != "done":
            g, mdl = pth.ctx.satisfiable()
            rep.fail("%s: %s" % (suite, out[0]), mv(mdl))
            return
        _, pk, sig, okb, ok = out
        g, mdl = pth.ctx.prove(in_range)
        require(rep, g, "%s: a key and signature are produced only for sk in [1, r-1]" % suite, pth.decisions, mv(mdl))
        if okb:
            seen["verified"] += 1
            rep.ok("%s: Verify(SkToPk(sk), m, Sign(sk, m)) is True on this path" % suite, path=pth.decisions)
            monitor_pairings(rep, pth, W, suite, rp)
            require(rep, isinstance(ok, (bool, SymBool)), "%s: Verify returns the boolean of the final comparison" % suite, pth.decisions, rp)
        else:
            g, mdl = pth.ctx.satisfiable(timeout_ms=60000)
            if g == "sat":
                rep.fail("%s: an honestly produced signature does not verify" % suite, mv(mdl))
            elif g == "unknown":
                rep.unknown("%s: feasibility of a rejecting sign->verify path undecided" % suite)
    core.explore(run, on_path=on_path, ctx_kwargs=dict(branch_timeout_ms=60000))
    require(rep, seen["refused"] > 0 and seen["verified"] > 0, "%s: reachability (refusing and verifying paths exist)" % suite, None, rp)
    # non-integer keys (concrete sentinels)
    for bad in ("hello", None, 1.5, b"\x01", [1]):
        for fn in (S.SkToPk, lambda k: S.Sign(k, b"m")):
            try:
                fn(bad)
                rep.fail("%s: non-integer secret key %r accepted" % (suite, bad), rp)
            except VE():
                rep.ok("%s: non-integer secret key %r refused" % (suite, type(bad).__name__), nontrivial=False)
            except Exception as e:
                rep.fail("%s: non-integer secret key %r raises %r instead of ValidationError" % (suite, bad, e), rp)


for _s in SUITES:
    def _mk(s):
        def f(rep, tier):
            _c01_suite(rep, s)
        return f
    obligation("C01", "sign_verify_%s" % _s, timeout=900,
               bound="EVERY integer sk (in range => verifies, out of range => ValidationError), every message (content opaque to the model, |m| <= 4 symbolic)")(_mk(_s))


@obligation("C01", "pop_prove_verify", timeout=900, bound="every integer sk; PopVerify(SkToPk(sk), PopProve(sk))")
def pop_prove_verify(rep, tier):
    cs = cs_mod()
    S = cs.G2ProofOfPossession
    rep.encoded(S.PopProve, S.PopVerify, S.SkToPk)
    rp = {"kind": "bls_pop", "args": {}}
    seen = {"refused": 0, "verified": 0}

    def run(ctx):
        W = World()
        sk = SymZ.var("sk")
        with world.patched(cs, **W.bindings()):
            try:
                proof = S.PopProve(sk)
            except VE():
                return sk, W, ("refused",)
            pk = S.SkToPk(sk)
            ok = bool(S.PopVerify(pk, proof))
        return sk, W, ("done", ok)

    def on_path(pth):
        rep.paths += 1
        if pth.kind != "ret":
            rep.fail("PopProve/PopVerify raised %r" % (pth.value,), rp)
            return
        sk, W, out = pth.value
        mv = lambda mdl: {"kind": "bls_pop", "args": model_vals(mdl, {"sk": sk.t}) if mdl else {}}
        if out[0] == "refused":
            seen["refused"] += 1
            g, mdl = pth.ctx.prove(z3.Not(z3.And(sk.t >= 1, sk.t < r)))
            require(rep, g, "PopProve refuses only secret keys outside [1, r-1]", pth.decisions, mv(mdl))
            return
        if out[1]:
            seen["verified"] += 1
            rep.ok("PopVerify(SkToPk(sk), PopProve(sk)) is True on this path", path=pth.decisions)
            monitor_pairings(rep, pth, W, "PopVerify", rp)
        else:
            g, mdl = pth.ctx.satisfiable(timeout_ms=60000)
            if g == "sat":
                rep.fail("an honestly produced possession proof does not verify", mv(mdl))
            elif g == "unknown":
                rep.unknown("feasibility of a rejecting PopProve->PopVerify path undecided")
    core.explore(run, on_path=on_path, ctx_kwargs=dict(branch_timeout_ms=60000))
    require(rep, seen["refused"] > 0 and seen["verified"] > 0, "PoP reachability", None, rp)
