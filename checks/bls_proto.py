"""C01-C04, C09 -- the real py_ecc/bls/ciphersuites.py executed over the ideal model (symx.blsmodel)."""
import z3
from symx import core, world
world.install()
from symx.core import SymZ, SymBool
from symx.sbytes import SEQ, LEN
from symx.sbytes import AbsBytes as SymBytes     # protocol obligations use abstract byte strings (LEN/CAT/equality)
from symx.blsmodel import World, MP, GT, F, I, B, R_ORDER, Poly
from symx.harness import obligation
from .common import mod, require, control

CS = "py_ecc.bls.ciphersuites"
SUITES = ("G2Basic", "G2MessageAugmentation", "G2ProofOfPossession")
DST = {"G2Basic": b"BLS_SIG_BLS12381G2_XMD:SHA-256_SSWU_RO_NUL_",
       "G2MessageAugmentation": b"BLS_SIG_BLS12381G2_XMD:SHA-256_SSWU_RO_AUG_",
       "G2ProofOfPossession": b"BLS_SIG_BLS12381G2_XMD:SHA-256_SSWU_RO_POP_"}
POP_TAG = b"BLS_POP_BLS12381G2_XMD:SHA-256_SSWU_RO_POP_"
r = R_ORDER


def cs_mod():
    return mod(CS)


def VE():
    from eth_utils import ValidationError
    return ValidationError


def model_vals(m, terms):
    out = {}
    for k, t in terms.items():
        try:
            v = m.eval(t, model_completion=True)
            if z3.is_int_value(v):
                out[k] = str(v.as_long())
            elif z3.is_string_value(v) or v.sort().kind() == z3.Z3_SEQ_SORT:
                out[k] = seq_bytes(m, t).hex()
        except Exception:
            pass
    return out


def seq_bytes(m, t):
    """concrete bytes of a sequence term in a model."""
    n = m.eval(z3.Length(t), model_completion=True).as_long()
    bs = []
    for i in range(min(n, 400)):
        v = m.eval(t[z3.IntVal(i)], model_completion=True)
        bs.append(v.as_long() if z3.is_bv_value(v) else 0)
    return bytes(bs)


def monitor_pairings(rep, pth, W, what, rp):
    """every recorded pairing call has subgroup arguments (t == 0) under the path condition."""
    for (Q, P, fe) in W.pairings:
        g, m = pth.ctx.prove(z3.And(Q.t == 0, P.t == 0))
        require(rep, g, "%s: pairing evaluated only on prime-order-subgroup points" % what, pth.decisions, rp)


# ---------------------------------------------------------------------------
# C01

def _c01_suite(rep, suite):
    cs = cs_mod()
    S = getattr(cs, suite)
    rep.encoded(S.SkToPk, S.Sign, S.Verify, cs.BaseG2Ciphersuite._CoreSign, cs.BaseG2Ciphersuite._CoreVerify, cs.BaseG2Ciphersuite.KeyValidate,
                cs.BaseG2Ciphersuite._is_valid_privkey, S._is_valid_pubkey)
    rep.stub("curve / pairing / codec / hash_to_G2 -> ideal model (symx.blsmodel): bilinear pairing of order r, canonical injective codec, hash into the subgroup")
    rp = {"kind": "bls_sign_verify", "args": {"suite": suite}}
    seen = {"refused": 0, "verified": 0}

    def run(ctx):
        W = World()
        sk = SymZ.var("sk")
        m = SymBytes.var("m", 0, 300)
        with world.patched(cs, **W.bindings()):
            try:
                pk = S.SkToPk(sk)
            except VE():
                try:
                    S.Sign(sk, m)
                    return sk, m, W, ("pk refused but Sign succeeded",)
                except VE():
                    return sk, m, W, ("refused",)
            try:
                sig = S.Sign(sk, m)
            except VE():
                return sk, m, W, ("sign refused",)
            ok = S.Verify(pk, m, sig)
            okb = bool(ok)
        return sk, m, W, ("done", pk, sig, okb, ok)

    def on_path(pth):
        rep.paths += 1
        if pth.kind != "ret":
            rep.fail("%s: SkToPk/Sign/Verify raised %r" % (suite, pth.value), rp)
            return
        sk, m, W, out = pth.value
        mv = lambda mdl: {"kind": "bls_sign_verify", "args": dict(suite=suite, **(model_vals(mdl, {"sk": sk.t, "msg": m.t}) if mdl else {}))}
        in_range = z3.And(sk.t >= 1, sk.t < r)
        if out[0] == "refused":
            seen["refused"] += 1
            g, mdl = pth.ctx.prove(z3.Not(in_range))
            require(rep, g, "%s: SkToPk and Sign refuse (ValidationError) only secret keys outside [1, r-1]" % suite, pth.decisions, mv(mdl))
            return
        if out[0] != "done":
            g, mdl = pth.ctx.satisfiable()
            rep.fail("%s: %s" % (suite, out[0]), mv(mdl))
            return
        _, pk, sig, okb, ok = out
        g, mdl = pth.ctx.prove(in_range)
        require(rep, g, "%s: a key and signature are produced only for sk in [1, r-1]" % suite, pth.decisions, mv(mdl))
        if okb:
            seen["verified"] += 1
            rep.ok("%s: Verify(SkToPk(sk), m, Sign(sk, m)) is True on this path" % suite, path=pth.decisions)
            monitor_pairings(rep, pth, W, suite, rp)
            require(rep, isinstance(ok, (bool, SymBool)), "%s: Verify returns the boolean of the final comparison" % suite, pth.decisions, rp)
        else:
            g, mdl = pth.ctx.satisfiable(timeout_ms=60000)
            if g == "sat":
                rep.fail("%s: an honestly produced signature does not verify" % suite, mv(mdl))
            elif g == "unknown":
                rep.unknown("%s: feasibility of a rejecting sign->verify path undecided" % suite)
    core.explore(run, on_path=on_path, ctx_kwargs=dict(branch_timeout_ms=60000))
    require(rep, seen["refused"] > 0 and seen["verified"] > 0, "%s: reachability (refusing and verifying paths exist)" % suite, None, rp)
    # non-integer keys (concrete sentinels)
    for bad in ("hello", None, 1.5, b"\x01", [1]):
        for fn in (S.SkToPk, lambda k: S.Sign(k, b"m")):
            try:
                fn(bad)
                rep.fail("%s: non-integer secret key %r accepted" % (suite, bad), rp)
            except VE():
                rep.ok("%s: non-integer secret key %r refused" % (suite, type(bad).__name__), nontrivial=False)
            except Exception as e:
                rep.fail("%s: non-integer secret key %r raises %r instead of ValidationError" % (suite, bad, e), rp)


for _s in SUITES:
    def _mk(s):
        def f(rep, tier):
            _c01_suite(rep, s)
        return f
    obligation("C01", "sign_verify_%s" % _s, timeout=900,
               bound="EVERY integer sk (in range => verifies, out of range => ValidationError), every message (content opaque to the model, length symbolic 0..300)")(_mk(_s))


@obligation("C01", "pop_prove_verify", timeout=900, bound="every integer sk; PopVerify(SkToPk(sk), PopProve(sk))")
def pop_prove_verify(rep, tier):
    cs = cs_mod()
    S = cs.G2ProofOfPossession
    rep.encoded(S.PopProve, S.PopVerify, S.SkToPk)
    rp = {"kind": "bls_pop", "args": {}}
    seen = {"refused": 0, "verified": 0}

    def run(ctx):
        W = World()
        sk = SymZ.var("sk")
        with world.patched(cs, **W.bindings()):
            try:
                proof = S.PopProve(sk)
            except VE():
                return sk, W, ("refused",)
            pk = S.SkToPk(sk)
            ok = bool(S.PopVerify(pk, proof))
        return sk, W, ("done", ok)

    def on_path(pth):
        rep.paths += 1
        if pth.kind != "ret":
            rep.fail("PopProve/PopVerify raised %r" % (pth.value,), rp)
            return
        sk, W, out = pth.value
        mv = lambda mdl: {"kind": "bls_pop", "args": model_vals(mdl, {"sk": sk.t}) if mdl else {}}
        if out[0] == "refused":
            seen["refused"] += 1
            g, mdl = pth.ctx.prove(z3.Not(z3.And(sk.t >= 1, sk.t < r)))
            require(rep, g, "PopProve refuses only secret keys outside [1, r-1]", pth.decisions, mv(mdl))
            return
        if out[1]:
            seen["verified"] += 1
            rep.ok("PopVerify(SkToPk(sk), PopProve(sk)) is True on this path", path=pth.decisions)
            monitor_pairings(rep, pth, W, "PopVerify", rp)
        else:
            g, mdl = pth.ctx.satisfiable(timeout_ms=60000)
            if g == "sat":
                rep.fail("an honestly produced possession proof does not verify", mv(mdl))
            elif g == "unknown":
                rep.unknown("feasibility of a rejecting PopProve->PopVerify path undecided")
    core.explore(run, on_path=on_path, ctx_kwargs=dict(branch_timeout_ms=60000))
    require(rep, seen["refused"] > 0 and seen["verified"] > 0, "PoP reachability", None, rp)


# ---------------------------------------------------------------------------
# shared set-up for the adversarial-candidate obligations

def prime_lemma(ctx, a, b, rep=None):
    """lemma instance (r prime): a, b not multiples of r  =>  a*b not a multiple of r."""
    from symx.blsmodel import Poly
    pa, pb = Poly.lift(a), Poly.lift(b)
    ctx.add_fact(z3.Implies(z3.And(pa.z3() % r != 0, pb.z3() % r != 0), (pa * pb).z3() % r != 0))
    if rep is not None:
        rep.trust("r is prime: a product of two non-multiples of r is a non-multiple of r (lemma instances on the exponents of the path)")


def honest_key(S, W, name="sk"):
    sk = SymZ.var(name)
    core.cur().assume(z3.And(sk.t >= 1, sk.t < r))
    return sk, S.SkToPk(sk)


def verify_fn(S, which):
    if which == "PopVerify":
        return lambda pk, m, sig: S.PopVerify(pk, sig)
    return lambda pk, m, sig: S.Verify(pk, m, sig)


def sign_fn(S, which):
    if which == "PopVerify":
        return lambda sk, m: S.PopProve(sk)
    return lambda sk, m: S.Sign(sk, m)


# ---------------------------------------------------------------------------
# C02

def _c02(rep, suite, which):
    cs = cs_mod()
    S = getattr(cs, suite)
    rep.encoded(S.Verify, cs.BaseG2Ciphersuite._CoreVerify, cs.BaseG2Ciphersuite.KeyValidate, S._is_valid_pubkey, cs.BaseG2Ciphersuite._is_valid_signature)
    rep.stub("ideal model (symx.blsmodel)")
    rp = {"kind": "bls_unique", "args": {"suite": suite, "which": which}}
    tag = "%s.%s" % (suite, which)
    seen = {True: 0, False: 0}

    def run(ctx):
        W = World()
        m = SymBytes.var("m", 0, 300)
        sig = SymBytes.var("sig", length=96)
        with world.patched(cs, **W.bindings()):
            sk, pk = honest_key(S, W)
            canon = sign_fn(S, which)(sk, m)
            n_pair = len(W.pairings)
            res = verify_fn(S, which)(pk, m, sig)
            okb = bool(res)
        return W, sk, m, sig, canon, okb, n_pair

    def on_path(pth):
        rep.paths += 1
        if pth.kind != "ret":
            rep.fail("%s raised %r on a 96-byte candidate" % (tag, pth.value), rp)
            return
        W, sk, m, sig, canon, okb, n_pair = pth.value
        seen[okb] += 1
        if okb:
            # lemma instances for the exponents on this path (r prime)
            g, mdl = pth.ctx.prove(sig.t == canon.t, timeout_ms=120000)
            require(rep, g, "%s accepts a 96-byte string => it is byte-for-byte the signature Sign produces" % tag, pth.decisions, rp)
            monitor_pairings(rep, pth, W, tag, rp)
        else:
            g, mdl = pth.ctx.prove(sig.t != canon.t, timeout_ms=120000)
            require(rep, g, "%s rejects => the string is not the canonical signature" % tag, pth.decisions, rp)
    core.explore(run, on_path=on_path, ctx_kwargs=dict(branch_timeout_ms=60000))
    require(rep, seen[True] > 0 and seen[False] > 0, "%s: accepting and rejecting paths both reachable" % tag, None, rp)


for _s in SUITES:
    def _mk2(s, w):
        def f(rep, tier):
            _c02(rep, s, w)
        return f
    obligation("C02", "unique_%s" % _s, timeout=1200,
               bound="every sk in [1, r-1], every message (opaque), EVERY 96-byte candidate string: Verify is True iff the string equals Sign(sk, m)")(_mk2(_s, "Verify"))
obligation("C02", "unique_PopVerify", timeout=1200, bound="every sk in [1, r-1], every 96-byte candidate proof")(_mk2("G2ProofOfPossession", "PopVerify"))


@obligation("C02", "cross_domain_and_related_signatures", timeout=1500,
            bound="every sk, sk2 in [1, r-1], every message pair; candidates: other key, other message, other suite, PoP-vs-message tag, AUG without prefix, -S, 2S, S+T (T != 0 torsion), infinity")
def c02_corollaries(rep, tier):
    cs = cs_mod()
    rp = {"kind": "bls_related", "args": {}}
    rep.stub("ideal model (symx.blsmodel)")
    Basic, Aug, Pop = cs.G2Basic, cs.G2MessageAugmentation, cs.G2ProofOfPossession
    rep.encoded(Basic.Verify, Aug.Verify, Pop.Verify, Pop.PopVerify)

    def scenario(name, build, expect_false=True):
        res = {"n": 0}

        def run(ctx):
            W = World()
            with world.patched(cs, **W.bindings()):
                out = build(ctx, W)
                return W, bool(out)

        def on_path(pth):
            rep.paths += 1
            if pth.kind != "ret":
                rep.fail("scenario %s raised %r" % (name, pth.value), rp)
                return
            W, okb = pth.value
            res["n"] += 1
            if okb:
                g, mdl = pth.ctx.satisfiable(timeout_ms=120000)
                if g == "sat":
                    rep.fail("scenario '%s': the verifier ACCEPTS" % name, {"kind": "bls_related", "args": {"scenario": name}})
                elif g == "unknown":
                    rep.unknown("scenario '%s': feasibility of the accepting path undecided" % name)
            else:
                rep.ok("scenario '%s' rejected on this path" % name, path=pth.decisions)
        core.explore(run, on_path=on_path, ctx_kwargs=dict(branch_timeout_ms=60000))
        require(rep, res["n"] > 0, "scenario '%s' explored" % name, None, rp)

    def two_keys(ctx, W, S):
        sk, pk = honest_key(S, W, "sk")
        sk2 = SymZ.var("sk2")
        ctx.assume(z3.And(sk2.t >= 1, sk2.t < r, sk2.t != sk.t))
        return sk, pk, sk2

    def other_key(ctx, W):
        sk, pk, sk2 = two_keys(ctx, W, Basic)
        m = SymBytes.var("m", 0, 300)
        sig = Basic.Sign(sk2, m)
        h = W.hash_calls[-1][3]
        prime_lemma(ctx, h, sk2.t - sk.t, rep)
        return Basic.Verify(pk, m, sig)
    scenario("signature of another key", other_key)

    def other_message(ctx, W):
        sk, pk = honest_key(Basic, W)
        m1, m2 = SymBytes.var("m1", 0, 300), SymBytes.var("m2", 0, 300)
        ctx.assume(m1.t != m2.t)
        sig = Basic.Sign(sk, m1)
        h1 = W.hash_calls[-1][3]
        out = Basic.Verify(pk, m2, sig)
        h2 = W.hash_calls[-1][3]
        prime_lemma(ctx, h1 - h2, sk.t, rep)
        return out

    def other_message_run(ctx, W):
        # lemma must be in place before the final comparison: pre-register both hash values
        sk, pk = honest_key(Basic, W)
        m1, m2 = SymBytes.var("m1", 0, 300), SymBytes.var("m2", 0, 300)
        ctx.assume(m1.t != m2.t)
        h1 = W.hash_to_G2(m1, Basic.DST, Basic.xmd_hash_function).k
        h2 = W.hash_to_G2(m2, Basic.DST, Basic.xmd_hash_function).k
        prime_lemma(ctx, h1 - h2, sk.t, rep)
        sig = Basic.Sign(sk, m1)
        return Basic.Verify(pk, m2, sig)
    scenario("signature on another message", other_message_run)

    def other_suite(ctx, W):
        sk, pk = honest_key(Basic, W)
        m = SymBytes.var("m", 0, 300)
        h1 = W.hash_to_G2(m, Basic.DST, Basic.xmd_hash_function).k
        h2 = W.hash_to_G2(m, Pop.DST, Pop.xmd_hash_function).k
        prime_lemma(ctx, h1 - h2, sk.t, rep)
        sig = Pop.Sign(sk, m)
        return Basic.Verify(pk, m, sig)
    scenario("signature made under another suite (POP tag checked by NUL suite)", other_suite)

    def pop_as_sig(ctx, W):
        sk, pk = honest_key(Pop, W)
        h1 = W.hash_to_G2(pk, Pop.DST, Pop.xmd_hash_function).k
        h2 = W.hash_to_G2(pk, Pop.POP_TAG, Pop.xmd_hash_function).k
        prime_lemma(ctx, h1 - h2, sk.t, rep)
        proof = Pop.PopProve(sk)
        return Pop.Verify(pk, pk, proof)
    scenario("possession proof presented as a message signature on the key", pop_as_sig)

    def sig_as_pop(ctx, W):
        sk, pk = honest_key(Pop, W)
        h1 = W.hash_to_G2(pk, Pop.DST, Pop.xmd_hash_function).k
        h2 = W.hash_to_G2(pk, Pop.POP_TAG, Pop.xmd_hash_function).k
        prime_lemma(ctx, h1 - h2, sk.t, rep)
        sig = Pop.Sign(sk, pk)
        return Pop.PopVerify(pk, sig)
    scenario("message signature on the key presented as a possession proof", sig_as_pop)

    def sig_as_pop_after(ctx, W):
        sk, pk = honest_key(Pop, W)
        h1 = W.hash_to_G2(pk, Pop.DST, Pop.xmd_hash_function).k
        h2 = W.hash_to_G2(pk, Pop.POP_TAG, Pop.xmd_hash_function).k
        prime_lemma(ctx, h1 - h2, sk.t, rep)
        sig = Pop.Sign(sk, pk)
        bool(Pop.Verify(pk, pk, sig))          # the legitimate check first: its answer must not be remembered across tags
        return Pop.PopVerify(pk, sig)
    scenario("message signature on the key presented as a possession proof AFTER its legitimate verification", sig_as_pop_after)

    def pop_as_sig_after(ctx, W):
        sk, pk = honest_key(Pop, W)
        h1 = W.hash_to_G2(pk, Pop.DST, Pop.xmd_hash_function).k
        h2 = W.hash_to_G2(pk, Pop.POP_TAG, Pop.xmd_hash_function).k
        prime_lemma(ctx, h1 - h2, sk.t, rep)
        proof = Pop.PopProve(sk)
        bool(Pop.PopVerify(pk, proof))
        return Pop.Verify(pk, pk, proof)
    scenario("possession proof presented as a message signature AFTER its legitimate verification", pop_as_sig_after)

    def other_suite_after(ctx, W):
        sk, pk = honest_key(Basic, W)
        m = SymBytes.var("m", 0, 300)
        h1 = W.hash_to_G2(m, Basic.DST, Basic.xmd_hash_function).k
        h2 = W.hash_to_G2(m, Pop.DST, Pop.xmd_hash_function).k
        prime_lemma(ctx, h1 - h2, sk.t, rep)
        sig = Basic.Sign(sk, m)
        bool(Basic.Verify(pk, m, sig))
        return Pop.Verify(pk, m, sig)
    scenario("signature of the NUL suite checked by the POP suite AFTER its legitimate verification", other_suite_after)

    def aug_without_prefix(ctx, W):
        sk, pk = honest_key(Aug, W)
        m = SymBytes.var("m", 0, 300)
        h1 = W.hash_to_G2(pk + m, Aug.DST, Aug.xmd_hash_function).k
        h2 = W.hash_to_G2(pk + (pk + m), Aug.DST, Aug.xmd_hash_function).k
        prime_lemma(ctx, h1 - h2, sk.t, rep)
        # signature over m WITHOUT the key prefix (as the core would produce), verified by the augmenting Verify
        sig = cs.BaseG2Ciphersuite._CoreSign.__func__(Aug, sk, m, Aug.DST)
        h0 = W.hash_calls[-1][3]
        prime_lemma(ctx, h0 - h1, sk.t, rep)
        return Aug.Verify(pk, m, sig)
    scenario("augmented suite: signature computed without the key prefix", aug_without_prefix)

    def variant(kind):
        def f(ctx, W):
            sk, pk = honest_key(Basic, W)
            m = SymBytes.var("m", 0, 300)
            H = W.hash_to_G2(m, Basic.DST, Basic.xmd_hash_function)
            prime_lemma(ctx, H.k, sk.t, rep)
            S_pt = W.multiply(H, sk)
            if kind == "neg":
                P = W.neg(S_pt)
                prime_lemma(ctx, z3.IntVal(2), H.k * sk.t, rep)
            elif kind == "double":
                P = W.add(S_pt, S_pt)
            elif kind == "torsion":
                t = z3.Int("tors")
                ctx.assume(t != 0)
                P = MP("G2", S_pt.kp, t)
            else:
                P = MP("G2", 0, 0)
            sig = W.G2_to_signature(P)
            return Basic.Verify(pk, m, sig)
        return f
    scenario("negated signature -S", variant("neg"))
    scenario("doubled signature 2S", variant("double"))
    scenario("S + T for a non-trivial cofactor-torsion point T", variant("torsion"))
    scenario("the identity encoding as signature", variant("inf"))


# ---------------------------------------------------------------------------
# C09

@obligation("C09", "outputs_are_the_ietf_byte_strings", timeout=900,
            bound="every sk in [1, r-1], every message; the three suites and PopProve; tags compared with literals pinned in the harness")
def c09_outputs(rep, tier):
    cs = cs_mod()
    rp = {"kind": "bls_vectors", "args": {}}
    rep.stub("ideal model (symx.blsmodel); ENC1/ENC2 are the ZCash compressed encodings (C11), hash_to_G2 is RFC 9380 hash_to_curve (C10/C15), G1 the standard generator (C07)")
    import hashlib
    for suite in SUITES:
        S = getattr(cs, suite)
        rep.encoded(S.SkToPk, S.Sign, cs.BaseG2Ciphersuite._CoreSign)
        require(rep, S.DST == DST[suite], "%s.DST is the IETF v4 tag %r" % (suite, DST[suite]), None, rp)

        def run(ctx, S=S, suite=suite):
            W = World()
            sk = SymZ.var("sk", 1, r - 1)
            m = SymBytes.var("m", 0, 300)
            with world.patched(cs, **W.bindings()):
                pk = S.SkToPk(sk)
                n0 = len(W.hash_calls)
                sig = S.Sign(sk, m)
            return W, sk, m, pk, sig, n0

        def on_path(pth, S=S, suite=suite):
            rep.paths += 1
            if pth.kind != "ret":
                rep.fail("%s SkToPk/Sign raised %r for a valid key" % (suite, pth.value), rp)
                return
            W, sk, m, pk, sig, n0 = pth.value
            enc_pk = [e for e in W.encodes if e[0] == 1]
            require(rep, len(enc_pk) >= 1 and enc_pk[0][1].group == "G1", "%s.SkToPk encodes a G1 point" % suite, pth.decisions, rp)
            g, mdl = pth.ctx.prove(z3.And(enc_pk[0][1].k == sk.t, enc_pk[0][1].t == 0, pk.t == enc_pk[0][2]))
            require(rep, g, "%s.SkToPk(sk) = compress(sk * G1)" % suite, pth.decisions, rp)
            calls = W.hash_calls[n0:]
            require(rep, len(calls) == 1, "%s.Sign hashes to the curve exactly once" % suite, pth.decisions, rp)
            hm, hd, hf, he = calls[0]
            want_msg = (pk + m) if suite == "G2MessageAugmentation" else m
            g, mdl = pth.ctx.prove(z3.And(hm.t == SymBytes.lift(want_msg).t, hd.t == SymBytes.concrete(DST[suite]).t))
            require(rep, g, "%s.Sign hashes %s under the suite tag" % (suite, "PK || message" if suite == "G2MessageAugmentation" else "the message"),
                    pth.decisions, rp)
            require(rep, getattr(hf, "__symx_hash_name__", getattr(hf, "__name__", "")) in ("sha256", "openssl_sha256"),
                    "%s.Sign uses SHA-256 for expand_message_xmd" % suite, pth.decisions, rp)
            if not [e for e in W.encodes if e[0] == 2]:
                rep.fail("%s.Sign does not encode a G2 point on this path" % suite, rp, detail=str(pth.decisions))
                return
            enc_sig = [e for e in W.encodes if e[0] == 2][-1]
            from symx.blsmodel import Poly
            g, mdl = pth.ctx.prove(z3.And(enc_sig[1].k == (Poly.lift(he) * Poly.lift(sk.t)).z3(), enc_sig[1].t == 0, sig.t == enc_sig[2]))
            require(rep, g, "%s.Sign(sk, m) = compress(sk * hash_to_curve(...))" % suite, pth.decisions, rp)
        core.explore(run, on_path=on_path)

    S = cs.G2ProofOfPossession
    require(rep, S.POP_TAG == POP_TAG, "POP_TAG is the IETF v4 tag", None, rp)

    def run_pop(ctx):
        W = World()
        sk = SymZ.var("sk", 1, r - 1)
        with world.patched(cs, **W.bindings()):
            proof = S.PopProve(sk)
        return W, sk, proof

    def on_pop(pth):
        rep.paths += 1
        if pth.kind != "ret":
            rep.fail("PopProve raised %r" % (pth.value,), rp)
            return
        W, sk, proof = pth.value
        if not W.hash_calls or not [e for e in W.encodes if e[0] == 1] or not [e for e in W.encodes if e[0] == 2]:
            rep.fail("PopProve does not hash the public key to the curve / encode its result on this path (hash calls: %d)" % len(W.hash_calls), rp, detail=str(pth.decisions))
            return
        hm, hd, hf, he = W.hash_calls[-1]
        pk_enc = [e for e in W.encodes if e[0] == 1][0]
        g, mdl = pth.ctx.prove(z3.And(hm.t == pk_enc[2], hd.t == SymBytes.concrete(POP_TAG).t, pk_enc[1].k == sk.t))
        require(rep, g, "PopProve signs the public key sk*G1 under the BLS_POP_ tag", pth.decisions, rp)
        enc_sig = [e for e in W.encodes if e[0] == 2][-1]
        from symx.blsmodel import Poly
        g, mdl = pth.ctx.prove(z3.And(enc_sig[1].k == (Poly.lift(he) * Poly.lift(sk.t)).z3(), proof.t == enc_sig[2]))
        require(rep, g, "PopProve(sk) = compress(sk * hash_to_curve(PK, POP tag))", pth.decisions, rp)
    core.explore(run_pop, on_path=on_pop)
    rep.note("byte-level conformance = this obligation + C11 (ZCash format) + C10/C15 (RFC 9380) + C07 (generator constants); published vectors are replay oracles")


# ---------------------------------------------------------------------------
# C03

def _sum_poly(ps):
    from symx.blsmodel import Poly
    t = Poly()
    for p_ in ps:
        t = t + p_
    return t


@obligation("C03", "aggregate_is_group_sum", timeout=900, bound="lists of 1..4 (quick) / 1..8 (thorough) arbitrary 96-byte strings (symbolic content), every permutation; empty list and wrongly sized entries")
def c03_aggregate(rep, tier):
    import itertools
    cs = cs_mod()
    rp = {"kind": "bls_aggregate", "args": {}}
    rep.stub("ideal model (symx.blsmodel)")
    nmax = 4 if tier == "quick" else 8
    for suite in SUITES:
        S = getattr(cs, suite)
        rep.encoded(S.Aggregate)
        for n in range(1, nmax + 1):
            def run(ctx, n=n, S=S):
                W = World()
                sigs = [SymBytes.var("s%d" % i, length=96) for i in range(n)]
                with world.patched(cs, **W.bindings()):
                    try:
                        agg = S.Aggregate(sigs)
                    except (ValueError, VE()) as e:
                        return W, sigs, ("raised", type(e).__name__)
                    perm = list(reversed(sigs)) if n > 1 else sigs
                    agg2 = S.Aggregate(perm)
                    rot = sigs[1:] + sigs[:1]
                    agg3 = S.Aggregate(rot)
                return W, sigs, ("ok", agg, agg2, agg3)

            def on_path(pth, n=n, suite=suite):
                rep.paths += 1
                if pth.kind != "ret":
                    rep.fail("%s.Aggregate raised %r" % (suite, pth.value), rp)
                    return
                W, sigs, out = pth.value
                dec = [d for d in W.decodes if d[0] == "g2"]
                valid = W.codec(2)[3]
                if out[0] == "raised":
                    g, mdl = pth.ctx.prove(z3.Not(z3.And(*[valid(s.t) for s in sigs])))
                    require(rep, g, "%s.Aggregate raises only if some entry is not a canonical encoding" % suite, pth.decisions, rp)
                    return
                _, agg, agg2, agg3 = out
                first = [d[2] for d in dec[:n]]
                enc = [e for e in W.encodes if e[0] == 2][0]
                g, mdl = pth.ctx.prove(z3.And(enc[1].k == _sum_poly([p_.kp for p_ in first]).z3(), enc[1].t == _sum_poly([p_.tp for p_ in first]).z3(),
                                              agg.t == enc[2], LEN(agg.t) == 96))
                require(rep, g, "%s.Aggregate(n=%d) = canonical encoding of the group sum of the decoded signatures" % (suite, n), pth.decisions, rp)
                encs = [e for e in W.encodes if e[0] == 2]
                same_args = z3.And(*[z3.And(e[1].t == enc[1].t, (e[1].k - enc[1].k) % r == 0) for e in encs[1:3]])
                g, mdl = pth.ctx.prove(same_args, timeout_ms=60000)
                require(rep, g and len(encs) == 3 and agg2.t.eq(encs[1][2]) and agg3.t.eq(encs[2][2]),
                        "%s.Aggregate(n=%d) is independent of the order of the list (same group element is encoded; the encoding is canonical)" % (suite, n),
                        pth.decisions, rp)
            core.explore(run, on_path=on_path, ctx_kwargs=dict(branch_timeout_ms=30000))
        # empty list / wrong sizes
        try:
            S.Aggregate([])
            rep.fail("%s.Aggregate([]) did not raise" % suite, rp)
        except VE():
            rep.ok("%s.Aggregate([]) raises ValidationError" % suite, nontrivial=False)

        def run_len(ctx, S=S):
            W = World()
            s0 = SymBytes.var("s0", length=96)
            s1 = SymBytes.var("s1", 0, 200)
            with world.patched(cs, **W.bindings()):
                try:
                    S.Aggregate([s0, s1])
                except VE():
                    return s1, "refused"
                except ValueError:
                    return s1, "valueerror"
            return s1, "ok"

        def on_len(pth, suite=suite):
            rep.paths += 1
            if pth.kind != "ret":
                rep.fail("%s.Aggregate with an odd-sized entry raised %r" % (suite, pth.value), rp)
                return
            s1, out = pth.value
            L = SymZ.lift(s1.length)
            if out == "refused":
                rep.ok("%s.Aggregate refuses on this path" % suite, path=pth.decisions, nontrivial=False)
            else:
                g, mdl = pth.ctx.prove(L.t == 96)
                require(rep, g, "%s.Aggregate gets past input validation only with 96-byte entries" % suite, pth.decisions, rp)
        core.explore(run_len, on_path=on_len)


def _agg_verify(rep, suite, n, fast=False):
    cs = cs_mod()
    S = getattr(cs, suite)
    tag = "%s.%s(n=%d)" % (suite, "FastAggregateVerify" if fast else "AggregateVerify", n)
    rp = {"kind": "bls_aggverify", "args": {"suite": suite, "n": n, "fast": fast}}
    seen = {True: 0, False: 0}

    def run(ctx):
        W = World()
        sig = SymBytes.var("sig", length=96)
        with world.patched(cs, **W.bindings()):
            sks, pks = [], []
            for i in range(n):
                sk, pk = honest_key(S, W, "sk%d" % i)
                sks.append(sk)
                pks.append(pk)
            if fast:
                m = SymBytes.var("m", 0, 300)
                msgs = [m] * n
                H = [W.hash_to_G2(m, S.DST, S.xmd_hash_function)] * n
                res = S.FastAggregateVerify(pks, m, sig)
            else:
                msgs = [SymBytes.var("m%d" % i, 0, 300) for i in range(n)]
                eff = [(pks[i] + msgs[i]) if suite == "G2MessageAugmentation" else msgs[i] for i in range(n)]
                H = [W.hash_to_G2(eff[i], S.DST, S.xmd_hash_function) for i in range(n)]
                res = S.AggregateVerify(pks, msgs, sig)
            okb = bool(res)
            expected = W.G2_to_signature(MP("G2", _sum_poly([H[i].kp * sks[i].t for i in range(n)]), 0))
        return W, sks, msgs, sig, okb, expected

    def on_path(pth):
        rep.paths += 1
        if pth.kind != "ret":
            rep.fail("%s raised %r" % (tag, pth.value), rp)
            return
        W, sks, msgs, sig, okb, expected = pth.value
        seen[okb] += 1
        distinct = z3.And(*[msgs[i].t != msgs[j].t for i in range(n) for j in range(i + 1, n)]) if (suite == "G2Basic" and not fast and n > 1) else z3.BoolVal(True)
        if okb:
            g, mdl = pth.ctx.prove(z3.And(sig.t == expected.t, distinct), timeout_ms=120000)
            require(rep, g, "%s True => signature is the canonical sum of the signers' own signatures and the suite preconditions hold" % tag, pth.decisions, rp)
            monitor_pairings(rep, pth, W, tag, rp)
        else:
            degenerate = z3.BoolVal(False)
            if fast:
                # IETF draft: FastAggregateVerify is CoreVerify under the AGGREGATE key, which must itself pass KeyValidate
                degenerate = (_sum_poly([Poly.lift(s_.t) for s_ in sks]).z3() % r) == 0
            g, mdl = pth.ctx.prove(z3.Or(sig.t != expected.t, z3.Not(distinct), degenerate), timeout_ms=120000)
            require(rep, g, "%s False => the signature is not that sum, or a precondition fails" % tag, pth.decisions, rp)
    core.explore(run, on_path=on_path, ctx_kwargs=dict(branch_timeout_ms=60000))
    require(rep, (seen[True] > 0 or n_keys == 0) and seen[False] > 0, "%s: accepting and rejecting paths reachable" % tag, None, rp)


for _s in SUITES:
    def _mk3(s):
        def f(rep, tier):
            cs = cs_mod()
            rep.encoded(getattr(cs, s).AggregateVerify, cs.BaseG2Ciphersuite._CoreAggregateVerify)
            rep.stub("ideal model (symx.blsmodel)")
            # G2Basic compares the messages pairwise: paths grow like the Bell numbers (n = 8: 4140 partitions), so it stops at 7
            for n in ((1, 2, 3, 4) if tier == "quick" else ((1, 2, 3, 4, 5, 6, 7) if s == "G2Basic" else (1, 2, 3, 4, 5, 6, 8))):
                _agg_verify(rep, s, n)
        return f
    obligation("C03", "aggregate_verify_%s" % _s, timeout=1500,
               bound="1..4 (quick) / 1..6 and 8 (thorough; 1..7 for G2Basic, whose distinct-message test multiplies the paths) signers with arbitrary valid keys sk_i in [1, r-1] (repeats allowed), arbitrary messages, EVERY 96-byte candidate aggregate")(_mk3(_s))


@obligation("C03", "fast_aggregate_verify", timeout=1500, bound="1..4 (quick) / 1..6 and 8 (thorough) signers, one shared message, every 96-byte candidate")
def c03_fast(rep, tier):
    cs = cs_mod()
    rep.encoded(cs.G2ProofOfPossession.FastAggregateVerify, cs.G2ProofOfPossession._AggregatePKs)
    rep.stub("ideal model (symx.blsmodel)")
    for n in ((1, 2, 3, 4) if tier == "quick" else (1, 2, 3, 4, 5, 6, 8)):
        _agg_verify(rep, "G2ProofOfPossession", n, fast=True)


@obligation("C03", "aggregate_verify_preconditions", timeout=600, bound="empty inputs, length mismatch (concrete list shapes, symbolic contents)")
def c03_preconditions(rep, tier):
    cs = cs_mod()
    rp = {"kind": "bls_aggverify", "args": {"suite": "all", "n": 0, "fast": False}}
    for suite in SUITES:
        S = getattr(cs, suite)

        def run(ctx, S=S):
            W = World()
            sig = SymBytes.var("sig", length=96)
            with world.patched(cs, **W.bindings()):
                sk, pk = honest_key(S, W)
                m = SymBytes.var("m", 0, 300)
                outs = [bool(S.AggregateVerify([], [], sig)), bool(S.AggregateVerify([pk], [], sig)), bool(S.AggregateVerify([pk], [m, m], sig)),
                        bool(S.AggregateVerify([pk, pk], [m], sig))]
                if hasattr(S, "FastAggregateVerify"):
                    outs.append(bool(S.FastAggregateVerify([], m, sig)))
            return outs

        def on_path(pth, suite=suite):
            rep.paths += 1
            if pth.kind != "ret":
                rep.fail("%s aggregate verification raised %r on empty / mismatched lists" % (suite, pth.value), rp)
                return
            require(rep, not any(pth.value), "%s: empty signer set and key/message count mismatch are rejected (False, no exception)" % suite, pth.decisions, rp)
        core.explore(run, on_path=on_path)


# ---------------------------------------------------------------------------
# C04

def _c04_conditions(W, pk, sig):
    """what a True answer must imply for one key string and the signature string."""
    _, dk1, dt1, valid1 = W.codec(1)
    _, dk2, dt2, valid2 = W.codec(2)
    conds = []
    if pk is not None:
        conds += [LEN(pk.t) == 48, valid1(pk.t), dt1(pk.t) == 0, dk1(pk.t) % r != 0]
    if sig is not None:
        conds += [LEN(sig.t) == 96, valid2(sig.t), dt2(sig.t) == 0]
    return conds


def _c04_run(rep, name, call, n_keys, with_sig, tag, replay_kind="bls_total", n_msgs=None):
    cs = cs_mod()
    rp = {"kind": replay_kind, "args": {"what": tag}}
    seen = {True: 0, False: 0}

    def run(ctx):
        W = World()
        pks = [SymBytes.var("pk%d" % i, 0, 200) for i in range(n_keys)]
        sig = SymBytes.var("sig", 0, 200) if with_sig else None
        msgs = [SymBytes.var("m%d" % i, 0, 300) for i in range(max(n_keys, 1) if n_msgs is None else n_msgs)]
        with world.patched(cs, **W.bindings()):
            res = call(cs, pks, msgs, sig)
            isb = isinstance(res, (bool, SymBool))
            okb = bool(res)
        return W, pks, sig, okb, isb

    def on_path(pth):
        rep.paths += 1
        if pth.kind != "ret":
            g, mdl = pth.ctx.satisfiable()
            lens = {}
            if mdl is not None:
                for d in mdl.decls():
                    pass
            rep.fail("%s raised %r on arbitrary byte strings (must return False)" % (tag, pth.value), rp)
            return
        W, pks, sig, okb, isb = pth.value
        require(rep, isb, "%s returns a boolean" % tag, pth.decisions, rp)
        seen[okb] += 1
        if okb and n_keys == 0:
            g, mdl = pth.ctx.satisfiable()
            if g != "unsat":
                rep.fail("%s returns True for an EMPTY key list" % tag, rp, detail=str(pth.decisions))
        if okb:
            conds = []
            for pk in pks:
                conds += _c04_conditions(W, pk, None)
            conds += _c04_conditions(W, None, sig)
            for cnd in conds:
                g, mdl = pth.ctx.prove(cnd)
                rpm = rp
                if g == "sat":
                    lens = {}
                    for i, pk in enumerate(pks):
                        lens["len_pk%d" % i] = mdl.eval(LEN(pk.t), model_completion=True).as_long()
                    if sig is not None:
                        lens["len_sig"] = mdl.eval(LEN(sig.t), model_completion=True).as_long()
                    rpm = {"kind": replay_kind, "args": dict(what=tag, **lens)}
                require(rep, g, "%s True => %s" % (tag, core._short(cnd, 60)), pth.decisions, rpm)
        monitor_pairings(rep, pth, W, tag, rp)
    core.explore(run, on_path=on_path, ctx_kwargs=dict(branch_timeout_ms=30000, max_decisions=300), max_paths=20000)
    require(rep, (seen[True] > 0 or n_keys == 0) and seen[False] > 0, "%s: accepting and rejecting paths reachable" % tag, None, rp)


@obligation("C04", "key_validate_total", bound="every byte string of length 0..200 as public key (content abstract, length symbolic)")
def c04_keyvalidate(rep, tier):
    cs = cs_mod()
    rep.encoded(cs.BaseG2Ciphersuite.KeyValidate)
    rep.stub("ideal model; pubkey_to_G1 with the REAL decoder's length behaviour (C11 byte_helpers / decompress_G1 length contract): < 48 bytes refused, longer strings decoded from their last 48 bytes")
    for suite in SUITES:
        _c04_run(rep, "kv", lambda cs, pks, msgs, sig, suite=suite: getattr(cs, suite).KeyValidate(pks[0]), 1, False, "%s.KeyValidate" % suite, "bls_keyvalidate")


for _s in SUITES:
    def _mk4(s):
        def f(rep, tier):
            cs = cs_mod()
            rep.encoded(getattr(cs, s).Verify, cs.BaseG2Ciphersuite._CoreVerify)
            rep.stub("ideal model (symx.blsmodel)")
            _c04_run(rep, "v", lambda cs, pks, msgs, sig: getattr(cs, s).Verify(pks[0], msgs[0], sig), 1, True, "%s.Verify" % s)
            _c04_run(rep, "av0", lambda cs, pks, msgs, sig: getattr(cs, s).AggregateVerify(pks, msgs, sig), 0, True, "%s.AggregateVerify(0 keys)" % s, n_msgs=0)
            _c04_run(rep, "av1", lambda cs, pks, msgs, sig: getattr(cs, s).AggregateVerify(pks, msgs, sig), 1, True, "%s.AggregateVerify(1 key)" % s)
            _c04_run(rep, "av2", lambda cs, pks, msgs, sig: getattr(cs, s).AggregateVerify(pks, msgs, sig), 2, True, "%s.AggregateVerify(2 keys)" % s)
            _c04_run(rep, "av3", lambda cs, pks, msgs, sig: getattr(cs, s).AggregateVerify(pks, msgs, sig), 3, True, "%s.AggregateVerify(3 keys)" % s)
            if tier == "thorough":
                _c04_run(rep, "av4", lambda cs, pks, msgs, sig: getattr(cs, s).AggregateVerify(pks, msgs, sig), 4, True, "%s.AggregateVerify(4 keys)" % s)
        return f
    obligation("C04", "verifiers_total_%s" % _s, timeout=1200,
               bound="every byte string of length 0..200 for each key and the signature (lengths symbolic, contents abstract), 0..3 keys (quick) / 0..4 (thorough); every message")(_mk4(_s))


@obligation("C04", "pop_verifiers_total", timeout=1200, bound="PopVerify and FastAggregateVerify with 0..3 (quick) / 0..4 (thorough) arbitrary key strings of length 0..200, arbitrary signature string")
def c04_pop(rep, tier):
    cs = cs_mod()
    S = cs.G2ProofOfPossession
    rep.encoded(S.PopVerify, S.FastAggregateVerify, S._AggregatePKs, S._is_valid_pubkey)
    rep.stub("ideal model (symx.blsmodel)")
    _c04_run(rep, "pv", lambda cs, pks, msgs, sig: cs.G2ProofOfPossession.PopVerify(pks[0], sig), 1, True, "PopVerify")
    for n in ((0, 1, 2, 3) if tier == "quick" else (0, 1, 2, 3, 4)):
        _c04_run(rep, "fav", lambda cs, pks, msgs, sig: cs.G2ProofOfPossession.FastAggregateVerify(pks, msgs[0], sig), n, True, "FastAggregateVerify(%d keys)" % n)
