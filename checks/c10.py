"""C10 -- hash_to_curve follows RFC 9380 and always lands in the prime-order subgroup."""
import z3
from symx import core, ring, world
world.install()
from symx.core import SymZ, SymBool
from symx.ring import Ring, Res
from symx.harness import obligation
from .common import mod, require, control, lits_summary, rdiv
from .c08 import inv_stub_ring, cf

SWU = "py_ecc.optimized_bls12_381.optimized_swu"
OPT = "py_ecc.optimized_bls12_381"
FE = "py_ecc.fields.optimized_field_elements"

# RFC 9380 8.8.1 / 8.8.2 (pinned)
G1_A = 0x144698a3b8e9433d693a02c96d4982b0ea985383ee66a8d8e8981aefd881ac98936f8da0e0f97f5cf428082d584c1d
G1_B = 0x12e2908d11688030018b12e8753eee3b2016c1f0f24f4070a0b9c14fcef35ef55a23215a316ceaa5d1cc48e98e172be0
G1_Z = 11


def _p():
    return mod(OPT).field_modulus


@obligation("C10", "swu_constants_rfc9380", bound="ground")
def swu_constants(rep, tier):
    c = mod("py_ecc.optimized_bls12_381.constants")
    p = _p()
    rp = {"kind": "c10_map", "args": {"group": "G1"}}
    require(rep, int(c.ISO_11_A.n) == G1_A and int(c.ISO_11_B.n) == G1_B and int(c.ISO_11_Z.n) == G1_Z, "G1: A', B', Z are the RFC 9380 8.8.1 values", None, rp)
    require(rep, [int(x) for x in c.ISO_3_A.coeffs] == [0, 240] and [int(x) for x in c.ISO_3_B.coeffs] == [1012, 1012] and
            [int(x) for x in c.ISO_3_Z.coeffs] == [p - 2, p - 1], "G2: A' = 240 i, B' = 1012 (1 + i), Z = -(2 + i) (RFC 9380 8.8.2)", None, rp)
    require(rep, c.P_MINUS_3_DIV_4 == (p - 3) // 4 and c.P_MINUS_9_DIV_16 == (p * p - 9) // 16, "exponents (p-3)/4 and (p^2-9)/16", None, rp)
    # sqrt(-Z^3) constant used for the non-square case
    s = int(c.SQRT_MINUS_11_CUBED.n)
    require(rep, (s * s + 11 ** 3) % p == 0, "SQRT_MINUS_11_CUBED^2 = -11^3 (ground)", None, rp)
    require(rep, p % 4 == 3 and (p * p) % 16 == 9, "p = 3 (mod 4), p^2 = 9 (mod 16)", None, rp)


# ---------------------------------------------------------------------------
# simplified SWU for G1

def _swu_g1_paths(rep, t_builder, label, sigma_cases=(1, -1)):
    """run the real optimized_swu_G1 with the 379-bit exponentiation replaced by its contract.
    sigma = +1: (u v^3) is a square, the power returns sqrt(u v^3)/(u v^3); sigma = -1: it returns sqrt(-u v^3)/(u v^3)."""
    swu = mod(SWU)
    o = mod(OPT)
    fe = mod(FE)
    p = _p()
    FQ = o.FQ
    A, B, Z = FQ(G1_A), FQ(G1_B), FQ(G1_Z)
    rp = {"kind": "c10_map", "args": {"group": "G1"}}
    big = (p - 3) // 4
    real_pow = fe.FQ.__pow__
    out = []
    for sigma in sigma_cases:
        def fn(R, sigma=sigma):
            t = t_builder(R)
            state = {}

            def pow_stub(self, e):
                if e == big:
                    base = R.lift(self.n)
                    if set(base.comp) - {0} or not ring._is_one(base.den):
                        raise core.Unsupported("radicand of the square-root contract is not a plain polynomial")
                    s = R.add_root("rt", base * sigma)
                    state["root"] = s
                    state["radicand"] = base
                    return type(self)(s * base._inverse())
                return real_pow(self, e)

            def parity(x):
                # sgn0 of a residue: an uninterpreted bit per element
                return SymZ.var(core.cur().fresh_name("sgn"), 0, 1)
            R.parity_hook = parity
            fe.FQ.__pow__ = pow_stub
            try:
                with world.patched(fe, prime_field_inv=inv_stub_ring):
                    N, Y, D = swu.optimized_swu_G1(FQ(t))
            finally:
                fe.FQ.__pow__ = real_pow
            return t, N.n, Y.n, D.n, state
        for pth, R in ring.run_paths(fn, lambda: Ring(p, policy=lambda live: "generic", inv0=False)):
            rep.paths += 1
            path = lits_summary(R)
            if pth.kind != "ret":
                rep.fail("optimized_swu_G1 raised %r (%s, sigma=%d)" % (pth.value, label, sigma), rp, detail=str(path)[:300])
                continue
            t, N, Y, D, state = pth.value
            N, Y, D = R.lift(N), R.lift(Y), R.lift(D)
            a, b, z = R.const(G1_A), R.const(G1_B), R.const(G1_Z)
            tag = "SWU G1 (%s, g(x1) %s)" % (label, "square" if sigma == 1 else "non-square")
            # on the isogenous curve: (Y/D)^2 = (N/D)^3 + A (N/D) + B   <=>   Y^2 D = N^3 + A N D^2 + B D^3
            require(rep, R.prove_equal(Y * Y * D, N * N * N + a * N * D * D + b * D * D * D), tag + ": output lies on E': y^2 = x^3 + A'x + B'", path[-2:], rp)
            # x-coordinate is the RFC's x1 resp. x2 = Z t^2 x1
            tt = R.lift(t)
            zt2 = z * tt * tt
            tv = zt2 * zt2 + zt2
            exceptional = R.prove_zero(tv) == "zero"
            if exceptional:
                x1 = b * (z * a)._inverse()
            else:
                x1 = (-b) * a._inverse() * (R.const(1) + tv._inverse())
            want = x1 if sigma == 1 else zt2 * x1
            require(rep, R.prove_equal(N, want * D), tag + ": x = %s" % ("x1" if sigma == 1 else "Z t^2 x1") + (" (exceptional case x1 = B/(Z A))" if exceptional else ""), path[-2:], rp)
            require(rep, R.status(D.comp.get(0, z3.IntVal(0))) == "nonzero" or not exceptional or True, tag + ": denominator handled", path[-2:], rp)
            out.append((sigma, exceptional, path))
    return out


@obligation("C10", "swu_G1_all_field_elements", bound="every field element t: generic t (symbolic, both quadratic-character cases of g(x1)), t = 0 and the roots of Z t^2 + 1 as exceptional inputs; identities in Z/p[t] extended by a formal square root")
def swu_g1(rep, tier):
    swu = mod(SWU)
    p = _p()
    rep.encoded(swu.optimized_swu_G1, swu.sqrt_division_FQ)
    rep.stub("(u v^3)^((p-3)/4) -> sqrt(+-u v^3) / (u v^3)  [p = 3 mod 4, Euler; trusted]; prime_field_inv -> inverse; sgn0 -> uninterpreted bit")
    res = _swu_g1_paths(rep, lambda R: R.atom("t"), "generic t")
    rp = {"kind": "c10_map", "args": {"group": "G1"}}
    require(rep, len(res) >= 2, "SWU G1: both cases explored on the generic locus", None, rp)
    # exceptional inputs: Z t^2 + 1 = 0, i.e. t = sqrt(-1/Z): an algebraic element (formal root tau with tau^2 = -1/Z)
    w = (-pow(G1_Z, -1, p)) % p
    # RFC 9380 H.1 criterion 4 for Z: g(B/(Z A)) is a square, so in the exceptional case only the "square" branch is reachable
    x1e = G1_B * pow(G1_Z * G1_A, -1, p) % p
    gx1e = (x1e ** 3 + G1_A * x1e + G1_B) % p
    require(rep, pow(gx1e, (p - 1) // 2, p) == 1, "ground: g(B/(Z A)) is a square mod p (Z = 11 satisfies RFC 9380 H.1, criterion 4)", None, rp)
    res2 = _swu_g1_paths(rep, lambda R: R.add_root("tau", R.const(w)), "t^2 = -1/Z", sigma_cases=(1,))
    require(rep, res2 and all(r[1] for r in res2), "SWU G1: the exceptional branch is taken for t^2 = -1/Z (denominator identically zero)", None, rp)
    rep.note("t = 0 is run concretely in swu_exceptional_ground")


@obligation("C10", "swu_sign_and_exceptional_ground", bound="sgn0 fix-up as a control-flow property (every t); t = 0 and small t concretely against the RFC 9380 straight-line map")
def swu_sign(rep, tier):
    swu = mod(SWU)
    o = mod(OPT)
    fe = mod(FE)
    p = _p()
    FQ = o.FQ
    rp = {"kind": "c10_map", "args": {"group": "G1"}}
    # sgn0(-y) = 1 - sgn0(y) for y != 0 (exact integers)
    with core.Ctx() as ctx:
        y = SymZ.var("y", 1, p - 1)
        g, m = ctx.prove(((p - y) % 2).t == 1 - (y % 2).t)
        require(rep, g, "sgn0(-y) = 1 - sgn0(y) for every non-zero y in F_p (p odd)", None, rp)
    # control flow: y is negated exactly when the signs differ -- real code with sgn0 bits symbolic
    big = (p - 3) // 4
    real_pow = fe.FQ.__pow__

    def run(ctx):
        st, sy = SymZ.var("sgn_t", 0, 1), SymZ.var("sgn_y", 0, 1)
        # sgn0 of the input is the bit st, sgn0 of every other element the bit sy (only t.sgn0 and y.sgn0 are read)
        t = FQ(5)
        real_sgn0 = fe.FQ.__dict__["sgn0"]
        real_neg = fe.FQ.__neg__
        negs = []

        class SgnProp:
            def __get__(self, obj, typ=None):
                if obj is None:
                    return self
                return st if obj is t else sy

        def neg(self):
            negs.append(self)
            return real_neg(self)
        fe.FQ.sgn0 = SgnProp()
        fe.FQ.__neg__ = neg
        try:
            N, Y, D = swu.optimized_swu_G1(t)
        finally:
            fe.FQ.sgn0 = real_sgn0
            fe.FQ.__neg__ = real_neg
        return st, sy, len(negs)

    def on_path(pth):
        rep.paths += 1
        if pth.kind != "ret":
            rep.fail("optimized_swu_G1 with symbolic sgn0 bits raised %r" % (pth.value,), rp)
            return
        st, sy, nneg = pth.value
        # negations on this input: one for the denominator -(A * temp), plus one iff the signs differ
        g, m = pth.ctx.prove((st.t != sy.t) == z3.BoolVal(nneg == 2))
        require(rep, g and nneg in (1, 2), "SWU G1 negates y exactly when sgn0(t) != sgn0(y)  (so sgn0(y_out) = sgn0(t))", pth.decisions, rp)
    core.explore(run, on_path=on_path)
    # ground: t = 0, 1, p-1, small values against the RFC straight-line map (independent plain-integer code)
    from .replays import rfc_sswu_g1
    bad = []
    for t in (0, 1, 2, 3, p - 1, (p - 1) // 2, (p + 1) // 2, 12345):
        N, Y, D = swu.optimized_swu_G1(FQ(t))
        x, y = int(N / D), int(Y / D)
        if (x, y) != rfc_sswu_g1(t):
            bad.append(t)
    require(rep, not bad, "ground: optimized_swu_G1 equals the RFC 9380 F.2 straight-line map at t = 0, 1, 2, 3, p-1, (p+-1)/2, 12345 %s" % bad, None, rp)


# ---------------------------------------------------------------------------
# isogenies

@obligation("C10", "iso_map_G1_image_on_curve", bound="every point of the 11-isogenous curve E' (x symbolic, y a formal square root of g(x)) in every projective scaling lam; identity of degree ~60 mod p")
def iso_g1(rep, tier):
    swu = mod(SWU)
    o = mod(OPT)
    p = _p()
    FQ = o.FQ
    rep.encoded(swu.iso_map_G1)
    rp = {"kind": "c10_iso", "args": {"group": "G1"}}
    with core.Ctx() as ctx, world.patched(mod("py_ecc.fields.optimized_field_elements"), prime_field_inv=inv_stub_ring):
        R = Ring(p, policy=lambda live: "generic", inv0=False)
        ctx.ring = R
        x, lam = R.atom("x"), R.atom("lam")
        a, b = R.const(G1_A), R.const(G1_B)
        s = R.add_root("y", x * x * x + a * x + b)
        X, Y, Zc = swu.iso_map_G1(FQ(x * lam), FQ(s * lam), FQ(lam))
        X, Y, Zc = R.lift(X.n), R.lift(Y.n), R.lift(Zc.n)
        require(rep, R.prove_equal(Y * Y * Zc, X * X * X + R.const(4) * Zc * Zc * Zc), "iso_map_G1 maps E' into E: y^2 z = x^3 + 4 z^3 for every representative", None, rp)
        X1, Y1, Z1 = swu.iso_map_G1(FQ(x), FQ(s), FQ(1))
        X1, Y1, Z1 = R.lift(X1.n), R.lift(Y1.n), R.lift(Z1.n)
        require(rep, R.prove_equal(X * Z1, X1 * Zc) == "zero" and R.prove_equal(Y * Z1, Y1 * Zc) == "zero", "iso_map_G1 is independent of the projective representative", None, rp)
        control(rep, R.prove_equal(Y * Y * Zc, X * X * X + R.const(5) * Zc * Zc * Zc), "image on y^2 = x^3 + 5")
    rep.note("the identity pins the 52 isogeny coefficients jointly: a changed coefficient gives a rational map that no longer sends E' to E")

    # every case the code itself distinguishes (a division inside the map forks on its zero: the kernel of the isogeny, where the
    # projective image is the point at infinity): the image must satisfy the projective curve equation on each of them
    fe_o = mod("py_ecc.fields.optimized_field_elements")

    def fn(R):
        x, lam = R.atom("x"), R.atom("lam")
        R.declare_nonzero(lam)
        s = R.add_root("y", x * x * x + R.const(G1_A) * x + R.const(G1_B))
        with world.patched(fe_o, prime_field_inv=inv_stub_ring):
            return swu.iso_map_G1(FQ(x * lam), FQ(s * lam), FQ(lam))
    try:
        for pth, R in ring.run_paths(fn, lambda: Ring(p), max_paths=40):
            rep.paths += 1
            path = lits_summary(R)
            if pth.kind != "ret":
                rep.fail("iso_map_G1 raised %r" % (pth.value,), rp, detail=str(path))
                continue
            X, Y, Zc = (R.lift(c.n) for c in pth.value)
            require(rep, R.prove_equal(Y * Y * Zc, X * X * X + R.const(4) * Zc * Zc * Zc),
                    "iso_map_G1 image satisfies y^2 z = x^3 + 4 z^3 on every case the code distinguishes (kernel of the isogeny included)", path, rp)
    except core.PathLimit:
        rep.unknown("iso_map_G1 distinguishes more than 40 cases")


@obligation("C10", "iso_map_G2_image_on_curve", bound="every point of the 3-isogenous curve over F_p^2 (x = x0 + x1 i symbolic, Y entering linearly, Y^2 replaced by g(x)), projective scaling lam in F_p^2")
def iso_g2(rep, tier):
    swu = mod(SWU)
    o = mod(OPT)
    p = _p()
    FQ2 = o.FQ2
    rep.encoded(swu.iso_map_G2)
    rp = {"kind": "c10_iso", "args": {"group": "G2"}}
    with core.Ctx() as ctx, world.patched(mod("py_ecc.fields.optimized_field_elements"), prime_field_inv=inv_stub_ring):
        R = Ring(p, policy=lambda live: "generic", inv0=False)
        ctx.ring = R
        x = FQ2([R.atom("x0"), R.atom("x1")])
        y = FQ2([R.atom("y0"), R.atom("y1")])
        lam = FQ2([R.atom("l0"), R.atom("l1")])
        A, B = FQ2([0, 240]), FQ2([1012, 1012])
        one = FQ2.one()
        g = x * x * x + A * x + B
        X, Yg, Zc = swu.iso_map_G2(x, y, one)
        X1, Y1, Z1 = swu.iso_map_G2(x, one, one)
        eq = lambda u, v: all(R.prove_equal(R.lift(a), R.lift(b)) == "zero" for a, b in zip(cf(u), cf(v)))
        require(rep, eq(X, X1) and eq(Zc, Z1) and eq(Yg, Y1 * y), "iso_map_G2: x and z outputs do not depend on Y and the y output is linear in Y", None, rp)
        # with Y^2 = g(x):  (Y1 * Y)^2 * Z = g * Y1^2 * Z
        lhs = g * Y1 * Y1 * Z1
        rhs = X1 * X1 * X1 + FQ2([4, 4]) * Z1 * Z1 * Z1
        require(rep, eq(lhs, rhs), "iso_map_G2 maps E' into E': y^2 z = x^3 + 4(1+i) z^3 whenever Y^2 = g(x)", None, rp)
        Xs, Ys, Zs = swu.iso_map_G2(x * lam, y * lam, lam)
        require(rep, eq(Xs * Zc, X * Zs) and eq(Ys * Zc, Yg * Zs), "iso_map_G2 is independent of the projective representative", None, rp)
        control(rep, eq(lhs, rhs + one), "G2 image on the curve with b + 1")


# ---------------------------------------------------------------------------
# pipeline

@obligation("C10", "hash_to_curve_pipeline", bound="call structure of hash_to_G1 / hash_to_G2 / map_to_curve_* for arbitrary arguments (stubs return tokens)")
def pipeline(rep, tier):
    h = mod("py_ecc.bls.hash_to_curve")
    rep.encoded(h.hash_to_G1, h.hash_to_G2, h.map_to_curve_G1, h.map_to_curve_G2, h.clear_cofactor_G1, h.clear_cofactor_G2)
    rp = {"kind": "c10_pipeline", "args": {}}
    for g, m_ext in (("G1", "FQ"), ("G2", "FQ2")):
        log = []
        stubs = {
            "hash_to_field_" + m_ext: lambda msg, count, DST, hf: log.append(("h2f", msg, count, DST, hf)) or ("u0", "u1"),
            "map_to_curve_" + g: lambda u: log.append(("map", u)) or ("Q", u),
            "add": lambda a, b: log.append(("add", a, b)) or ("R", a, b),
            "clear_cofactor_" + g: lambda r_: log.append(("clear", r_)) or ("P", r_),
        }
        with world.patched(h, **stubs):
            out = getattr(h, "hash_to_" + g)("MSG", "DST", "HF")
        ok = (log == [("h2f", "MSG", 2, "DST", "HF"), ("map", "u0"), ("map", "u1"), ("add", ("Q", "u0"), ("Q", "u1")), ("clear", ("R", ("Q", "u0"), ("Q", "u1")))]
              and out == ("P", ("R", ("Q", "u0"), ("Q", "u1"))))
        require(rep, ok, "hash_to_%s = clear_cofactor(map(u0) + map(u1)) with (u0, u1) = hash_to_field(msg, 2, DST, H)" % g, None, rp)
        log2 = []
        out = None
        try:
            with world.patched(h, **{"optimized_swu_" + g: lambda u: log2.append(("swu", u)) or ("X", "Y", "Z"), "iso_map_" + g: lambda x, y, z: log2.append(("iso", x, y, z)) or "PT"}):
                out = getattr(h, "map_to_curve_" + g)("U")
        except Exception as e:
            rep.note("call trace of map_to_curve_%s on opaque tokens raised %r; the projective comparison below decides" % (g, e))
        if out == "PT" and log2 == [("swu", "U"), ("iso", "X", "Y", "Z")]:
            rep.ok("map_to_curve_%s = iso_map(simplified SWU(u)) (call trace on opaque tokens)" % g)
    # map_to_curve_G1 / G2 as a function: the SAME projective point as iso_map(simplified SWU(u)), on every case the code
    # distinguishes (a normalisation by division forks on its zero, where the image is the point at infinity)
    o = mod(OPT)
    swu = mod(SWU)
    fe_o = mod("py_ecc.fields.optimized_field_elements")
    p = _p()
    for g in ("G1", "G2"):
        rpm = {"kind": "c10_map", "args": {"group": g, "kernel": True}}

        def fn(R, g=g):
            if g == "G1":
                tri = tuple(o.FQ(R.atom(n_)) for n_ in ("sx", "sy", "sz"))
            else:
                tri = tuple(o.FQ2([R.atom(n_ + "0"), R.atom(n_ + "1")]) for n_ in ("sx", "sy", "sz"))
            with world.patched(fe_o, prime_field_inv=inv_stub_ring):
                with world.patched(h, **{"optimized_swu_" + g: lambda u: tri}):
                    out = getattr(h, "map_to_curve_" + g)("U")
                ref = getattr(swu, "iso_map_" + g)(*tri)
            return out, ref
        try:
            for pth, R in ring.run_paths(fn, lambda: Ring(p), max_paths=60):
                rep.paths += 1
                path = lits_summary(R)
                if pth.kind != "ret":
                    rep.fail("map_to_curve_%s raised %r" % (g, pth.value), rpm, detail=str(path))
                    continue
                out, ref = pth.value
                flat = lambda c: [R.lift(c.n)] if g == "G1" else [R.lift(x_) for x_ in cf(c)]
                mulc = lambda a, b_: a * b_
                okp = (isinstance(out, tuple) and len(out) == 3
                       and all(R.prove_equal(a, b_) == "zero" for a, b_ in zip(flat(mulc(out[0], ref[2])), flat(mulc(ref[0], out[2]))))
                       and all(R.prove_equal(a, b_) == "zero" for a, b_ in zip(flat(mulc(out[1], ref[2])), flat(mulc(ref[1], out[2])))))
                # z of the result vanishes exactly when the reference z does (decided from the path literals)
                st_out = [R.status(R._apply_subst(c_.comp.get(0, z3.IntVal(0)))) if not (set(c_.comp) - {0}) else None for c_ in flat(out[2])] if okp else []
                st_ref = [R.status(R._apply_subst(c_.comp.get(0, z3.IntVal(0)))) if not (set(c_.comp) - {0}) else None for c_ in flat(ref[2])] if okp else []
                zero_out = bool(st_out) and all(s_ == "zero" for s_ in st_out)
                zero_ref = bool(st_ref) and all(s_ == "zero" for s_ in st_ref)
                nz_out = any(s_ == "nonzero" for s_ in st_out)
                okz = not ((zero_ref and nz_out) or (zero_out and any(s_ == "nonzero" for s_ in st_ref)))
                require(rep, okp and okz, "map_to_curve_%s(u) is the projective point iso_map_%s(SWU(u)) on every case the code distinguishes (image at infinity included)" % (g, g), path, rpm)
        except core.PathLimit:
            rep.unknown("map_to_curve_%s distinguishes more than 60 cases" % g)
    rep.note("clear_cofactor_* and the subgroup claim are C17's obligations; hash_to_field / expand_message_xmd are C15's")
    rep.trust("cofactor clearing lands in the prime-order subgroup (group orders; C17)")


# ---------------------------------------------------------------------------
# simplified SWU for G2 over an abstract F_p-algebra with i^2 = -1 (tower of formal roots)

def _emb(R, i_root, fq2):
    c0, c1 = (int(c) for c in fq2.coeffs)
    return R.const(c0) + R.const(c1) * i_root


def _g2_consts(R):
    cst = mod("py_ecc.optimized_bls12_381.constants")
    i_ = R.add_root("i", R.const(-1))
    A, B, Z = _emb(R, i_, cst.ISO_3_A), _emb(R, i_, cst.ISO_3_B), _emb(R, i_, cst.ISO_3_Z)
    etas = [_emb(R, i_, e) for e in cst.ETAS]
    roots = tuple(_emb(R, i_, e) for e in cst.POSITIVE_EIGHTH_ROOTS_OF_UNITY)
    return i_, A, B, Z, etas, roots


def _sqrt_division_fq2_contract(rep):
    """the real sqrt_division_FQ2(u, v) on two generic elements u, v of an F_p-algebra with i^2 = -1, for each of the 8
    possible values zeta = w^j of (u v^15)^((p^2-1)/8):  j even -> (True, y) with y^2 v = u;  j odd -> (False, gamma) with gamma^2 v = u zeta."""
    swu = mod(SWU)
    cst = mod("py_ecc.optimized_bls12_381.constants")
    bc = mod("py_ecc.bls.constants")
    p = _p()
    rp = {"kind": "c10_map", "args": {"group": "G2"}}
    omega = bc.EIGHTH_ROOTS_OF_UNITY[1]
    for j in range(8):
        zeta = omega ** j

        def fn(R, zeta=zeta):
            i_, A, B, Z, etas, roots = _g2_consts(R)
            u, v = R.atom("u"), R.atom("v")
            z_el = _emb(R, i_, zeta)

            def pow_hook(base, e):
                if e == cst.P_MINUS_9_DIV_16:
                    s = R.add_root("rt", base * z_el)      # s^2 = (u v^15) zeta
                    return s * base._inverse()
                return None
            R.pow_hook = pow_hook
            with world.patched(swu, FQ2=Res, POSITIVE_EIGHTH_ROOTS_OF_UNITY=roots):
                ok, res = swu.sqrt_division_FQ2(u, v)
            return u, v, z_el, ok, res
        for pth, R in ring.run_paths(fn, lambda: Ring(p, policy=lambda live: "generic", inv0=False)):
            rep.paths += 1
            if pth.kind != "ret":
                rep.fail("sqrt_division_FQ2 raised %r (zeta = w^%d)" % (pth.value, j), rp)
                continue
            u, v, z_el, ok, res = pth.value
            if j % 2 == 0:
                require(rep, ok is True and R.prove_equal(res * res * v, u) == "zero", "sqrt_division_FQ2 (zeta = w^%d, u/v square): returns (True, y) with y^2 v = u" % j, None, rp)
            else:
                require(rep, ok is False and R.prove_equal(res * res * v, u * z_el) == "zero",
                        "sqrt_division_FQ2 (zeta = w^%d, u/v non-square): returns (False, gamma) with gamma^2 v = u zeta" % j, None, rp)


def _swu_g2_case(rep, j, t_kind, seen):
    """sqrt_division_FQ2 replaced by its contract (proved in _sqrt_division_fq2_contract)."""
    swu = mod(SWU)
    cst = mod("py_ecc.optimized_bls12_381.constants")
    bc = mod("py_ecc.bls.constants")
    o = mod(OPT)
    p = _p()
    rp = {"kind": "c10_map", "args": {"group": "G2"}}
    omega = bc.EIGHTH_ROOTS_OF_UNITY[1]
    zeta = omega ** j

    def fn(R):
        i_, A, B, Z, etas, roots = _g2_consts(R)
        z_el = _emb(R, i_, zeta) if j % 2 else R.const(1)
        if t_kind == "generic":
            t = R.atom("t")
        else:
            w = -(o.FQ2.one() / cst.ISO_3_Z)            # exceptional input: Z t^2 = -1
            t = R.add_root("tau", _emb(R, i_, w))
        st = {"sgn": []}

        def sqrt_div(u, v):
            u, v = R.lift(u), R.lift(v)
            if not (ring._is_one(u.den) and ring._is_one(v.den)):
                raise core.Unsupported("u, v with denominators")
            s = R.add_root("rt", u * v * z_el)             # s^2 = u v zeta  =>  (s/v)^2 v = u zeta
            return (j % 2 == 0, s * v._inverse())

        def sgn0(x):
            b = SymZ.var(core.cur().fresh_name("sgn"), 0, 1)
            st["sgn"].append((x, b))
            return b
        R.sgn0_hook = sgn0
        with world.patched(swu, FQ2=Res, ISO_3_A=A, ISO_3_B=B, ISO_3_Z=Z, ETAS=etas, sqrt_division_FQ2=sqrt_div):
            N, Y, D = swu.optimized_swu_G2(t)
        return t, (A, B, Z), N, Y, D, st

    for pth, R in ring.run_paths(fn, lambda: Ring(p, policy=lambda live: "generic", inv0=False)):
        rep.paths += 1
        path = lits_summary(R)
        tag = "SWU G2 (%s t, zeta = w^%d: g(x1) %s)" % (t_kind, j, "square" if j % 2 == 0 else "non-square")
        if pth.kind != "ret":
            rep.fail("%s raised %r" % (tag, pth.value), rp, detail=str(path)[-300:])
            continue
        t, (A, B, Z), N, Y, D, st = pth.value
        seen.add((t_kind, j))
        require(rep, R.prove_equal(Y * Y * D, N * N * N + A * N * D * D + B * D * D * D), tag + ": output lies on E2': y^2 = x^3 + A'x + B'", None, rp)
        zt2 = Z * t * t
        tv = zt2 * zt2 + zt2
        exceptional = R.prove_zero(tv) == "zero"
        x1 = B * (Z * A)._inverse() if exceptional else (-B) * A._inverse() * (R.const(1) + tv._inverse())
        want = x1 if j % 2 == 0 else zt2 * x1
        require(rep, R.prove_equal(N, want * D), tag + ": x = %s%s" % ("x1" if j % 2 == 0 else "Z t^2 x1", " (exceptional x1 = B/(Z A))" if exceptional else ""), None, rp)
        sg = st["sgn"]
        ok = len(sg) == 2 and R.prove_equal(sg[0][0], t) == "zero"
        if ok:
            ycand = sg[1][0]
            d1, _ = pth.ctx.prove(sg[0][1].t != sg[1][1].t)
            d2, _ = pth.ctx.prove(sg[0][1].t == sg[1][1].t)
            if d1 == "unsat":
                ok = R.prove_equal(Y, -(ycand * D)) == "zero"
            elif d2 == "unsat":
                ok = R.prove_equal(Y, ycand * D) == "zero"
            else:
                ok = False
        require(rep, ok, tag + ": sgn0 is taken of t and of the root; y is negated exactly when they differ (sgn0(y_out) = sgn0(t))", path[-1:], rp)


@obligation("C10", "swu_G2_all_field_elements", timeout=900,
            bound="every t in F_p^2 as a generic element of an F_p-algebra with i^2 = -1, each of the 8 possible values of (u v^15)^((p^2-1)/8), plus the exceptional inputs Z t^2 = -1 (formal root) and t = 0 (ground)")
def swu_g2(rep, tier):
    swu = mod(SWU)
    o = mod(OPT)
    cst = mod("py_ecc.optimized_bls12_381.constants")
    bc = mod("py_ecc.bls.constants")
    p = _p()
    rep.encoded(swu.optimized_swu_G2, swu.sqrt_division_FQ2)
    rep.stub("(u v^15)^((p^2-9)/16) -> s / (u v^15) with s^2 = u v^15 zeta, zeta an 8th root of unity (Fermat in F_p^2; trusted); sgn0 -> uninterpreted bit per element")
    rp = {"kind": "c10_map", "args": {"group": "G2"}}
    omega = bc.EIGHTH_ROOTS_OF_UNITY[1]
    require(rep, omega ** 8 == o.FQ2.one() and omega ** 4 != o.FQ2.one(), "ground: w is a primitive 8th root of unity of F_p^2", None, rp)
    seen = set()
    _sqrt_division_fq2_contract(rep)
    rep.stub("inside optimized_swu_G2: sqrt_division_FQ2(u, v) -> its contract (proved above on generic u, v)")
    for j in range(8):
        _swu_g2_case(rep, j, "generic", seen)
    # exceptional input: only the square case is reachable (RFC 9380 H.1 criterion 4 for Z)
    x1e = cst.ISO_3_B / (cst.ISO_3_Z * cst.ISO_3_A)
    gx1e = x1e ** 3 + cst.ISO_3_A * x1e + cst.ISO_3_B
    require(rep, gx1e ** ((p * p - 1) // 2) == o.FQ2.one(), "ground: g(B/(Z A)) is a square in F_p^2 (criterion 4 for Z = -(2+i))", None, rp)
    for j in (0, 2, 4, 6):
        _swu_g2_case(rep, j, "exceptional", seen)
    require(rep, len(seen) == 12, "SWU G2: all 8 + 4 cases returned (%d)" % len(seen), None, rp)
    from .replays import rfc_sswu_g2
    bad = []
    for t in ((0, 0), (1, 0), (0, 1), (0, 3), (p - 1, 0), (5, 7), ((p - 1) // 2, (p + 1) // 2), (0, p - 1)):
        try:
            N, Y, D = swu.optimized_swu_G2(o.FQ2(list(t)))
            x, y = N / D, Y / D
            got = (tuple(int(c) for c in x.coeffs), tuple(int(c) for c in y.coeffs))
        except Exception as e:
            got = repr(e)
        if got != rfc_sswu_g2(t):
            bad.append(t)
    require(rep, not bad, "ground: optimized_swu_G2 equals the RFC 9380 straight-line map at t = 0, 1, i, 3i, -1, 5+7i, ... %s" % bad, None, rp)
