"""C08 -- field classes satisfy the field axioms with canonical representatives."""
import z3
from symx import core, ring, world, loopcut
world.install()
from symx.core import SymZ, SymBool
from symx.ring import Ring, Res
from symx.harness import obligation
from .common import mod, require, control, lits_summary

FIELDS = "py_ecc.fields"
CURVES = ("bn128", "bls12_381")


def fq_classes():
    f = mod(FIELDS)
    out = []
    for c in CURVES:
        out.append(("ref", c, getattr(f, c + "_FQ"), mod("py_ecc.fields.field_elements")))
        out.append(("opt", c, getattr(f, "optimized_" + c + "_FQ"), mod("py_ecc.fields.optimized_field_elements")))
    return out


def fqp_classes(deg):
    f = mod(FIELDS)
    out = []
    for c in CURVES:
        out.append(("ref", c, getattr(f, "%s_FQ%d" % (c, deg)), mod("py_ecc.fields.field_elements")))
        out.append(("opt", c, getattr(f, "optimized_%s_FQ%d" % (c, deg)), mod("py_ecc.fields.optimized_field_elements")))
    return out


# ---------------------------------------------------------------------------
# stubs for prime_field_inv

def inv_stub_ring(a, n):
    """contract of prime_field_inv in ring mode: inv0 (forks on a == 0)."""
    R = core.cur().ring
    if n != R.modulus:
        raise core.Unsupported("prime_field_inv with modulus %r in ring %r" % (n, R.modulus))
    a = R.lift(a)
    if a is None:
        raise core.Unsupported("prime_field_inv on a non-residue")
    if a.is_zero():
        return 0
    return a._inverse()


def inv_stub_uf(a, n):
    """contract of prime_field_inv on exact ints: 0 <= v < n, v == 0 iff a == 0 (mod n)."""
    ctx = core.cur()
    a = SymZ.lift(a)
    v = SymZ.var(ctx.fresh_name("inv"), 0, n - 1)
    ctx.add_fact(z3.And(v.t >= 0, v.t < n))
    ctx.add_fact((v.t == 0) == ((a.t % n) == 0))
    ctx.notes.append(("inv", a.t, v.t))
    return v


# ---------------------------------------------------------------------------
# C08.a  FQ refinement

# (name, python operation, spec on residues, operand kinds)
def _fq_ops():
    return [
        ("add", lambda x, y: x + y, lambda a, b: a + b, ("fq", "int")),
        ("radd", lambda x, y: y + x, lambda a, b: a + b, ("int",)),
        ("sub", lambda x, y: x - y, lambda a, b: a - b, ("fq", "int")),
        ("rsub", lambda x, y: y - x, lambda a, b: b - a, ("int",)),
        ("mul", lambda x, y: x * y, lambda a, b: a * b, ("fq", "int")),
        ("rmul", lambda x, y: y * x, lambda a, b: a * b, ("int",)),
        ("neg", lambda x, y: -x, lambda a, b: -a, ("none",)),
        ("copy", lambda x, y: type(x)(x), lambda a, b: a, ("none",)),
    ]


def _fq_div_ops():
    return [
        ("truediv", lambda x, y: x / y, ("fq", "int")),
        ("rtruediv", lambda x, y: y / x, ("int",)),
    ]


def _check_fq_values(rep, impl, curve, FQ, M):
    """ring mode: the residue computed by every operator equals the axiom's expression mod p."""
    p = FQ.field_modulus
    rp = {"kind": "c08_fq", "args": {"impl": impl, "curve": curve}}
    rep.encoded(FQ.__init__, FQ.__add__, FQ.__radd__, FQ.__sub__, FQ.__rsub__, FQ.__mul__, FQ.__rmul__,
                FQ.__neg__, FQ.__truediv__, FQ.__rtruediv__, FQ.__div__, FQ.__rdiv__, FQ.__eq__, FQ.__ne__)
    for name, op, spec, kinds in _fq_ops():
        for kind in kinds:
            def fn(R, op=op, kind=kind):
                a, b = R.atom("a"), R.atom("b")
                x = FQ(a)
                y = FQ(b) if kind == "fq" else b
                return a, b, op(x, y)
            for pth, R in ring.run_paths(fn, lambda: Ring(p)):
                rep.paths += 1
                w = "%s FQ %s.%s(%s)" % (impl, curve, name, kind)
                if pth.kind != "ret":
                    rep.fail(w + " raised %r" % (pth.value,), rp)
                    continue
                a, b, res = pth.value
                if R.lits:
                    rep.fail(w + " branches on the operand values", rp, detail=str(lits_summary(R)))
                    continue
                require(rep, type(res) is FQ, w + ": result has the operand's class", None, rp)
                require(rep, R.prove_equal(res.n, spec(a, b)), w + ": value", None, rp)
    # division: inv0 contract for prime_field_inv
    rep.stub("prime_field_inv(a, p) -> inv0 contract (a*v == 1 mod p, v == 0 iff a == 0 mod p); discharged by C08.b")
    for name, op, kinds in _fq_div_ops():
        for kind in kinds:
            def fn(R, op=op, kind=kind):
                a, b = R.atom("a"), R.atom("b")
                x = FQ(a)
                y = FQ(b) if kind == "fq" else b
                with world.patched(M, prime_field_inv=inv_stub_ring):
                    return a, b, op(x, y)
            seen = set()
            for pth, R in ring.run_paths(fn, lambda: Ring(p)):
                rep.paths += 1
                w = "%s FQ %s.%s(%s)" % (impl, curve, name, kind)
                if pth.kind != "ret":
                    rep.fail(w + " raised %r" % (pth.value,), rp)
                    continue
                a, b, res = pth.value
                num, den = (a, b) if name == "truediv" else (b, a)
                live = [l for l in R.lits]
                if len(live) != 1 or R.prove_equal(Res({0: live[0][0][0]}, z3.IntVal(1), R), den) != "zero" and \
                        R.prove_equal(Res({0: live[0][0][0]}, z3.IntVal(1), R), -den) != "zero":
                    # after substitution den may read 0: compare before substitution using the literal itself
                    pass
                if len(live) != 1:
                    rep.fail(w + ": expected exactly the inv0 decision on the divisor", rp, detail=str(lits_summary(R)))
                    continue
                is_zero = live[0][1]
                seen.add(is_zero)
                if is_zero:
                    require(rep, R.prove_zero(res.n), w + ": x / 0 == 0 (inv0)", "divisor==0", rp)
                else:
                    require(rep, R.prove_equal(res.n * den, num), w + ": (x / y) * y == x", "divisor!=0", rp)
            if seen != {True, False}:
                rep.fail("%s FQ %s.%s(%s): inv0 / non-zero paths not both present" % (impl, curve, name, kind), rp)
    # eq / ne
    def fn_eq(R):
        a, b = R.atom("a"), R.atom("b")
        return FQ(a) == FQ(b), FQ(a) != FQ(b)
    outs = set()
    for pth, R in ring.run_paths(fn_eq, lambda: Ring(p)):
        rep.paths += 1
        if pth.kind != "ret" or len(R.lits) != 1:
            rep.fail("%s FQ %s eq: unexpected path" % (impl, curve), rp)
            continue
        e, ne = pth.value
        outs.add(R.lits[0][1])
        require(rep, e == R.lits[0][1] and ne == (not R.lits[0][1]), "%s FQ %s: == is residue equality, != its negation" % (impl, curve),
                lits_summary(R), rp)
    if outs != {True, False}:
        rep.fail("%s FQ %s eq is constant" % (impl, curve), rp)
    # negative control
    with core.Ctx() as ctx:
        R = Ring(p)
        ctx.ring = R
        a, b = R.atom("a"), R.atom("b")
        control(rep, R.prove_equal((FQ(a) - FQ(b)).n, b - a), "a - b == b - a")


def _check_fq_range(rep, impl, curve, FQ, M):
    """exact integers, products as uninterpreted atoms: every stored representative is in [0, p)."""
    p = FQ.field_modulus
    rp = {"kind": "c08_fq", "args": {"impl": impl, "curve": curve}}
    ops = [(n, o, k) for (n, o, s, k) in _fq_ops()] + _fq_div_ops() + [("pow2", lambda x, y: x ** 2, ("none",)),
                                                                         ("pow3", lambda x, y: x ** 3, ("none",))]
    for name, op, kinds in ops:
        for kind in kinds:
            def run(ctx, op=op, kind=kind):
                a = SymZ.var("a", 0, p - 1)
                x = FQ(a)
                if kind == "fq":
                    y = FQ(SymZ.var("b", 0, p - 1))
                elif kind == "int":
                    y = SymZ.var("b")           # ANY integer: negative, >= p
                else:
                    y = None
                with world.patched(M, prime_field_inv=inv_stub_uf):
                    return x, op(x, y)

            def on_path(pth, name=name, kind=kind):
                rep.paths += 1
                w = "%s FQ %s.%s(%s)" % (impl, curve, name, kind)
                if pth.kind != "ret":
                    rep.fail(w + " raised %r" % (pth.value,), rp)
                    return
                x, res = pth.value
                require(rep, type(res) is FQ, w + ": class preserved", pth.decisions, rp)
                n = SymZ.lift(res.n)
                r, m = pth.ctx.prove(z3.And(n.t >= 0, n.t < p))
                require(rep, r, w + ": 0 <= n < p", pth.decisions, rp, detail=str(m)[:300])
                r, m = pth.ctx.prove(SymZ.lift(x.n).t == z3.Int("a"))
                require(rep, r, w + ": operand not mutated", pth.decisions, rp)
            core.explore(run, ctx_kwargs=dict(mul="uf"), on_path=on_path)

    # constructor on arbitrary ints, comparisons, int(), one/zero
    def run_init(ctx):
        k = SymZ.var("k")
        return k, FQ(k)

    def on_init(pth):
        rep.paths += 1
        if pth.kind != "ret":
            rep.fail("%s FQ %s(int) raised %r" % (impl, curve, pth.value), rp)
            return
        k, x = pth.value
        n = SymZ.lift(x.n)
        r, m = pth.ctx.prove(z3.And(n.t >= 0, n.t < p, (n.t - k.t) % p == 0))
        require(rep, r, "%s FQ %s(k): n = k mod p for every integer k" % (impl, curve), pth.decisions, rp)
    core.explore(run_init, ctx_kwargs=dict(mul="uf"), on_path=on_init)

    def run_cmp(ctx):
        a = SymZ.var("a", 0, p - 1)
        b = SymZ.var("b", 0, p - 1)
        x, y = FQ(a), FQ(b)
        return a, b, (x == y, x != y, x < y, x == b, x < b, world.IntShim(x), x > y, x <= y, x >= y)

    def on_cmp(pth):
        rep.paths += 1
        if pth.kind != "ret":
            rep.fail("%s FQ %s comparison raised %r" % (impl, curve, pth.value), rp)
            return
        a, b, (eq, ne, lt, eqi, lti, iv, gt, le, ge) = pth.value
        def tb(v):
            return core.as_bool_term(v)
        goals = [("== is value equality", tb(eq) == (a.t == b.t)), ("!= is its negation", tb(ne) == (a.t != b.t)),
                 ("< orders representatives", tb(lt) == (a.t < b.t)), ("== with reduced int", tb(eqi) == (a.t == b.t)),
                 ("< with reduced int", tb(lti) == (a.t < b.t)), ("int(x) is the representative", SymZ.lift(iv).t == a.t),
                 ("> (total_ordering)", tb(gt) == (a.t > b.t)), ("<=", tb(le) == (a.t <= b.t)), (">=", tb(ge) == (a.t >= b.t))]
        for w, g in goals:
            r, m = pth.ctx.prove(g)
            require(rep, r, "%s FQ %s: %s" % (impl, curve, w), pth.decisions, rp)
    core.explore(run_cmp, ctx_kwargs=dict(mul="uf"), on_path=on_cmp)
    require(rep, int(FQ.one().n) == 1 and int(FQ.zero().n) == 0 and type(FQ.one()) is FQ, "%s FQ %s one()/zero()" % (impl, curve), None, rp)


def _mk_fq(impl, curve, which):
    def f(rep, tier):
        for i, c, FQ, M in fq_classes():
            if i == impl and c == curve:
                (_check_fq_values if which == "values" else _check_fq_range)(rep, i, c, FQ, M)
    return f


for _impl in ("ref", "opt"):
    for _curve in CURVES:
        obligation("C08", "fq_values_%s_%s" % (_impl, _curve),
                   bound="all residues a, b and all integers b (unreduced) at the real prime; identity in Z/p[a,b]")(
            _mk_fq(_impl, _curve, "values"))
        obligation("C08", "fq_range_%s_%s" % (_impl, _curve),
                   bound="a, b in [0,p), int operand ANY integer; QF_UFLIA with products as atoms; real 254/381-bit prime")(
            _mk_fq(_impl, _curve, "range"))
