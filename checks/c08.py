"""C08 -- field classes satisfy the field axioms with canonical representatives."""
import z3
from symx import core, ring, world, loopcut
world.install()
from symx.core import SymZ, SymBool
from symx.ring import Ring, Res
from symx.harness import obligation
from .common import mod, require, control, lits_summary

FIELDS = "py_ecc.fields"
CURVES = ("bn128", "bls12_381")


def fq_classes():
    f = mod(FIELDS)
    out = []
    for c in CURVES:
        out.append(("ref", c, getattr(f, c + "_FQ"), mod("py_ecc.fields.field_elements")))
        out.append(("opt", c, getattr(f, "optimized_" + c + "_FQ"), mod("py_ecc.fields.optimized_field_elements")))
    return out


def fqp_classes(deg):
    f = mod(FIELDS)
    out = []
    for c in CURVES:
        out.append(("ref", c, getattr(f, "%s_FQ%d" % (c, deg)), mod("py_ecc.fields.field_elements")))
        out.append(("opt", c, getattr(f, "optimized_%s_FQ%d" % (c, deg)), mod("py_ecc.fields.optimized_field_elements")))
    return out


# ---------------------------------------------------------------------------
# stubs for prime_field_inv

def inv_stub_ring(a, n):
    """contract of prime_field_inv in ring mode: inv0 (forks on a == 0)."""
    R = core.cur().ring
    if n != R.modulus:
        raise core.Unsupported("prime_field_inv with modulus %r in ring %r" % (n, R.modulus))
    a = R.lift(a)
    if a is None:
        raise core.Unsupported("prime_field_inv on a non-residue")
    if a.is_zero():
        return 0
    return a._inverse()


def inv_stub_uf(a, n):
    """contract of prime_field_inv on exact ints: 0 <= v < n, v == 0 iff a == 0 (mod n)."""
    ctx = core.cur()
    a = SymZ.lift(a)
    v = SymZ.var(ctx.fresh_name("inv"), 0, n - 1)
    ctx.add_fact(z3.And(v.t >= 0, v.t < n))
    ctx.add_fact((v.t == 0) == ((a.t % n) == 0))
    ctx.notes.append(("inv", a.t, v.t))
    return v


# ---------------------------------------------------------------------------
# C08.a  FQ refinement

# (name, python operation, spec on residues, operand kinds)
def _fq_ops():
    return [
        ("add", lambda x, y: x + y, lambda a, b: a + b, ("fq", "int")),
        ("radd", lambda x, y: y + x, lambda a, b: a + b, ("int",)),
        ("sub", lambda x, y: x - y, lambda a, b: a - b, ("fq", "int")),
        ("rsub", lambda x, y: y - x, lambda a, b: b - a, ("int",)),
        ("mul", lambda x, y: x * y, lambda a, b: a * b, ("fq", "int")),
        ("rmul", lambda x, y: y * x, lambda a, b: a * b, ("int",)),
        ("neg", lambda x, y: -x, lambda a, b: -a, ("none",)),
        ("copy", lambda x, y: type(x)(x), lambda a, b: a, ("none",)),
    ]


def _fq_div_ops():
    return [
        ("truediv", lambda x, y: x / y, ("fq", "int")),
        ("rtruediv", lambda x, y: y / x, ("int",)),
    ]


def _check_fq_values(rep, impl, curve, FQ, M):
    """ring mode: the residue computed by every operator equals the axiom's expression mod p."""
    p = FQ.field_modulus
    rp = {"kind": "c08_fq", "args": {"impl": impl, "curve": curve}}
    rep.encoded(FQ.__init__, FQ.__add__, FQ.__radd__, FQ.__sub__, FQ.__rsub__, FQ.__mul__, FQ.__rmul__,
                FQ.__neg__, FQ.__truediv__, FQ.__rtruediv__, FQ.__div__, FQ.__rdiv__, FQ.__eq__, FQ.__ne__)
    for name, op, spec, kinds in _fq_ops():
        for kind in kinds:
            def fn(R, op=op, kind=kind):
                a, b = R.atom("a"), R.atom("b")
                x = FQ(a)
                y = FQ(b) if kind == "fq" else b
                return a, b, op(x, y)
            for pth, R in ring.run_paths(fn, lambda: Ring(p)):
                rep.paths += 1
                w = "%s FQ %s.%s(%s)" % (impl, curve, name, kind)
                if pth.kind != "ret":
                    rep.fail(w + " raised %r" % (pth.value,), rp)
                    continue
                a, b, res = pth.value
                if R.lits:
                    rep.fail(w + " branches on the operand values", rp, detail=str(lits_summary(R)))
                    continue
                require(rep, type(res) is FQ, w + ": result has the operand's class", None, rp)
                require(rep, R.prove_equal(res.n, spec(a, b)), w + ": value", None, rp)
    # division: inv0 contract for prime_field_inv
    rep.stub("prime_field_inv(a, p) -> inv0 contract (a*v == 1 mod p, v == 0 iff a == 0 mod p); discharged by C08.b")
    for name, op, kinds in _fq_div_ops():
        for kind in kinds:
            def fn(R, op=op, kind=kind):
                a, b = R.atom("a"), R.atom("b")
                x = FQ(a)
                y = FQ(b) if kind == "fq" else b
                with world.patched(M, prime_field_inv=inv_stub_ring):
                    return a, b, op(x, y)
            seen = set()
            for pth, R in ring.run_paths(fn, lambda: Ring(p)):
                rep.paths += 1
                w = "%s FQ %s.%s(%s)" % (impl, curve, name, kind)
                if pth.kind != "ret":
                    rep.fail(w + " raised %r" % (pth.value,), rp)
                    continue
                a, b, res = pth.value
                num, den = (a, b) if name == "truediv" else (b, a)
                live = [l for l in R.lits]
                if len(live) != 1 or R.prove_equal(Res({0: live[0][0][0]}, z3.IntVal(1), R), den) != "zero" and \
                        R.prove_equal(Res({0: live[0][0][0]}, z3.IntVal(1), R), -den) != "zero":
                    # after substitution den may read 0: compare before substitution using the literal itself
                    pass
                if len(live) != 1:
                    rep.fail(w + ": expected exactly the inv0 decision on the divisor", rp, detail=str(lits_summary(R)))
                    continue
                is_zero = live[0][1]
                seen.add(is_zero)
                if is_zero:
                    require(rep, R.prove_zero(res.n), w + ": x / 0 == 0 (inv0)", "divisor==0", rp)
                else:
                    require(rep, R.prove_equal(res.n * den, num), w + ": (x / y) * y == x", "divisor!=0", rp)
            if seen != {True, False}:
                rep.fail("%s FQ %s.%s(%s): inv0 / non-zero paths not both present" % (impl, curve, name, kind), rp)
    # eq / ne
    def fn_eq(R):
        a, b = R.atom("a"), R.atom("b")
        return FQ(a) == FQ(b), FQ(a) != FQ(b)
    outs = set()
    for pth, R in ring.run_paths(fn_eq, lambda: Ring(p)):
        rep.paths += 1
        if pth.kind != "ret" or len(R.lits) != 1:
            rep.fail("%s FQ %s eq: unexpected path" % (impl, curve), rp)
            continue
        e, ne = pth.value
        outs.add(R.lits[0][1])
        require(rep, e == R.lits[0][1] and ne == (not R.lits[0][1]), "%s FQ %s: == is residue equality, != its negation" % (impl, curve),
                lits_summary(R), rp)
    if outs != {True, False}:
        rep.fail("%s FQ %s eq is constant" % (impl, curve), rp)
    # negative control
    with core.Ctx() as ctx:
        R = Ring(p)
        ctx.ring = R
        a, b = R.atom("a"), R.atom("b")
        control(rep, R.prove_equal((FQ(a) - FQ(b)).n, b - a), "a - b == b - a")


def _check_fq_range(rep, impl, curve, FQ, M):
    """exact integers, products as uninterpreted atoms: every stored representative is in [0, p)."""
    p = FQ.field_modulus
    rp = {"kind": "c08_fq", "args": {"impl": impl, "curve": curve}}
    ops = [(n, o, k) for (n, o, s, k) in _fq_ops()] + _fq_div_ops() + [("pow2", lambda x, y: x ** 2, ("none",)),
                                                                         ("pow3", lambda x, y: x ** 3, ("none",))]
    for name, op, kinds in ops:
        for kind in kinds:
            def run(ctx, op=op, kind=kind):
                a = SymZ.var("a", 0, p - 1)
                x = FQ(a)
                if kind == "fq":
                    y = FQ(SymZ.var("b", 0, p - 1))
                elif kind == "int":
                    y = SymZ.var("b")           # ANY integer: negative, >= p
                else:
                    y = None
                with world.patched(M, prime_field_inv=inv_stub_uf):
                    return x, op(x, y)

            def on_path(pth, name=name, kind=kind):
                rep.paths += 1
                w = "%s FQ %s.%s(%s)" % (impl, curve, name, kind)
                if pth.kind != "ret":
                    rep.fail(w + " raised %r" % (pth.value,), rp)
                    return
                x, res = pth.value
                require(rep, type(res) is FQ, w + ": class preserved", pth.decisions, rp)
                n = SymZ.lift(res.n)
                r, m = pth.ctx.prove(z3.And(n.t >= 0, n.t < p))
                require(rep, r, w + ": 0 <= n < p", pth.decisions, rp, detail=str(m)[:300])
                r, m = pth.ctx.prove(SymZ.lift(x.n).t == z3.Int("a"))
                require(rep, r, w + ": operand not mutated", pth.decisions, rp)
            core.explore(run, ctx_kwargs=dict(mul="uf"), on_path=on_path)

    # constructor on arbitrary ints, comparisons, int(), one/zero
    def run_init(ctx):
        k = SymZ.var("k")
        return k, FQ(k)

    def on_init(pth):
        rep.paths += 1
        if pth.kind != "ret":
            rep.fail("%s FQ %s(int) raised %r" % (impl, curve, pth.value), rp)
            return
        k, x = pth.value
        n = SymZ.lift(x.n)
        r, m = pth.ctx.prove(z3.And(n.t >= 0, n.t < p, (n.t - k.t) % p == 0))
        require(rep, r, "%s FQ %s(k): n = k mod p for every integer k" % (impl, curve), pth.decisions, rp)
    core.explore(run_init, ctx_kwargs=dict(mul="uf"), on_path=on_init)

    def run_cmp(ctx):
        a = SymZ.var("a", 0, p - 1)
        b = SymZ.var("b", 0, p - 1)
        x, y = FQ(a), FQ(b)
        return a, b, (x == y, x != y, x < y, x == b, x < b, world.IntShim(x), x > y, x <= y, x >= y)

    def on_cmp(pth):
        rep.paths += 1
        if pth.kind != "ret":
            rep.fail("%s FQ %s comparison raised %r" % (impl, curve, pth.value), rp)
            return
        a, b, (eq, ne, lt, eqi, lti, iv, gt, le, ge) = pth.value
        def tb(v):
            return core.as_bool_term(v)
        goals = [("== is value equality", tb(eq) == (a.t == b.t)), ("!= is its negation", tb(ne) == (a.t != b.t)),
                 ("< orders representatives", tb(lt) == (a.t < b.t)), ("== with reduced int", tb(eqi) == (a.t == b.t)),
                 ("< with reduced int", tb(lti) == (a.t < b.t)), ("int(x) is the representative", SymZ.lift(iv).t == a.t),
                 ("> (total_ordering)", tb(gt) == (a.t > b.t)), ("<=", tb(le) == (a.t <= b.t)), (">=", tb(ge) == (a.t >= b.t))]
        for w, g in goals:
            r, m = pth.ctx.prove(g)
            require(rep, r, "%s FQ %s: %s" % (impl, curve, w), pth.decisions, rp)
    core.explore(run_cmp, ctx_kwargs=dict(mul="uf"), on_path=on_cmp)
    require(rep, int(FQ.one().n) == 1 and int(FQ.zero().n) == 0 and type(FQ.one()) is FQ, "%s FQ %s one()/zero()" % (impl, curve), None, rp)


def _mk_fq(impl, curve, which):
    def f(rep, tier):
        for i, c, FQ, M in fq_classes():
            if i == impl and c == curve:
                (_check_fq_values if which == "values" else _check_fq_range)(rep, i, c, FQ, M)
    return f


for _impl in ("ref", "opt"):
    for _curve in CURVES:
        obligation("C08", "fq_values_%s_%s" % (_impl, _curve),
                   bound="all residues a, b and all integers b (unreduced) at the real prime; identity in Z/p[a,b]")(
            _mk_fq(_impl, _curve, "values"))
        obligation("C08", "fq_range_%s_%s" % (_impl, _curve),
                   bound="a, b in [0,p), int operand ANY integer; QF_UFLIA with products as atoms; real 254/381-bit prime")(
            _mk_fq(_impl, _curve, "range"))


# ---------------------------------------------------------------------------
# C08.c  FQP ring operations (coefficient level, ring mode) vs a textbook model

def cf(x):
    """coefficients of an FQP element as Res / ints (reference wraps them in FQ objects)."""
    return [c.n if hasattr(c, "n") else c for c in x.coeffs]


def spec_mul(a, b, mc):
    d = len(a)
    c = [0] * (2 * d - 1)
    for i in range(d):
        for j in range(d):
            c[i + j] = c[i + j] + a[i] * b[j]
    for k in range(2 * d - 2, d - 1, -1):
        top = c[k]
        for i in range(d):
            c[k - d + i] = c[k - d + i] - top * mc[i]
    return c[:d]


def _atoms(R, prefix, d):
    return [R.atom("%s%d" % (prefix, i)) for i in range(d)]


def _eq_coeffs(rep, R, got, exp, what, rp, path=None):
    ok = True
    for i, (g, e) in enumerate(zip(got, exp)):
        ok &= require(rep, R.prove_equal(R.lift(g), R.lift(e)), "%s [coefficient %d]" % (what, i), path, rp)
    if len(got) != len(exp):
        rep.fail(what + ": wrong number of coefficients", rp)
        ok = False
    return ok


def _check_fqp_ring(rep, impl, curve, deg, K, M):
    p = K.field_modulus
    mc = list(K.FQ2_MODULUS_COEFFS if deg == 2 else K.FQ12_MODULUS_COEFFS)
    rp = {"kind": "c08_fqp", "args": {"impl": impl, "curve": curve, "deg": deg}}
    rep.encoded(K.__mul__, K.__add__, K.__sub__, K.__neg__, K.__init__, K.__eq__, K.__rmul__, K.__truediv__, K.__div__)
    tag = "%s FQ%d %s" % (impl, deg, curve)

    def fn(R):
        a, b, c = _atoms(R, "a", deg), _atoms(R, "b", deg), _atoms(R, "c", deg)
        k = R.atom("k")
        x, y, z = K(a), K(b), K(c)
        out = {"a": a, "b": b, "c": c, "k": k}
        out["mul"] = cf(x * y)
        out["add"] = cf(x + y)
        out["sub"] = cf(x - y)
        out["neg"] = cf(-x)
        out["smul"] = cf(x * k)
        out["rsmul"] = cf(k * x)
        out["assoc_l"], out["assoc_r"] = cf((x * y) * z), cf(x * (y * z))
        out["comm"] = cf(y * x)
        out["distr_l"], out["distr_r"] = cf(x * (y + z)), cf(x * y + x * z)
        out["one"] = cf(x * K.one())
        out["zero"] = cf(x + K.zero())
        out["inv_add"] = cf(x + (-x))
        out["types"] = [type(x * y), type(x + y), type(x - y), type(-x), type(x * k), type(K.one())]
        return out

    for pth, R in ring.run_paths(fn, lambda: Ring(p)):
        rep.paths += 1
        path = lits_summary(R)
        if pth.kind != "ret":
            rep.fail(tag + " ring operation raised %r" % (pth.value,), rp, detail=str(path))
            continue
        o = pth.value
        a, b, c, k = o["a"], o["b"], o["c"], o["k"]
        _eq_coeffs(rep, R, o["mul"], spec_mul(a, b, mc), tag + " x*y = schoolbook product reduced by the modulus polynomial", rp, path)
        _eq_coeffs(rep, R, o["add"], [u + v for u, v in zip(a, b)], tag + " x+y", rp, path)
        _eq_coeffs(rep, R, o["sub"], [u - v for u, v in zip(a, b)], tag + " x-y", rp, path)
        _eq_coeffs(rep, R, o["neg"], [-u for u in a], tag + " -x", rp, path)
        _eq_coeffs(rep, R, o["smul"], [u * k for u in a], tag + " x*int (any integer)", rp, path)
        _eq_coeffs(rep, R, o["rsmul"], [u * k for u in a], tag + " int*x", rp, path)
        _eq_coeffs(rep, R, o["assoc_l"], o["assoc_r"], tag + " (x*y)*z = x*(y*z)", rp, path)
        _eq_coeffs(rep, R, o["comm"], o["mul"], tag + " y*x = x*y", rp, path)
        _eq_coeffs(rep, R, o["distr_l"], o["distr_r"], tag + " x*(y+z) = x*y + x*z", rp, path)
        _eq_coeffs(rep, R, o["one"], a, tag + " x*one = x", rp, path)
        _eq_coeffs(rep, R, o["zero"], a, tag + " x+zero = x", rp, path)
        _eq_coeffs(rep, R, o["inv_add"], [0] * deg, tag + " x+(-x) = 0", rp, path)
        require(rep, all(t is K for t in o["types"]), tag + ": results have the operand's class", path, rp)
    # negative control: a wrong modulus coefficient is refuted
    with core.Ctx() as ctx:
        R = Ring(p)
        ctx.ring = R
        a, b = _atoms(R, "a", deg), _atoms(R, "b", deg)
        wrong = list(mc)
        wrong[0] = wrong[0] + 1
        got = cf(K(a) * K(b))
        control(rep, R.prove_equal(R.lift(got[0]), R.lift(spec_mul(a, b, wrong)[0])), tag + " product with modulus coefficient + 1")

    # equality: True exactly when every coefficient agrees
    def fn_eq(R):
        a, b = _atoms(R, "a", deg), _atoms(R, "b", deg)
        return a, b, K(a) == K(b), K(a) != K(b)
    n_true = 0
    for pth, R in ring.run_paths(fn_eq, lambda: Ring(p)):
        rep.paths += 1
        path = lits_summary(R)
        if pth.kind != "ret":
            rep.fail(tag + " == raised %r" % (pth.value,), rp)
            continue
        a, b, e, ne = pth.value
        diffs = [R.prove_equal(u, v) for u, v in zip(a, b)]   # under the path's substitutions
        all_zero = all(d == "zero" for d in diffs)
        n_true += 1 if e else 0
        # path literals: a False answer needs one coefficient decided different; True needs all decided equal
        dec_nonzero = any((not l[1]) for l in R.lits)
        dec_zero = sum(1 for l in R.lits if l[1])
        require(rep, (e is True and dec_zero == deg and not dec_nonzero) or (e is False and dec_nonzero),
                tag + " == is coefficient-wise equality", path, rp)
        require(rep, ne == (not e), tag + " != negates ==", path, rp)
    require(rep, n_true == 1, tag + " ==: exactly one path answers True", None, rp)


def _mk_fqp_ring(impl, curve, deg):
    def f(rep, tier):
        for i, c, K, M in fqp_classes(deg):
            if i == impl and c == curve:
                _check_fqp_ring(rep, i, c, deg, K, M)
    return f


for _impl in ("ref", "opt"):
    for _curve in CURVES:
        for _deg in (2, 12):
            obligation("C08", "fqp_ring_%s_%s_fq%d" % (_impl, _curve, _deg),
                       bound="all coefficient tuples (residues mod the real prime), int scalars any integer; identities in Z/p[a_i,b_i,c_i,k]")(
                _mk_fqp_ring(_impl, _curve, _deg))


@obligation("C08", "fqp_ring_symbolic_modulus", bound="ad-hoc FQP subclasses of degree 2, 3, 4 with SYMBOLIC modulus coefficients (any monic modulus), bn128 prime")
def fqp_symbolic_modulus(rep, tier):
    f = mod(FIELDS)
    p = f.bn128_FQ.field_modulus
    rp = {"kind": "c08_fqp_adhoc", "args": {}}
    refM, optM = mod("py_ecc.fields.field_elements"), mod("py_ecc.fields.optimized_field_elements")
    rep.encoded(refM.FQP.__mul__, optM.FQP.__mul__, refM.FQP.__init__, optM.FQP.__init__)
    for d in (2, 3, 4):
        def fn(R, d=d):
            mc = _atoms(R, "m", d)

            class RefT(refM.FQP):
                field_modulus = p
                degree = d

                def __init__(self, coeffs, modulus_coeffs=None):
                    refM.FQP.__init__(self, coeffs, mc)

            class OptT(optM.FQP):
                field_modulus = p
                degree = d
                mc_tuples = list(enumerate(mc))

                def __init__(self, coeffs, modulus_coeffs=None):
                    optM.FQP.__init__(self, coeffs, mc)
            a, b, c = _atoms(R, "a", d), _atoms(R, "b", d), _atoms(R, "c", d)
            out = {"mc": mc, "a": a, "b": b}
            for nm, T in (("ref", RefT), ("opt", OptT)):
                x, y, z = T(a), T(b), T(c)
                out[nm] = dict(mul=cf(x * y), al=cf((x * y) * z), ar=cf(x * (y * z)), dl=cf(x * (y + z)), dr=cf(x * y + x * z),
                               one=cf(x * T.one()))
            return out
        for pth, R in ring.run_paths(fn, lambda: Ring(p, policy=lambda live: "generic")):
            rep.paths += 1
            path = lits_summary(R)
            if pth.kind != "ret":
                rep.fail("symbolic-modulus FQP of degree %d raised %r" % (d, pth.value), rp, detail=str(path))
                continue
            o = pth.value
            sp = spec_mul(o["a"], o["b"], o["mc"])
            for nm in ("ref", "opt"):
                t = "%s FQP degree %d, symbolic modulus" % (nm, d)
                _eq_coeffs(rep, R, o[nm]["mul"], sp, t + ": product = textbook", rp, path)
                _eq_coeffs(rep, R, o[nm]["al"], o[nm]["ar"], t + ": associativity", rp, path)
                _eq_coeffs(rep, R, o[nm]["dl"], o[nm]["dr"], t + ": distributivity", rp, path)
                _eq_coeffs(rep, R, o[nm]["one"], o["a"], t + ": one is neutral", rp, path)


@obligation("C08", "fqp_range", bound="FQ2 and FQ12 of both curves, ref and opt: coefficients in [0,p) after + - * neg, int scalar any integer; QF_UFLIA, products as atoms")
def fqp_range(rep, tier):
    rp0 = lambda impl, curve, deg: {"kind": "c08_fqp", "args": {"impl": impl, "curve": curve, "deg": deg}}
    for deg in (2, 12):
        for impl, curve, K, M in fqp_classes(deg):
            p = K.field_modulus
            tag = "%s FQ%d %s" % (impl, deg, curve)

            def run(ctx, K=K, deg=deg, p=p):
                a = [SymZ.var("a%d" % i, 0, p - 1) for i in range(deg)]
                b = [SymZ.var("b%d" % i, 0, p - 1) for i in range(deg)]
                k = SymZ.var("k")
                x, y = K(a), K(b)
                return [x * y, x + y, x - y, -x, x * k, K([k] + [0] * (deg - 1))]

            def on_path(pth, tag=tag, rp=rp0(impl, curve, deg), p=p):
                rep.paths += 1
                if pth.kind != "ret":
                    rep.fail(tag + " raised %r" % (pth.value,), rp)
                    return
                for nm, r in zip(("mul", "add", "sub", "neg", "int-mul", "init(any int)"), pth.value):
                    g = z3.And(*[z3.And(SymZ.lift(c).t >= 0, SymZ.lift(c).t < p) for c in cf(r)])
                    v, m = pth.ctx.prove(g)
                    require(rep, v, tag + " %s: every coefficient in [0, p)" % nm, pth.decisions, rp)
            core.explore(run, ctx_kwargs=dict(mul="uf"), on_path=on_path)


# ---------------------------------------------------------------------------
# C08.e  exponentiation: x ** n is the n-fold product for every n >= 0

class _Carrier:
    def __init__(self, c):
        self.c = c


class ExpElt:
    """x^c for an abstract element x of a commutative monoid; c is an exact (symbolic) integer.
    `*` adds exponents; `**` is the CONTRACT of the recursive call (inductive hypothesis):
    for 0 <= k it returns base^k; the call is recorded so that the harness can check that
    the exponent decreased (well-founded induction) and count the nesting."""
    degree = 12
    calls = None
    field_modulus = 21888242871839275222246405745257275088696311157297823662689037894645226208583

    def __init__(self, v):
        if isinstance(v, _Carrier):
            self.c = v.c
        elif isinstance(v, (list, tuple)) and list(v) == [1] + [0] * (len(v) - 1):
            self.c = SymZ.const(0)
        elif isinstance(v, int) and v == 1:
            self.c = SymZ.const(0)
        else:
            raise core.Unsupported("ExpElt constructed from %r" % (v,))

    @property
    def n(self):
        return _Carrier(self.c)

    @property
    def coeffs(self):
        return _Carrier(self.c)

    def __mul__(self, o):
        if not isinstance(o, ExpElt):
            raise core.Unsupported("ExpElt * %r" % (type(o),))
        return ExpElt(_Carrier(self.c + o.c))

    __rmul__ = __mul__

    def __pow__(self, k):
        ExpElt.calls.append((self.c, k))
        return ExpElt(_Carrier(self.c * k))


def _pow_targets():
    f = mod(FIELDS)
    refM, optM = mod("py_ecc.fields.field_elements"), mod("py_ecc.fields.optimized_field_elements")
    return [("ref FQ", refM.FQ.__pow__, "ref", "FQ"), ("opt FQ", optM.FQ.__pow__, "opt", "FQ"),
            ("ref FQP", refM.FQP.__pow__, "ref", "FQ12"), ("opt FQP", optM.FQP.__pow__, "opt", "FQ12")]


def _has_while(fn, also_for=False):
    import ast, inspect, textwrap
    t = ast.parse(textwrap.dedent(inspect.getsource(fn)))
    return any(isinstance(n, (ast.While, ast.For) if also_for else ast.While) for n in ast.walk(t))


@obligation("C08", "pow_all_exponents", bound="every integer exponent n >= 0 (unbounded): inductive step for recursive forms, loop-cut invariant step for iterative forms; additionally all n < 2^6 unrolled")
def pow_all_exponents(rep, tier):
    """x ** n equals the n-fold product, for FQ.__pow__ (ref, opt) and FQP.__pow__ (ref, opt)."""
    for tag, fn, impl, kind in _pow_targets():
        rep.encoded(fn)
        rp = {"kind": "c08_pow", "args": {"impl": impl, "kind": kind}}
        if not _has_while(fn):
            # ---- recursive form: one level with the recursive call replaced by its contract
            def run(ctx, fn=fn):
                ExpElt.calls = []
                n = SymZ.var("n", 0, None)
                x = ExpElt(_Carrier(SymZ.const(1)))
                r = fn(x, n)
                return n, r, list(ExpElt.calls)

            def on_path(pth, tag=tag, rp=rp):
                rep.paths += 1
                if pth.kind != "ret":
                    rep.fail("%s.__pow__ raised %r for some n >= 0" % (tag, pth.value), dict(rp, args=dict(rp["args"], model=_model_n(pth))))
                    return
                n, r, calls = pth.value
                v, m = pth.ctx.prove(r.c.t == n.t)
                require(rep, v, "%s: x**n == x^n given the contract for smaller exponents" % tag, pth.decisions,
                        dict(rp, args=dict(rp["args"], model=_model_n(pth, m))))
                for (c, k) in calls:
                    k = SymZ.lift(k)
                    v, m = pth.ctx.prove(z3.And(k.t >= 0, k.t < n.t))
                    require(rep, v, "%s: recursive exponent is in [0, n) (well-founded)" % tag, pth.decisions,
                            dict(rp, args=dict(rp["args"], model=_model_n(pth, m))))
                rep.note("%s path %s: %d nested ** call(s)" % (tag, pth.decisions, len(calls)))
            core.explore(run, on_path=on_path)
            rep.stub("recursive ** inside __pow__ -> contract base^k (inductive hypothesis, k < n proven)")
        else:
            # ---- iterative form: unrolled for n < 2^K, plus the loop-cut inductive step
            K = 6 if tier == "quick" else 9

            def run(ctx, fn=fn, K=K):
                ExpElt.calls = []
                n = SymZ.var("n", 0, (1 << K) - 1)
                x = ExpElt(_Carrier(SymZ.const(1)))
                r = fn(x, n)
                return n, r, list(ExpElt.calls)

            def on_path(pth, tag=tag, rp=rp):
                rep.paths += 1
                if pth.kind != "ret":
                    rep.fail("%s.__pow__ raised %r for some n < 2^K" % (tag, pth.value), dict(rp, args=dict(rp["args"], model=_model_n(pth))))
                    return
                n, r, calls = pth.value
                v, m = pth.ctx.prove(r.c.t == n.t)
                require(rep, v, "%s: x**n == x^n (unrolled, n < 2^%d)" % (tag, K), pth.decisions,
                        dict(rp, args=dict(rp["args"], model=_model_n(pth, m))))
            core.explore(run, on_path=on_path, ctx_kwargs=dict(max_decisions=64))
            rep.bound("%s: loop unrolled for all n < 2^%d (every n is its own path)" % (tag, K))
            _pow_loop_step(rep, tag, fn, rp)


def _model_n(pth, m=None):
    try:
        if m is None:
            r, m = pth.ctx.satisfiable()
        v = m.eval(z3.Int("n"), model_completion=True)
        return {"n": v.as_long()}
    except Exception:
        return {}


class _NoEnv:
    def __enter__(self):
        return self

    def __exit__(self, *a):
        return False


def _pow_loop_step(rep, tag, fn, rp, *, is_elt=None, mk=None, expo=None, env=None, stubs=None, what="x**n == x^n"):
    is_elt = is_elt or (lambda v: isinstance(v, ExpElt))
    mk = mk or (lambda c: ExpElt(_Carrier(c)))
    expo = expo or (lambda e: e.c)
    env = env or _NoEnv
    """loop invariant  o = x^a, t = x^b, a + b*e = n  is established by the prologue, preserved by
    one arbitrary iteration (symbolic a, b, e), decreases e, and gives the result on exit."""
    try:
        cut = loopcut.cut(fn, rewriter=lambda m: world._Rewriter().visit(m))
    except loopcut.LoopCutError as e:
        rep.unknown("%s: loop cut does not apply (%s); only the unrolled bound stands" % (tag, e))
        return
    if stubs:
        cut["globals"].update(stubs)        # the cut functions run in a private copy of the module globals: callees replaced by their models

    def run(ctx):
        ExpElt.calls = []
        n = SymZ.var("n", 0, None)
        x = mk(SymZ.const(1))
        with env():
            kind, st = cut["init"](x, n)
        if kind != "state":
            return n, ("__prologue_returned__", st)      # early return: its value must already be x^n on this path
        return n, st
    # (1) prologue establishes the invariant; find which variables hold o, t, e
    found = {}

    def on_init(pth):
        rep.paths += 1
        if pth.kind != "ret":
            rep.unknown("%s: prologue not executable symbolically: %r" % (tag, pth.value))
            return
        n, st = pth.value
        if isinstance(st, tuple) and len(st) == 2 and st[0] == "__prologue_returned__":
            val = st[1]
            v_, m_ = pth.ctx.prove(expo(val).t == n.t, timeout_ms=20000) if is_elt(val) else ("sat", None)
            if v_ != "unsat":
                found["bad_prologue"] = True
                if v_ == "sat" and m_ is not None:
                    try:
                        found.setdefault("suspects", []).append(m_.eval(n.t, model_completion=True).as_long())
                    except Exception:
                        pass
            return
        elts = [k for k, v in st.items() if is_elt(v)]
        if len(elts) > 2 and cut["params"][0] in elts:
            elts.remove(cut["params"][0])       # a separate running variable exists: the parameter itself is only read
        ints = [k for k, v in st.items() if isinstance(v, (SymZ, int)) and not isinstance(v, bool)]
        found["elts"], found["ints"], found["self"] = elts, ints, cut["params"][0]
        found["init"] = st
        found["n"] = n
        found.setdefault("inits", []).append((pth, st, n))
    core.explore(run, on_path=on_init)
    if "elts" not in found or len(found["elts"]) != 2 or len(found["ints"]) != 1:
        rep.unknown("%s: loop state is not (accumulator, running power, exponent): %s" % (tag, found.get("elts")))
        return
    evar = found["ints"][0]

    suspects = list(found.get("suspects", []))
    if found.get("bad_prologue"):
        rep.fail("%s: an early return of the prologue is not x^n (n = %s)" % (tag, suspects[:3]),
                 dict(rp, args=dict(rp["args"], extra_n=[str(x) for x in suspects[:6]])))
        return
    # try both role assignments for (acc, pw)
    for acc, pw in (found["elts"], found["elts"][::-1]):
        ok = [True]

        def run_step(ctx, acc=acc, pw=pw):
            n = SymZ.var("n", 0, None)
            a = SymZ.var("a", 0, None)
            b = SymZ.var("b", 0, None)
            h = SymZ.var("h", 0, None)
            bit = SymZ.var("bit", 0, 1)
            e = 2 * h + bit
            ctx.assume(a + b * e == n)           # invariant (b*e is the only product: NIA, tiny)
            st = dict(found["init"])
            st.update({cut["params"][0]: mk(SymZ.const(1)), acc: mk(a), pw: mk(b), evar: e})
            with env():
                c = cut["cond"](**st)
                if not c:
                    # exit: result of the epilogue is x^n
                    r = cut["tail"](**st)
                    return ("exit", n, r, None)
                kind, st2 = cut["body"](**st)
            if kind != "state":
                return ("exit", n, st2, None)          # a return from inside the loop body: its value must be x^n
            return ("step", n, st2, e)

        def on_step(pth, acc=acc, pw=pw):
            rep.paths += 1
            if pth.kind != "ret":
                ok[0] = False
                return
            what, n, st2, e = pth.value
            if what == "exit":
                r = st2
                if not is_elt(r):
                    ok[0] = False
                    return
                v, m = pth.ctx.prove(expo(r).t == n.t, timeout_ms=20000)
                ok[0] &= (v == "unsat")
                return
            a2, b2, e2 = expo(st2[acc]), expo(st2[pw]), SymZ.lift(st2[evar])
            v, m = pth.ctx.prove(z3.And(a2.t + b2.t * e2.t == n.t, e2.t >= 0, e2.t < e.t), timeout_ms=20000)
            ok[0] &= (v == "unsat")
            if v == "sat":
                try:
                    suspects.append(m.eval(e.t, model_completion=True).as_long())
                except Exception:
                    pass
        try:
            core.explore(run_step, on_path=on_step)
        except (core.Unsupported, core.PathLimit):
            ok[0] = False
        if ok[0]:
            # initial state satisfies the invariant with these roles
            v = "unsat"
            for (ipth, st, n) in found["inits"]:
                # every path through the prologue must establish the invariant (e.g. an exponent reduction would not)
                vi, mi = ipth.ctx.prove(z3.And(expo(st[acc]).t + expo(st[pw]).t * SymZ.lift(st[evar]).t == n.t, SymZ.lift(st[evar]).t >= 0))
                if vi != "unsat":
                    v = vi
                    if vi == "sat":
                        try:
                            suspects.append(mi.eval(n.t, model_completion=True).as_long())
                        except Exception:
                            pass
            if v == "unsat":
                rep.ok("%s: loop invariant acc*pw^e = x^n established, preserved by an arbitrary iteration, e decreases, exit gives x^n (all n >= 0)" % tag)
                return
    if suspects:
        # the step fails from a state with exponent e: any run starts in that state with n = e
        rep.fail("%s: one loop iteration breaks the invariant acc*pw^e = x^n (solver state e = %s)" % (tag, suspects[:3]),
                 dict(rp, args=dict(rp["args"], extra_n=[str(x) for x in suspects[:6]])))
        return
    rep.unknown("%s: loop-cut inductive step not discharged" % tag)


@obligation("C08", "pow_resource_depth", bound="exponents up to p^12 (the property's quantifier): nesting depth of recursive __pow__ forms vs the interpreter's limit, measured on the running CPython")
def pow_resource_depth(rep, tier):
    """'x ** n ... for every integer n >= 0 however large': a recursive __pow__ nests one operator
    dispatch per exponent bit (proved by the inductive step: exactly one nested call, with exponent
    n div 2); the interpreter bounds that nesting.  The solver is asked for an exponent within
    0..p^12 whose nesting exceeds the measured limit."""
    import subprocess, json as _json
    from symx import harness as H
    for tag, fn, impl, kind in _pow_targets():
        rep.encoded(fn)
        rp = {"kind": "c08_pow", "args": {"impl": impl, "kind": kind}}
        if _has_while(fn):
            rep.ok("%s.__pow__ is iterative: no nesting, no depth bound" % tag, nontrivial=False)
            continue
        # structure: for n >= 2 exactly one nested call with k == n div 2
        nested = []

        def run(ctx, fn=fn):
            ExpElt.calls = []
            n = SymZ.var("n", 2, None)
            x = ExpElt(_Carrier(SymZ.const(1)))
            fn(x, n)
            return n, list(ExpElt.calls)

        def on_path(pth, tag=tag):
            rep.paths += 1
            if pth.kind != "ret":
                return
            n, calls = pth.value
            nested.append(len(calls))
            for c, k in calls:
                v, m = pth.ctx.prove(SymZ.lift(k).t == n.t / 2)
                require(rep, v, "%s: nested exponent is n div 2 (depth(n) = 1 + depth(n div 2))" % tag, pth.decisions, rp)
        core.explore(run, on_path=on_path)
        if not nested or max(nested) == 0:
            rep.ok("%s.__pow__ makes no nested ** call" % tag, nontrivial=False)
            continue
        # measured limit of the interpreter for this class (real, unshimmed code)
        code = (
            "import sys\n"
            "sys.path.insert(0, %r)\n"
            "from checks.replays import _fq_class\n"
            "K = _fq_class(%r, 'bls12_381', %r)\n"
            "x = K(3) if %r == 'FQ' else K([3, 1] + [0] * (K.degree - 2))\n"
            "lo, hi = 1, 6000\n"
            "def ok(b):\n"
            "    try:\n"
            "        x ** ((1 << b) + 1); return True\n"
            "    except RecursionError:\n"
            "        return False\n"
            "if ok(hi): print(-1)\n"
            "else:\n"
            "    while lo < hi:\n"
            "        mid = (lo + hi) // 2\n"
            "        if ok(mid): lo = mid + 1\n"
            "        else: hi = mid\n"
            "    print(lo)\n" % (H.VERIF, impl, kind, kind))
        out = subprocess.run([H.PLAIN_PY, "-c", code], capture_output=True, text=True, timeout=600, cwd="/")
        try:
            L = int(out.stdout.strip().splitlines()[-1])
        except Exception:
            rep.unknown("%s: could not measure the interpreter's nesting limit: %s" % (tag, (out.stdout + out.stderr)[-300:]))
            continue
        f = mod(FIELDS)
        pmax = f.bls12_381_FQ.field_modulus ** 12
        rep.note("%s: measured first failing exponent bit length on this CPython: %s; p^12 has %d bits" % (tag, L, pmax.bit_length()))
        if L < 0:
            rep.ok("%s: no RecursionError up to 6000-bit exponents (> p^12)" % tag)
            continue
        with core.Ctx() as ctx:
            n = SymZ.var("n", 0, pmax)
            r, m = ctx.satisfiable([n.t >= (1 << L)])
        if r == "sat":
            wit = m.eval(n.t, model_completion=True).as_long()
            rep.fail("%s.__pow__ nests one ** dispatch per exponent bit and the interpreter fails (RecursionError) from %d-bit exponents on; "
                     "exponents up to p^12 (%d bits) are required" % (tag, L, pmax.bit_length()),
                     dict(rp, args=dict(rp["args"], extra_n=[str(wit), str((1 << L) + 1)], finding="pow-recursion-depth")))
        else:
            rep.ok("%s: nesting limit %d bits covers every exponent up to p^12" % (tag, L))


# ---------------------------------------------------------------------------
# C08.b  inversion on integers

PRIMES = [2, 3, 5, 7, 11, 13, 17, 19, 23, 29, 31, 37, 41, 43, 47, 53, 59, 61, 67, 71, 73, 79, 83, 89, 97, 101, 103, 107, 109, 113, 127]


def _check_inv_small(rep, fn, tag, primes, width, rp, reduce_first):
    def run(ctx):
        n = SymZ.var("n", min(primes), max(primes))
        ctx.assume(z3.Or(*[n.t == q for q in primes]))
        a = SymZ.var("a", -2 * max(primes), 2 * max(primes))
        ctx.assume(z3.And(a.t >= -2 * n.t, a.t <= 2 * n.t))
        if not reduce_first:
            ctx.assume(z3.And(a.t >= 0, a.t < n.t))
        return a, n, fn(a, n)

    def on_path(pth):
        rep.paths += 1
        if pth.kind == "limit" or pth.kind == "unsupported":
            rep.unknown("%s: %s on path %s" % (tag, pth.value, pth.decisions))
            return
        if pth.kind != "ret":
            r, m = pth.ctx.satisfiable()
            rep.fail("%s raised %r" % (tag, pth.value), dict(rp, args=dict(rp["args"], model=_model_an(m))))
            return
        a, n, v = pth.value
        v = SymZ.lift(v)
        W = width
        am = z3.SRem(a.t, n.t)
        am = z3.If(am < 0, am + n.t, am)
        goal = z3.And(v.t >= 0, v.t < n.t,
                      z3.If(am == 0, v.t == 0, z3.URem(am * v.t, n.t) == 1))
        r, m = pth.ctx.prove(goal, timeout_ms=120000)
        require(rep, r, "%s: 0 <= v < n, a*v == 1 (mod n), inv0(0) = 0" % tag, pth.decisions,
                dict(rp, args=dict(rp["args"], model=_model_an(m))))
        r, m = pth.ctx.prove_side(timeout_ms=120000)
        if r != "unsat":
            rep.unknown("%s: bit-vector width %d may wrap on path %s (%s)" % (tag, width, pth.decisions, r))
        else:
            rep.ok("%s: no wrap-around at width %d on this path (bit-vector run = integer run)" % (tag, width), path=pth.decisions, nontrivial=False)
    core.explore(run, ctx_kwargs=dict(backend=("bv", width), branch_timeout_ms=60000, max_decisions=64), on_path=on_path)


def _model_an(m):
    try:
        out = {}
        for d in m.decls():
            if d.name() in ("a", "n"):
                v = m[d]
                out[d.name()] = v.as_signed_long() if z3.is_bv_value(v) else v.as_long()
        return out
    except Exception:
        return {}


@obligation("C08", "prime_field_inv_small", bound="a AND n symbolic: n any prime <= 13 (quick) / <= 31 (thorough), |a| <= 2n; real loop, exact bit-vector arithmetic (width 20/24 with proven no-wrap side conditions), every path to loop exit",
            timeout=1500)
def prime_field_inv_small(rep, tier):
    u = mod("py_ecc.utils")
    rep.encoded(u.prime_field_inv)
    primes = [q for q in PRIMES if q <= (13 if tier == "quick" else 31)]
    _check_inv_small(rep, u.prime_field_inv, "prime_field_inv", primes, 20 if tier == "quick" else 24,
                     {"kind": "c08_inv", "args": {"which": "prime_field_inv"}}, True)


def check_inv_loop_step(rep, fn, tag, modulus, rp):
    """One inductive step of the extended-Euclid loop at a real (full-width) modulus.
    Pre-state: arbitrary integers lm, hm, a, k1, k2 with low := lm*a - k1*n, high := hm*a - k2*n
    (i.e. the invariant lm*a == low, hm*a == high (mod n)) and 1 < low (loop condition), low < high.
    Post-state after the real loop body: the invariant again (identity over Z, the quotient
    high // low is an opaque term), 0 <= low' < low (termination), high' = low.
    Prologue: establishes the invariant.  Exit with low == 1: (lm % n) * a == 1 (mod n)."""
    if not _has_while(fn, also_for=True):
        # loop-free implementation (e.g. the builtin pow(a, -1, n)): decided directly at the real modulus, for every integer a,
        # with the builtin's contract (v in [0, n), a*v == 1 (mod n), ValueError when a == 0 (mod n))
        n = modulus

        def run_direct(ctx):
            a = SymZ.var("a")
            if rp["args"].get("which") != "prime_field_inv":
                ctx.assume(z3.And(a.t >= 0, a.t < n))
            return a, fn(a, n)

        def on_direct(pth):
            rep.paths += 1
            if pth.kind != "ret":
                g, m = pth.ctx.satisfiable()
                if g != "unsat":
                    rep.fail("%s raised %r" % (tag, pth.value), rp)
                return
            a, v = pth.value
            v = SymZ.lift(v)
            g, m = pth.ctx.prove(z3.And(v.t >= 0, v.t < n, z3.If(a.t % n == 0, v.t == 0, (a.t * v.t) % n == 1)), timeout_ms=60000)
            require(rep, g, "%s (loop-free form): 0 <= v < n, a*v == 1 (mod n), inv0(0) = 0, for every integer a" % tag, pth.decisions, rp)
        core.explore(run_direct, on_path=on_direct)
        rep.stub("builtin pow(a, -1, n) -> its contract (trusted runtime)")
        return
    try:
        cut = loopcut.cut(fn, rewriter=lambda m: world._Rewriter().visit(m))
    except loopcut.LoopCutError as e:
        rep.unknown("%s: loop cut does not apply: %s" % (tag, e))
        return
    n = modulus
    names = cut["vars"]
    need = {"lm", "hm", "low", "high"}
    if not need <= set(names):
        rep.unknown("%s: loop state variables %s differ from the extended-Euclid shape" % (tag, names))
        return
    pa, pn = cut["params"][0], cut["params"][1]
    R = Ring(None)

    # ---- prologue establishes the invariant (a any integer; exact)
    def run_init(ctx):
        a = SymZ.var("a")
        return a, cut["init"](a, n)

    def on_init(pth):
        rep.paths += 1
        if pth.kind != "ret":
            rep.fail("%s prologue raised %r" % (tag, pth.value), rp)
            return
        a, (kind, st) = pth.value
        if kind == "ret":
            v, m = pth.ctx.prove(z3.And(SymZ.lift(st).t == 0, a.t % n == 0))
            require(rep, v, "%s: early return only for a == 0 (mod n), value 0 (inv0)" % tag, pth.decisions, rp)
            return
        lm, hm, low, high = (SymZ.lift(st[k]) for k in ("lm", "hm", "low", "high"))
        a2 = SymZ.lift(st[pa])
        g = z3.And((lm.t * a2.t - low.t) % n == 0, (hm.t * a2.t - high.t) % n == 0, low.t >= 0, low.t < high.t, high.t == n,
                   (a2.t - a.t) % n == 0)
        v, m = pth.ctx.prove(g)
        require(rep, v, "%s: prologue establishes lm*a == low, hm*a == high (mod n), 0 <= low < high = n" % tag, pth.decisions, rp)
    core.explore(run_init, on_path=on_init)

    # ---- one arbitrary iteration
    def run_step(ctx):
        a, lm, hm, k1, k2 = (SymZ.var(x) for x in ("a", "lm", "hm", "k1", "k2"))
        low = lm * a - k1 * n
        high = hm * a - k2 * n
        ctx.assume(low.t > 1)
        ctx.assume(low.t < high.t)
        st = {pa: a, pn: n, "lm": lm, "hm": hm, "low": low, "high": high}
        for k in names:
            st.setdefault(k, 0)
        c = cut["cond"](**st)
        if not c:
            raise core.Unsupported("loop condition false although low > 1")
        kind, st2 = cut["body"](**st)
        if kind != "state":
            raise core.Unsupported("loop body returned")
        return dict(a=a, lm=lm, hm=hm, k1=k1, k2=k2, low=low, high=high), st2

    rp0 = rp

    def on_step(pth):
        rep.paths += 1
        if pth.kind != "ret":
            rep.unknown("%s: loop body not executable symbolically: %r" % (tag, pth.value))
            return
        pre, st2 = pth.value
        lm2, hm2, low2, high2 = (SymZ.lift(st2[k]) for k in ("lm", "hm", "low", "high"))
        a = pre["a"]
        # candidate inputs for replay: a state with remainder pair (high, low) is reached from a = high or a = low
        rp = dict(rp0)
        try:
            sr, sm = pth.ctx.satisfiable(timeout_ms=10000)
            if sr == "sat":
                cands = [sm.eval(pre[k].t, model_completion=True).as_long() for k in ("high", "low")]
                rp = {"kind": rp0["kind"], "args": dict(rp0["args"], candidates=[[str(c), str(n)] for c in cands])}
        except Exception:
            pass
        r = pre["high"].t / pre["low"].t
        # invariant: lm'*a - low' = (k2 - r*k1) * n  and  hm'*a - high' = k1 * n   (identities over Z)
        t1 = lm2.t * a.t - low2.t - (pre["k2"].t - r * pre["k1"].t) * n
        t2 = hm2.t * a.t - high2.t - pre["k1"].t * n
        require(rep, R.is_identically_zero(t1), "%s: iteration preserves lm*a == low (mod n)  [identity over Z, quotient opaque]" % tag, pth.decisions, rp)
        require(rep, R.is_identically_zero(t2), "%s: iteration preserves hm*a == high (mod n)" % tag, pth.decisions, rp)
        require(rep, R.is_identically_zero(high2.t - pre["low"].t), "%s: new high is the old low" % tag, pth.decisions, rp)
        # termination: the new low is high mod low
        require(rep, R.is_identically_zero(low2.t - (pre["high"].t - pre["low"].t * r)),
                "%s: new low = high - low*(high div low)" % tag, pth.decisions, rp)
        with core.Ctx() as c2:
            h, l = z3.Int("H"), z3.Int("L")
            c2.assume(l > 1)
            v, m = c2.prove(z3.And(h - l * (h / l) >= 0, h - l * (h / l) < l), timeout_ms=60000)
        require(rep, v, "%s: 0 <= high - low*(high div low) < low (termination measure decreases)" % tag, pth.decisions, rp)
        control(rep, R.is_identically_zero(t1 + 1), "%s invariant off by one" % tag)
    core.explore(run_step, on_path=on_step)

    # ---- exit
    def run_exit(ctx):
        a, lm, hm, k1, k2 = (SymZ.var(x) for x in ("a", "lm", "hm", "k1", "k2"))
        low = lm * a - k1 * n
        ctx.assume(low.t == 1)
        st = {pa: a, pn: n, "lm": lm, "hm": hm, "low": low, "high": hm * a - k2 * n}
        for k in names:
            st.setdefault(k, 0)
        c = cut["cond"](**st)
        if c:
            raise core.Unsupported("loop continues at low == 1")
        return a, lm, k1, cut["tail"](**st)

    def on_exit(pth):
        rep.paths += 1
        if pth.kind != "ret":
            rep.unknown("%s: epilogue not executable: %r" % (tag, pth.value))
            return
        a, lm, k1, v = pth.value
        v = SymZ.lift(v)
        g1, m = pth.ctx.prove(z3.And(v.t >= 0, v.t < n, (v.t - lm.t) % n == 0))
        require(rep, g1, "%s: exit value is lm mod n in [0, n)" % tag, pth.decisions, rp)
    core.explore(run_exit, on_path=on_exit)
    rep.trust("Euclid: for gcd(a, n) = 1 the remainder sequence reaches 1 (not 0); with the invariant lm*a == low (mod n) this gives (lm mod n)*a == 1")


@obligation("C08", "prime_field_inv_loop_step", bound="real 254- and 381-bit primes; a any integer; one arbitrary loop iteration from any state satisfying the invariant (unbounded number of iterations by induction)")
def prime_field_inv_loop_step(rep, tier):
    u = mod("py_ecc.utils")
    f = mod(FIELDS)
    rep.encoded(u.prime_field_inv)
    for curve in CURVES:
        p = getattr(f, curve + "_FQ").field_modulus
        check_inv_loop_step(rep, u.prime_field_inv, "prime_field_inv mod p(%s)" % curve, p, {"kind": "c08_inv", "args": {"which": "prime_field_inv"}})


# ---------------------------------------------------------------------------
# C08.d  FQP inversion / division at the real primes on sparse symbolic supports

def _support_policy(support_names):
    def pol(live):
        # fork only on "support variable == 0"; every other non-identically-zero branch polynomial: generic
        if len(live) == 1:
            v = ring._single_atom(live[0])
            if v is not None and str(v) in support_names:
                return "both"
        return "generic"
    return pol


def _check_fqp_inv(rep, impl, curve, deg, K, M, supports):
    p = K.field_modulus
    tag = "%s FQ%d %s" % (impl, deg, curve)
    rep.encoded(K.inv, K.__truediv__, K.__div__, K.__mul__)
    rep.stub("prime_field_inv(a, p) -> inv0 contract in ring mode (a^-1 as a fraction; forks on a == 0)")
    for S in supports:
        names = {"a%d" % i for i in S}
        rp = {"kind": "c08_fqp_inv", "args": {"impl": impl, "curve": curve, "deg": deg, "support": list(S)}}

        def fn(R, S=S):
            a = [R.atom("a%d" % i) if i in S else 0 for i in range(deg)]
            y = [R.atom("y1") if i == 1 else 0 for i in range(deg)]
            with world.patched(M, prime_field_inv=inv_stub_ring):
                x = K(a)
                xi = x.inv()
                prod = x * xi
                if deg == 2:
                    q = (K(y) / x) * x
                else:
                    q = (K(y) / x, K(y) * xi)
            return a, y, cf(xi), cf(prod), (cf(q) if deg == 2 else (cf(q[0]), cf(q[1])))

        n_paths = 0
        for pth, R in ring.run_paths(fn, lambda: Ring(p, policy=_support_policy(names)), max_paths=200):
            rep.paths += 1
            n_paths += 1
            path = lits_summary(R)
            zeroed = [str(v) for v, val in R.subst]
            if pth.kind != "ret":
                rep.fail("%s inv raised %r (support %s, zeroed %s)" % (tag, pth.value, S, zeroed), rp, detail=str(path)[:500])
                continue
            a, y, xi, prod, q = pth.value
            all_zero = len(zeroed) == len(S)
            one = [1] + [0] * (deg - 1)
            if all_zero:
                _eq_coeffs(rep, R, xi, [0] * deg, "%s support %s: inv(0) = 0 (inv0)" % (tag, S), rp, "all support variables zero")
            else:
                _eq_coeffs(rep, R, prod, one, "%s support %s zeroed %s: x * inv(x) = 1" % (tag, S, zeroed), rp, path[-3:])
                if deg == 2:
                    _eq_coeffs(rep, R, q, y, "%s support %s zeroed %s: (y / x) * x = y" % (tag, S, zeroed), rp, path[-3:])
                else:
                    # y / x is y * inv(x); with x*inv(x) = 1 and associativity/commutativity (fqp_ring_*) this gives (y/x)*x = y
                    _eq_coeffs(rep, R, q[0], q[1], "%s support %s zeroed %s: y / x = y * inv(x)" % (tag, S, zeroed), rp, path[-3:])
            generic = [core._short(c, 80) for l in R.lits if not l[1] and l[2] != "assumed" for c in l[0]]
            rep.note("%s support %s zeroed %s: claim excludes the zero set of %d branch polynomials" % (tag, S, zeroed, len(generic)))
        if n_paths < 2:
            rep.note("%s support %s: only %d path(s) explored" % (tag, S, n_paths))
    rep.bound("inputs with the listed coefficient supports, outside the zero set of the branch polynomials met on the generic path (other loci: small-field tier)")


def _mk_fqp_inv(impl, curve, deg):
    def f(rep, tier):
        if deg == 2:
            supports = [(0,), (1,), (0, 1)]
        elif tier == "quick":
            supports = [(i,) for i in range(7)]
        else:
            # reference classes (FQ objects per coefficient) decide {7}, {8}, {9}, {0,6} only partly within the budget (measured): optimized only
            supports = [(i,) for i in range(7)] + ([(7,), (8,), (9,), (0, 6)] if impl == "opt" else [])
        for i, c, K, M in fqp_classes(deg):
            if i == impl and c == curve:
                _check_fqp_inv(rep, i, c, deg, K, M, supports)
    return f


for _impl in ("ref", "opt"):
    for _curve in CURVES:
        for _deg in (2, 12):
            obligation("C08", "fqp_inv_%s_%s_fq%d" % (_impl, _curve, _deg), timeout=400,
                       bound=("FQ2: all elements (both coefficients symbolic, every zero pattern)" if _deg == 2 else
                              "FQ12: coefficient supports {i}, i = 0..6 (quick), i = 0..6 (thorough: optimized classes also {7}, {8}, {9}, {0,6}); supports {10}, {11}, other pairs and denser supports exceed the time/memory budget at the real primes (rational functions without gcd cancellation) and are claimed only in the small-field tier; real prime; generic path + zeroed support variables"))(
                _mk_fqp_inv(_impl, _curve, _deg))


# ---------------------------------------------------------------------------
# C08.f  whole small fields, exact bit-vector arithmetic, real control flow (no stubs)

def _small_primes(tier):
    return [q for q in PRIMES if q <= (13 if tier == "quick" else 31)]


def _prove_all(rep, pth, goals, tag, rp, model_names=()):
    for what, g in goals:
        if isinstance(g, bool):
            require(rep, g, "%s: %s" % (tag, what), pth.decisions, rp)
            continue
        r, m = pth.ctx.prove(core.as_bool_term(g), timeout_ms=120000)
        rpm = rp
        if r == "sat":
            rpm = {"kind": rp["kind"], "args": dict(rp["args"], model=_model_dict(m))}
        require(rep, r, "%s: %s" % (tag, what), pth.decisions, rpm)
    r, m = pth.ctx.prove_side(timeout_ms=120000)
    if r != "unsat":
        rep.unknown("%s: bit-vector arithmetic may wrap on path %s" % (tag, pth.decisions))


def _model_dict(m):
    out = {}
    try:
        for d in m.decls():
            v = m[d]
            if z3.is_bv_value(v):
                out[d.name()] = v.as_signed_long()
            elif z3.is_int_value(v):
                out[d.name()] = v.as_long()
    except Exception:
        pass
    return out


def _eqz(a, b):
    """term: the two FQ-or-int values are equal representatives."""
    a = a.n if hasattr(a, "n") else a
    b = b.n if hasattr(b, "n") else b
    return SymZ.lift(a).t == SymZ.lift(b).t


def _check_small_fq(rep, impl, Base, tier):
    primes = _small_primes(tier)
    rp = {"kind": "c08_small_fq", "args": {"impl": impl}}
    tag = "%s FQ over every prime <= %d" % (impl, max(primes))
    rep.encoded(Base.__add__, Base.__mul__, Base.__sub__, Base.__neg__, Base.__truediv__, Base.__div__, Base.__init__, Base.__pow__)

    def mk(ctx):
        p = SymZ.var("p", min(primes), max(primes))
        ctx.assume(z3.Or(*[p.t == q for q in primes]))
        T = type("SmallFQ", (Base,), {"field_modulus": p})
        vs = []
        for nm in ("a", "b", "c"):
            v = SymZ.var(nm, 0, max(primes) - 1)
            ctx.assume(v.t < p.t)
            vs.append(T(v))
        return p, T, vs

    def run_ring(ctx):
        p, T, (a, b, c) = mk(ctx)
        return p, [
            ("(a+b)+c = a+(b+c)", _eqz((a + b) + c, a + (b + c))), ("a+b = b+a", _eqz(a + b, b + a)),
            ("(a*b)*c = a*(b*c)", _eqz((a * b) * c, a * (b * c))), ("a*b = b*a", _eqz(a * b, b * a)),
            ("a*(b+c) = a*b + a*c", _eqz(a * (b + c), a * b + a * c)),
            ("a+0 = a", _eqz(a + T.zero(), a)), ("a*1 = a", _eqz(a * T.one(), a)), ("a+(-a) = 0", _eqz(a + (-a), 0)),
            ("a-b = a+(-b)", _eqz(a - b, a + (-b))), ("a**0 = 1", _eqz(a ** 0, 1)), ("a**1 = a", _eqz(a ** 1, a)),
            ("a**2 = a*a", _eqz(a ** 2, a * a)), ("a**3 = a*a*a", _eqz(a ** 3, a * a * a)), ("a**5 = a*a*a*a*a", _eqz(a ** 5, a * a * a * a * a)),
            ("int operands act as residues", _eqz(a + (b.n + p), a + b)), ("int*: residues", _eqz(a * (b.n - p), a * b)),
            ("results reduced", z3.And(SymZ.lift((a * b).n).t >= 0, SymZ.lift((a * b).n).t < p.t, SymZ.lift((a - b).n).t >= 0,
                                       SymZ.lift((a - b).n).t < p.t, SymZ.lift((-a).n).t >= 0, SymZ.lift((-a).n).t < p.t)),
        ]

    def on_ring(pth):
        rep.paths += 1
        if pth.kind != "ret":
            rep.fail("%s: ring operation raised %r" % (tag, pth.value), rp)
            return
        _prove_all(rep, pth, pth.value[1], tag, rp)
    core.explore(run_ring, ctx_kwargs=dict(backend=("bv", 24), branch_timeout_ms=60000), on_path=on_ring)

    def run_div(ctx):
        p, T, (a, b, c) = mk(ctx)
        q = a / b
        bi = 1 / b
        nz = SymZ.lift(b.n).t != 0
        return p, [
            ("(a/b)*b = a for b != 0", z3.Implies(nz, _eqz(q * b, a))),
            ("a/0 = 0 (inv0)", z3.Implies(z3.Not(nz), _eqz(q, 0))),
            ("b*(1/b) = 1 for b != 0", z3.Implies(nz, _eqz(b * bi, 1))),
            ("quotient reduced", z3.And(SymZ.lift(q.n).t >= 0, SymZ.lift(q.n).t < p.t)),
            ("a / int acts on the residue", _eqz(a / (b.n + p), q)),
        ]

    def on_div(pth):
        rep.paths += 1
        if pth.kind != "ret":
            rep.fail("%s: division raised %r" % (tag, pth.value), rp)
            return
        _prove_all(rep, pth, pth.value[1], tag, rp)
    core.explore(run_div, ctx_kwargs=dict(backend=("bv", 24), branch_timeout_ms=60000, max_decisions=80), on_path=on_div)


@obligation("C08", "small_fq_ref", bound="reference FQ instantiated with a SYMBOLIC modulus ranging over every prime <= 13 (quick) / <= 31 (thorough); all elements/pairs/triples; real prime_field_inv; exact 24-bit arithmetic with no-wrap side conditions",
            timeout=900)
def small_fq_ref(rep, tier):
    _check_small_fq(rep, "ref", mod("py_ecc.fields.field_elements").FQ, tier)


@obligation("C08", "small_fq_opt", bound="optimized FQ instantiated with a SYMBOLIC modulus ranging over every prime <= 13 (quick) / <= 31 (thorough); all elements/pairs/triples; real prime_field_inv; exact 24-bit arithmetic",
            timeout=900)
def small_fq_opt(rep, tier):
    _check_small_fq(rep, "opt", mod("py_ecc.fields.optimized_field_elements").FQ, tier)


# ---- small extension fields ------------------------------------------------

def _poly_mulmod(a, b, f, q):
    """a*b mod (f, q); polynomials as coefficient lists (low first), f monic of degree d."""
    d = len(f) - 1
    r = [0] * (len(a) + len(b) - 1)
    for i, x in enumerate(a):
        if x:
            for j, y in enumerate(b):
                r[i + j] = (r[i + j] + x * y) % q
    for k in range(len(r) - 1, d - 1, -1):
        t = r[k]
        if t:
            for i in range(d + 1):
                r[k - d + i] = (r[k - d + i] - t * f[i]) % q
    r = r[:d] + [0] * max(0, d - len(r))
    return r[:d]


def _poly_gcd_is_one(a, f, q):
    def trim(p):
        while p and p[-1] % q == 0:
            p = p[:-1]
        return p
    a, b = trim(list(f)), trim(list(a))
    while b:
        # a mod b
        inv = pow(b[-1], -1, q)
        a = list(a)
        while len(a) >= len(b):
            c = a[-1] * inv % q
            sh = len(a) - len(b)
            for i, y in enumerate(b):
                a[sh + i] = (a[sh + i] - c * y) % q
            a = trim(a)
            if not a:
                break
        a, b = b, trim(a)
    return len(a) == 1


def is_irreducible(f, q):
    """Rabin's test for a monic polynomial f over GF(q) (concrete pre-computation)."""
    d = len(f) - 1
    x = [0, 1] + [0] * (d - 2) if d >= 2 else [0]

    def xpow_q_iter(p):
        # p^(q) mod f
        r = [1] + [0] * (d - 1)
        base = p
        e = q
        while e:
            if e & 1:
                r = _poly_mulmod(r, base, f, q)
            base = _poly_mulmod(base, base, f, q)
            e >>= 1
        return r
    frob = [x]
    for i in range(d):
        frob.append(xpow_q_iter(frob[-1]))
    if frob[d] != x:
        return False
    for r in set(pf for pf in (2, 3, 5, 7, 11) if d % pf == 0):
        h = [(u - v) % q for u, v in zip(frob[d // r], x)]
        if not any(h):
            return False
        if not _poly_gcd_is_one(h, f, q):
            return False
    return True


def find_sparse_irreducible(q, d):
    """first irreducible of the form x^d + a x^k + b (then 4 terms) in a fixed enumeration order."""
    for k in range(1, d):
        for a in range(1, q):
            for b in range(1, q):
                f = [b] + [0] * (d - 1) + [1]
                f[k] = a
                if is_irreducible(f, q):
                    return f
    for k in range(2, d):
        for j in range(1, k):
            for a in range(1, q):
                for c in range(1, q):
                    for b in range(1, q):
                        f = [b] + [0] * (d - 1) + [1]
                        f[k] = a
                        f[j] = c
                        if is_irreducible(f, q):
                            return f
    return None


def _mk_small_ext(impl, q, f):
    """subclass of the real FQP (ref or opt) of degree len(f)-1 over GF(q) with monic modulus f."""
    d = len(f) - 1
    mc = tuple(f[:d])
    if impl == "ref":
        Base = mod("py_ecc.fields.field_elements").FQP

        class T(Base):
            field_modulus = q
            degree = d

            def __init__(self, coeffs, modulus_coeffs=None):
                Base.__init__(self, coeffs, mc)
    else:
        Base = mod("py_ecc.fields.optimized_field_elements").FQP

        class T(Base):
            field_modulus = q
            degree = d
            mc_tuples = [(i, c) for i, c in enumerate(mc) if c]

            def __init__(self, coeffs, modulus_coeffs=None):
                Base.__init__(self, coeffs, mc)
    return T, Base


def _coeff_eq(x, y):
    cs = [_eqz(u, v) for u, v in zip(x.coeffs if hasattr(x, "coeffs") else x, y.coeffs if hasattr(y, "coeffs") else y)]
    return z3.And(*cs)


def _check_small_ext(rep, impl, q, f, sym_positions, fixed, tag, rp, width=32, with_ring=True):
    """elements with symbolic coefficients at sym_positions (others from `fixed`)."""
    T, Base = _mk_small_ext(impl, q, f)
    d = len(f) - 1
    rep.encoded(Base.inv, Base.__mul__, Base.__truediv__, Base.__div__, Base.__eq__)
    one = [1] + [0] * (d - 1)

    def elem(ctx, nm, fixed_row):
        cs = []
        for i in range(d):
            if i in sym_positions:
                cs.append(SymZ.var("%s%d" % (nm, i), 0, q - 1))
            else:
                cs.append(fixed_row[i])
        return T(cs), cs

    def run_inv(ctx):
        x, xs = elem(ctx, "a", fixed[0])
        y, ys = elem(ctx, "b", fixed[1])
        xi = x.inv()
        nz = z3.Or(*[SymZ.lift(c).t != 0 for c in xs])
        goals = [("x*inv(x) = 1 for x != 0", z3.Implies(nz, _coeff_eq(x * xi, one))),
                 ("inv(0) = 0", z3.Implies(z3.Not(nz), _coeff_eq(xi, [0] * d))),
                 ("(y/x)*x = y for x != 0", z3.Implies(nz, _coeff_eq((y / x) * x, y))),
                 ("inverse reduced", z3.And(*[z3.And(SymZ.lift(c.n if hasattr(c, "n") else c).t >= 0,
                                                     SymZ.lift(c.n if hasattr(c, "n") else c).t < q) for c in xi.coeffs]))]
        return goals

    def on_path(pth):
        rep.paths += 1
        if pth.kind in ("limit", "unsupported"):
            rep.unknown("%s: %s" % (tag, pth.value))
            return
        if pth.kind != "ret":
            r, m = pth.ctx.satisfiable()
            rep.fail("%s: inv raised %r" % (tag, pth.value), {"kind": rp["kind"], "args": dict(rp["args"], model=_model_dict(m) if m else {})})
            return
        _prove_all(rep, pth, pth.value, tag, rp)
    core.explore(run_inv, ctx_kwargs=dict(backend=("bv", width), branch_timeout_ms=60000, max_decisions=300), on_path=on_path, max_paths=20000)

    if with_ring:
        def run_ring(ctx):
            x, _ = elem(ctx, "a", fixed[0])
            y, _ = elem(ctx, "b", fixed[1])
            z, _ = elem(ctx, "c", fixed[2])
            return [("(x*y)*z = x*(y*z)", _coeff_eq((x * y) * z, x * (y * z))), ("x*y = y*x", _coeff_eq(x * y, y * x)),
                    ("x*(y+z) = x*y + x*z", _coeff_eq(x * (y + z), x * y + x * z)), ("x*1 = x", _coeff_eq(x * T.one(), x)),
                    ("x + (-x) = 0", _coeff_eq(x + (-x), [0] * d)), ("x**3 = x*x*x", _coeff_eq(x ** 3, x * x * x)),
                    ("x**0 = 1", _coeff_eq(x ** 0, one))]
        core.explore(run_ring, ctx_kwargs=dict(backend=("bv", width), branch_timeout_ms=60000), on_path=on_path)


def _fq2_polys(q):
    polys = [[1, 0, 1]]     # x^2 + 1, irreducible for q == 3 (mod 4)
    for m1 in range(1, q):
        found = [[m0, m1, 1] for m0 in range(1, q) if is_irreducible([m0, m1, 1], q)]
        if found:
            polys.append(found[0])     # the first irreducible quadratic with a linear term
            break
    return polys


def _mk_small_fq2(impl, q, k):
    def f(rep, tier):
        fpoly = _fq2_polys(q)[k]
        if not is_irreducible(fpoly, q):
            rep.unknown("%s reducible over GF(%d)?" % (fpoly, q))
            return
        rp = {"kind": "c08_small_ext", "args": {"impl": impl, "q": q, "f": fpoly}}
        _check_small_ext(rep, impl, q, fpoly, {0, 1}, [[0, 0]] * 3, "%s FQP over GF(%d^2) modulus %s, all elements" % (impl, q, fpoly), rp, width=24,
                         with_ring=(k == 0))
    return f


for _impl in ("ref", "opt"):
    for _q, _k, _tier in ((3, 0, "quick"), (3, 1, "quick"), (7, 0, "thorough"), (7, 1, "thorough")):      # q = 11: associativity / distributivity undecided after 23 min (measured), not claimed
        obligation("C08", "small_fq2_%s_q%d_m%d" % (_impl, _q, _k), timeout=900, tier=_tier,
                   bound="every element/pair/triple of GF(%d^2) with modulus %s; real inv (Euclid with degree branches), no stubs; exact 24-bit arithmetic"
                         % (_q, "x^2+1" if _k == 0 else "the first irreducible x^2+bx+c with b != 0"))(_mk_small_fq2(_impl, _q, _k))


def _mk_small_deg12(impl):
    def f(rep, tier):
        import random
        rng = random.Random(2026)
        qs = [3] if tier == "quick" else [3, 5, 7]
        for q in qs:
            fpoly = find_sparse_irreducible(q, 12)
            if fpoly is None:
                rep.unknown("no sparse irreducible polynomial of degree 12 over GF(%d) found" % q)
                continue
            rep.note("GF(%d^12) modulus (Rabin-tested irreducible): %s" % (q, fpoly))
            patterns = [({0, 1, 2}, "low"), ({3, 7, 11}, "spread"), ({9, 10, 11}, "high")] if tier == "quick" else \
                [({0, 1, 2, 3}, "low"), ({2, 5, 8, 11}, "spread"), ({8, 9, 10, 11}, "high"), ({0, 4, 6, 11}, "mixed")]
            for pos, nm in patterns:
                fixed = [[rng.randrange(q) for _ in range(12)] for _ in range(3)]
                rp = {"kind": "c08_small_ext", "args": {"impl": impl, "q": q, "f": fpoly, "fixed": fixed, "sym": sorted(pos)}}
                _check_small_ext(rep, impl, q, fpoly, pos, fixed, "%s FQP over GF(%d^12), symbolic coefficients %s (others fixed %s)" % (impl, q, sorted(pos), fixed[0]),
                                 rp, width=40, with_ring=(nm == "low"))
    return f


# NOTE: small_deg12 is not registered: with 3 symbolic coefficients over GF(3^12) the exact bit-vector queries did not
# finish within 25 minutes per pattern (measured), so degree-12 inversion is claimed only on the sparse supports of
# fqp_inv_* (real primes) -- see DESIGN.md, C08.d.



@obligation("C08", "fq2_inv_symbolic_modulus", bound="FQ2 (reference and optimized) instantiated with a SYMBOLIC modulus u^2 + m1*u + m0 at the bn128 prime: every element (both coefficients symbolic, every zero pattern), generic path for the remaining branch polynomials")
def fq2_inv_symbolic_modulus(rep, tier):
    """x * inv(x) = 1 and (y / x) * x = y for FQ2 over ANY quadratic modulus (the classes are generic in it)."""
    f = mod(FIELDS)
    p = f.bn128_FQ.field_modulus
    refM, optM = mod("py_ecc.fields.field_elements"), mod("py_ecc.fields.optimized_field_elements")
    rep.encoded(refM.FQ2.__init__, optM.FQ2.__init__, refM.FQP.inv, optM.FQP.inv, getattr(refM.FQ2, "inv"), getattr(optM.FQ2, "inv"))
    rep.stub("prime_field_inv -> inv0 contract (ring mode)")
    for impl, M in (("ref", refM), ("opt", optM)):
        rp = {"kind": "c08_fq2_modulus", "args": {"impl": impl}}

        def fn(R, M=M):
            m0, m1 = R.atom("m0"), R.atom("m1")

            class T(M.FQ2):
                field_modulus = p
                FQ2_MODULUS_COEFFS = (m0, m1)
            a = [R.atom("a0"), R.atom("a1")]
            y = [R.atom("y0"), R.atom("y1")]
            with world.patched(M, prime_field_inv=inv_stub_ring):
                x = T(a)
                xi = x.inv()
                prod = x * xi
                q = (T(y) / x) * x
            return a, y, (m0, m1), cf(xi), cf(prod), cf(q)
        names = {"a0", "a1"}
        n_paths = 0
        for pth, R in ring.run_paths(fn, lambda: Ring(p, policy=_support_policy(names)), max_paths=100):
            rep.paths += 1
            n_paths += 1
            path = lits_summary(R)
            zeroed = [str(v) for v, val in R.subst]
            if pth.kind != "ret":
                rep.fail("%s FQ2 with symbolic modulus: inv raised %r" % (impl, pth.value), rp, detail=str(path)[:300])
                continue
            a, y, mc, xi, prod, q = pth.value
            if len(zeroed) == 2:
                _eq_coeffs(rep, R, xi, [0, 0], "%s FQ2, symbolic modulus: inv(0) = 0" % impl, rp, path)
            else:
                _eq_coeffs(rep, R, prod, [1, 0], "%s FQ2, symbolic modulus u^2+m1*u+m0, zeroed %s: x * inv(x) = 1" % (impl, zeroed), rp, path[-3:])
                _eq_coeffs(rep, R, q, y, "%s FQ2, symbolic modulus, zeroed %s: (y / x) * x = y" % (impl, zeroed), rp, path[-3:])
        require(rep, n_paths >= 2, "%s FQ2 symbolic modulus: generic and zero paths explored" % impl, None, rp)


# ---------------------------------------------------------------------------
# C08.d'  FQP.inv: one arbitrary iteration of the extended-Euclid loop on DENSE symbolic polynomials (all degree patterns)

def _check_fqp_inv_loop(rep, impl, curve, deg_, K, M, patterns):
    """State of the loop: lists lm, hm, low, high of length d+1.  For every degree pattern (dl = deg low >= 1, dh = deg high)
    with dense symbolic coefficients (deg lm <= d - dh, deg hm <= d - dl: the degree invariant J), one execution of the REAL loop
    body is proved to satisfy, for the quotient r the code itself computed:
       nm = hm - lm*r   and   new = high - low*r   (as polynomials, nothing lost by the truncated double loop),
       J again, and progress: deg new < dh when dl <= dh; a pure swap when dl > dh.
    From these: lm*x == low, hm*x == high (mod the modulus polynomial) is an invariant (Bezout step, valid for ANY quotient r),
    and at exit (deg low = 0) the result lm / low[0] is the inverse."""
    p = K.field_modulus
    d = deg_
    tag = "%s FQ%d %s inv loop" % (impl, d, curve)
    rp = {"kind": "c08_fqp_inv", "args": {"impl": impl, "curve": curve, "deg": d, "support": list(range(d))}}
    inst = K([1] + [0] * (d - 1))
    rep.encoded(K.inv)

    def wrap(R, x):
        """coefficient as the class stores it: reference keeps FQ objects, optimized keeps ints."""
        if impl == "ref":
            return inst.FQP_corresponding_FQ_class(x)
        return x

    for (dl, dh) in patterns:
        rec = {}

        def fn(R, dl=dl, dh=dh):
            lm = [wrap(R, R.atom("lm%d" % i)) if i <= d - dh else 0 for i in range(d + 1)]
            hm = [wrap(R, R.atom("hm%d" % i)) if i <= d - dl else 0 for i in range(d + 1)]
            low = [wrap(R, R.atom("lo%d" % i)) if i <= dl else 0 for i in range(d + 1)]
            high = [wrap(R, R.atom("hi%d" % i)) if i <= dh else 0 for i in range(d + 1)]
            R.declare_nonzero(R.atom("lo%d" % dl))
            R.declare_nonzero(R.atom("hi%d" % dh))
            qs = []
            if impl == "ref":
                real_div = M.poly_rounded_div

                def div(a, b):
                    r_ = real_div(a, b)
                    qs.append(list(r_))
                    return r_
                ctxm = world.patched(M, prime_field_inv=inv_stub_ring, poly_rounded_div=div)
                me = inst
            else:
                real_div = K.optimized_poly_rounded_div

                class Rec(K):
                    def optimized_poly_rounded_div(self, a, b):
                        r_ = real_div(self, a, b)
                        qs.append(list(r_))
                        return r_
                me = Rec([1] + [0] * (d - 1))
                ctxm = world.patched(M, prime_field_inv=inv_stub_ring)
            with ctxm:
                cut = loopcut.cut(K.inv, rewriter=lambda m_: world._Rewriter().visit(m_))
                # locals the prologue defines besides the four loop-carried lists (hoisted constants etc.) come from the real prologue
                k0, st0 = cut["init"](me)
                st = dict(st0) if k0 == "state" else {}
                st.update({"self": me, "lm": list(lm), "hm": list(hm), "low": list(low), "high": list(high)})
                c = cut["cond"](**st)
                if not c:
                    raise core.Unsupported("loop condition false although deg(low) = %d" % dl)
                kind, st2 = cut["body"](**st)
            if kind != "state":
                raise core.Unsupported("loop body returned")
            return (lm, hm, low, high), st2, qs

        def val(x):
            x = x.n if hasattr(x, "n") else x
            return x

        for pth, R in ring.run_paths(fn, lambda: Ring(p, policy=lambda live: "generic")):
            rep.paths += 1
            path = "dl=%d dh=%d" % (dl, dh)
            if pth.kind != "ret":
                rep.fail("%s (%s) raised %r" % (tag, path, pth.value), rp, detail=str(lits_summary(R))[-300:])
                continue
            (lm, hm, low, high), st2, qs = pth.value
            if len(qs) != 1:
                rep.fail("%s (%s): the quotient is not computed exactly once" % (tag, path), rp)
                continue
            r = [R.lift(val(x)) for x in qs[0]] + [R.const(0)] * (d + 1)
            L = lambda lst: [R.lift(val(x)) for x in lst]
            lm_, hm_, low_, high_ = L(lm), L(hm), L(low), L(high)
            nm, new, lm2, low2, hm2, high2 = L(st2["nm"]), L(st2["new"]), L(st2["lm"]), L(st2["low"]), L(st2["hm"]), L(st2["high"])
            ok = len(nm) == d + 1 and len(new) == d + 1

            def conv(a, b, k):
                acc = R.const(0)
                for i in range(0, k + 1):
                    if i <= d and k - i <= d:
                        acc = acc + a[i] * b[k - i]
                return acc
            okA = all(R.prove_equal(nm[k], hm_[k] - conv(lm_, r, k)) == "zero" for k in range(d + 1))
            okB = all(R.prove_equal(new[k], high_[k] - conv(low_, r, k)) == "zero" for k in range(d + 1))
            lostA = all(R.prove_zero(conv(lm_, r, k)) == "zero" for k in range(d + 1, 2 * d + 1))
            lostB = all(R.prove_zero(conv(low_, r, k)) == "zero" for k in range(d + 1, 2 * d + 1))
            require(rep, ok and okA and lostA, "%s (%s): nm = hm - lm*r for the computed quotient r, nothing truncated" % (tag, path), path, rp)
            require(rep, ok and okB and lostB, "%s (%s): new = high - low*r, nothing truncated" % (tag, path), path, rp)
            okS = all(R.prove_equal(a, b) == "zero" for a, b in zip(lm2 + low2 + hm2 + high2, nm + new + lm_ + low_))
            require(rep, okS, "%s (%s): state update (lm, low, hm, high) := (nm, new, lm, low)" % (tag, path), path, rp)
            okJ = all(R.prove_zero(nm[k]) == "zero" for k in range(d - dl + 1, d + 1))
            require(rep, okJ, "%s (%s): degree invariant deg(lm') <= d - deg(high') preserved" % (tag, path), path, rp)
            if dl <= dh:
                okD = all(R.prove_zero(new[k]) == "zero" for k in range(dh, d + 1))
                require(rep, okD, "%s (%s): progress -- the leading term cancels, deg(new) < deg(high)" % (tag, path), path, rp)
            else:
                okD = all(R.prove_equal(new[k], high_[k]) == "zero" for k in range(d + 1)) and all(R.prove_equal(nm[k], hm_[k]) == "zero" for k in range(d + 1))
                require(rep, okD, "%s (%s): deg(low) > deg(high): zero quotient, the step only swaps the pairs" % (tag, path), path, rp)

    # prologue and epilogue
    def fn_io(R):
        a = [R.atom("a%d" % i) for i in range(d)]
        with world.patched(M, prime_field_inv=inv_stub_ring):
            cut = loopcut.cut(K.inv, rewriter=lambda m_: world._Rewriter().visit(m_))
            x = K(a)
            kind, st = cut["init"](x)
            c0 = R.atom("c0")
            R.declare_nonzero(c0)
            lm = [wrap(R, R.atom("lm%d" % i)) for i in range(d)] + [0]
            res = cut["tail"](**{"self": x, "lm": lm, "hm": [0] * (d + 1), "low": [wrap(R, c0)] + [0] * d, "high": [0] * (d + 1)})
        return a, st, lm, c0, res
    for pth, R in ring.run_paths(fn_io, lambda: Ring(p, policy=lambda live: "generic")):
        rep.paths += 1
        if pth.kind != "ret":
            rep.fail("%s prologue/epilogue raised %r" % (tag, pth.value), rp)
            continue
        a, st, lm, c0, res = pth.value
        mc = list(K.FQ2_MODULUS_COEFFS if d == 2 else K.FQ12_MODULUS_COEFFS)
        v = lambda x: R.lift(x.n if hasattr(x, "n") else x)
        ok = ([int(v(x).comp.get(0, z3.IntVal(0)).as_long()) if not isinstance(x, Res) else None for x in []] == [])
        ok &= all(R.prove_equal(v(x), y) == "zero" for x, y in zip(st["lm"], [1] + [0] * d))
        ok &= all(R.prove_equal(v(x), 0) == "zero" for x in st["hm"])
        ok &= all(R.prove_equal(v(x), y) == "zero" for x, y in zip(st["low"], a + [0]))
        ok &= all(R.prove_equal(v(x), y) == "zero" for x, y in zip(st["high"], mc + [1]))
        require(rep, ok, "%s: prologue establishes lm = 1, hm = 0, low = x, high = modulus polynomial (Bezout invariant and J hold)" % tag, None, rp)
        okE = all(R.prove_equal(R.lift(c) * c0, v(l)) == "zero" for c, l in zip(cf(res), lm[:d]))
        require(rep, okE and type(res) is K, "%s: at exit the result is lm / low[0] (so result * x == 1 by the invariant lm*x == low[0])" % tag, None, rp)
    rep.trust("Bezout bookkeeping: nm = hm - lm*r and new = high - low*r preserve lm*x == low, hm*x == high (mod f) for ANY polynomial r; "
              "gcd(x, f) = 1 for x != 0 and f irreducible, so the last non-zero remainder is a non-zero constant; termination of the remainder sequence")


def _mk_inv_loop(impl, curve, deg_):
    def f(rep, tier):
        d = deg_
        if d == 2:
            pats = [(dl, dh) for dl in (1, 2) for dh in (1, 2)]
        elif tier == "quick":
            pats = [(dl, 12) for dl in range(1, 13)] + [(dl, dl + 1) for dl in range(1, 12)] + [(5, 3), (11, 6), (3, 9), (2, 7)]
            pats = sorted(set(pats))
        else:
            pats = [(dl, dh) for dl in range(1, 13) for dh in range(1, 13)]
        for i, c, K, M in fqp_classes(d):
            if i == impl and c == curve:
                _check_fqp_inv_loop(rep, i, c, d, K, M, pats)
    return f


for _impl in ("ref", "opt"):
    for _curve in CURVES:
        for _deg in (2, 12):
            obligation("C08", "fqp_inv_loop_step_%s_%s_fq%d" % (_impl, _curve, _deg), timeout=1500,
                       bound="one arbitrary iteration of FQP.inv's Euclid loop on DENSE symbolic polynomials at the real prime, for degree patterns (deg low, deg high): "
                             "all 4 (FQ2); 26 patterns (quick) / all 144 (thorough) for FQ12; unbounded number of iterations by induction")(
                _mk_inv_loop(_impl, _curve, _deg))



@obligation("C08", "fq12_subclass_symbolic_modulus", bound="FQ12 (reference and optimized) SUBCLASSED with a modulus polynomial whose coefficients are symbolic on the index sets {0,6,11}, {1,5,10}, {2,3,4}, {7,8,9} (others 0), bn128 prime: product vs schoolbook model, one neutral")
def fq12_symbolic_modulus(rep, tier):
    f = mod(FIELDS)
    p = f.bn128_FQ.field_modulus
    refM, optM = mod("py_ecc.fields.field_elements"), mod("py_ecc.fields.optimized_field_elements")
    rep.encoded(refM.FQ12.__init__, optM.FQ12.__init__, refM.FQP.__mul__, optM.FQP.__mul__)
    rp = {"kind": "c08_fqp_adhoc", "args": {"deg": 12}}
    for idxs in ((0, 6, 11), (1, 5, 10), (2, 3, 4), (7, 8, 9)):
        for impl, M in (("ref", refM), ("opt", optM)):
            def fn(R, M=M, idxs=idxs):
                mc = tuple(R.atom("m%d" % i) if i in idxs else 0 for i in range(12))

                class T(M.FQ12):
                    field_modulus = p
                    FQ12_MODULUS_COEFFS = mc
                a, b = _atoms(R, "a", 12), _atoms(R, "b", 12)
                x, y = T(a), T(b)
                return mc, a, b, cf(x * y), cf(x * T.one())
            for pth, R in ring.run_paths(fn, lambda: Ring(p, policy=lambda live: "generic")):
                rep.paths += 1
                path = lits_summary(R)
                if pth.kind != "ret":
                    rep.fail("%s FQ12 subclass with symbolic modulus coefficients %s raised %r" % (impl, idxs, pth.value), rp)
                    continue
                mc, a, b, prod, one = pth.value
                _eq_coeffs(rep, R, prod, spec_mul(a, b, list(mc)), "%s FQ12 subclass, modulus coefficients %s symbolic: product = schoolbook product reduced by the modulus" % (impl, idxs), rp, path)
                _eq_coeffs(rep, R, one, a, "%s FQ12 subclass, modulus coefficients %s symbolic: x * one = x" % (impl, idxs), rp, path)
