"""C19 -- ECDSA recovery returns the algebraically determined key or refuses.
C06 -- sign-then-recover (obligations registered at the bottom; same model).

The real ecdsa_raw_recover / ecdsa_raw_sign run on exact symbolic integers.  The 254-bit square-root
exponentiation is replaced by its contract (Euler; trusted), inv by the inv0 contract (C18), and the Jacobian
scalar multiplications by a two-generator exponent model: a point is a*G + b*R with exact integer pairs
(a, b) (polynomials with opaque monomials), R = LIFT(x, parity) the curve point with abscissa x and the
recorded parity.  What the Jacobian functions do with coordinates is C13/C18.
"""
import z3
from symx import core, world, ring
world.install()
from symx.core import SymZ, SymBool
from symx.blsmodel import Poly
from symx.sbytes import SymBytes, SEQ
from symx import sbytes
from symx.ring import Ring, Res
from symx.harness import obligation
from .common import mod, require, control, lits_summary

SP = "py_ecc.secp256k1.secp256k1"


class EP:
    """a*G + b*R in the exponent model; (a, b) are Poly."""

    def __init__(self, a, b, tag=None):
        self.a, self.b = Poly.lift(a), Poly.lift(b)
        self.tag = tag


class Model:
    def __init__(self, sp):
        self.sp = sp
        self.N, self.P = sp.N, sp.P
        self.lifted = None        # (x term, y SymZ) of the point handed to jacobian_multiply as R
        self.inv_calls = []
        self.mults = []

    def jmul(self, a, n):
        n = SymZ.lift(n)
        if isinstance(a, tuple):
            x, y, z = a
            if isinstance(x, int) and x == self.sp.Gx and y == self.sp.Gy and z == 1:
                a = EP(1, 0, "G")
            else:
                if self.lifted is not None:
                    raise core.Unsupported("second lifted point")
                self.lifted = (SymZ.lift(x), SymZ.lift(y), z)
                a = EP(0, 1, "R")
        self.mults.append((a.tag, n))
        return EP(a.a * Poly.lift(n.t), a.b * Poly.lift(n.t))

    def jadd(self, p, q):
        return EP(p.a + q.a, p.b + q.b)

    def inv(self, a, n):
        ctx = core.cur()
        a = SymZ.lift(a)
        v = SymZ.var(ctx.fresh_name("inv"), 0, n - 1)
        ctx.add_fact((v.t == 0) == ((a.t % n) == 0))
        self.inv_calls.append((a, n, v))
        return v

    def from_jacobian(self, p):
        return ("AFFINE", p)


def sqrt_hook(P):
    def hook(b, e, m):
        if m == P and e == (P + 1) // 4:
            ctx = core.cur()
            t = SymZ.lift(b)
            y = SymZ.var(ctx.fresh_name("beta"), 0, P - 1)
            yy = (y * y) % P
            ctx.add_fact(z3.Or(yy.t == (t.t % P), yy.t == ((P - (t.t % P)) % P)))
            # lemma instances: x^3 + 7 has no root mod P (the group has odd prime order: no 2-torsion), so t != 0 and beta != 0;
            # (P - beta)^2 == beta^2
            ctx.add_fact((t.t % P) != 0)
            ctx.add_fact(y.t != 0)
            ny = P - y
            ctx.add_fact(((ny * ny) % P).t == yy.t)
            ctx.notes.append(("sqrt", t.t, y.t))
            return y
        return None
    return hook


@obligation("C19", "recover_all_inputs", timeout=900,
            bound="every v (any integer), every r in [0, P), every s >= 0 (unbounded), every hash of 0..64 bytes (as the integer z it encodes); QF_UFLIA with opaque monomials; modular square root and inv replaced by their contracts")
def recover_all(rep, tier):
    sp = mod(SP)
    N, P = sp.N, sp.P
    rep.encoded(sp.ecdsa_raw_recover)
    rep.stub("pow(t, (P+1)//4, P) -> beta with beta^2 == +-t (Euler; trusted); inv(r, N) -> inv0 contract (C18); jacobian_multiply/add/from_jacobian -> two-generator exponent model")
    rep.trust("x^3 + 7 == 0 has no root mod P (the curve has odd prime order N: no 2-torsion)")
    rp = {"kind": "c19_recover", "args": {}}
    seen = {"raise": 0, "ok": 0}

    def run(ctx):
        ctx.pow_hook = sqrt_hook(P)
        M = Model(sp)
        v = SymZ.var("v")
        r = SymZ.var("r", 0, P - 1)
        s = SymZ.var("s", 0, None)
        z = SymZ.var("z", 0, None)
        with world.patched(sp, jacobian_multiply=M.jmul, jacobian_add=M.jadd, inv=M.inv, from_jacobian=M.from_jacobian, bytes_to_int=lambda h: z):
            try:
                q = sp.ecdsa_raw_recover(b"hash", (v, r, s))
            except ValueError as e:
                return M, v, r, s, z, ("ValueError", str(e)[:40])
        return M, v, r, s, z, ("ok", q)

    def on_path(pth):
        rep.paths += 1
        mv = lambda m: {"kind": "c19_recover", "args": {k: str(m.eval(t, model_completion=True)) for k, t in (("v", z3.Int("v")), ("r", z3.Int("r")), ("s", z3.Int("s")), ("z", z3.Int("z")))} if m is not None else {}}
        if pth.kind != "ret":
            g, m = pth.ctx.satisfiable()
            rep.fail("ecdsa_raw_recover raised %r (only ValueError allowed)" % (pth.value,), mv(m))
            return
        M, v, r, s, z, (kind, val) = pth.value
        sq = [n for n in pth.ctx.notes if n[0] == "sqrt"]
        vbad = z3.And(v.t != 27, v.t != 28)
        rs_bad = z3.Or(r.t % N == 0, s.t % N == 0)
        if kind == "ValueError":
            seen["raise"] += 1
            if sq:
                t, beta = sq[-1][1], sq[-1][2]
                nonres = (core.mul_uf()(beta, beta) % P) != (t % P)
                goal = z3.Or(vbad, rs_bad, nonres)
            else:
                goal = vbad
            g, m = pth.ctx.prove(goal)
            require(rep, g, "ecdsa_raw_recover raises ValueError only for v not in {27, 28}, r or s == 0 (mod N), or r^3 + 7 a non-residue", pth.decisions, mv(m))
            return
        seen["ok"] += 1
        g, m = pth.ctx.prove(z3.Not(z3.Or(vbad, rs_bad)))
        require(rep, g, "a key is returned only for v in {27, 28} and r, s != 0 (mod N)", pth.decisions, mv(m))
        if M.lifted is None:
            rep.fail("recover returned without lifting r to a curve point", rp)
            return
        lx, ly, lz = M.lifted
        t, beta = sq[-1][1], sq[-1][2]
        goals = [("lifted point has abscissa r and z = 1", z3.And(lx.t == r.t, z3.BoolVal(lz == 1))),
                 ("lifted y is a root: y^2 == r^3 + 7 (mod P)", (core.mul_uf()(ly.t, ly.t) % P) == (t % P)),
                 ("r^3 + 7 is what was rooted", (t % P) == ((SymZ(r.t) * SymZ(r.t) * SymZ(r.t)).t + 7) % P),
                 ("lifted y has parity v - 27 (even for 27, odd for 28) -- never the other root", ly.t % 2 == v.t - 27),
                 ("lifted y is canonical", z3.And(ly.t > 0, ly.t < P))]
        for w, gl in goals:
            g, m = pth.ctx.prove(gl)
            require(rep, g, "recover: " + w, pth.decisions, mv(m))
        # algebra: returned Q = ri * ((N - z) % N * G + s * R), with (r % N) * ri == 1 (mod N)
        if not (isinstance(val, tuple) and val[0] == "AFFINE" and isinstance(val[1], EP)):
            rep.fail("recover does not return from_jacobian of the computed point", rp)
            return
        Q = val[1]
        a_inv, n_inv, ri = M.inv_calls[-1]
        g, m = pth.ctx.prove(z3.And(a_inv.t == r.t, z3.BoolVal(n_inv == N)))
        require(rep, g, "recover inverts r modulo N", pth.decisions, mv(m))
        # ring-axiom instances of the inv contract (r*ri == 1 mod N) multiplied by the other factors
        rP, riP = Poly.lift(r.t), Poly.lift(ri.t)
        zg = ((N - z) % N)
        facts = [(rP * riP).z3() % N == 1]
        for X in (Poly.lift(zg.t), Poly.lift(s.t)):
            facts.append(((rP * riP * X).z3() - X.z3()) % N == 0)
        # contract of inv0 for r != 0 mod N on this path
        for f_ in facts:
            pth.ctx.add_fact(f_)
        g1, m = pth.ctx.prove(((rP * Q.a).z3() - Poly.lift(zg.t).z3()) % N == 0)
        g2, m2 = pth.ctx.prove(((rP * Q.b).z3() - s.t) % N == 0)
        require(rep, g1, "recover: (r mod N) * Q has G-component -z (mod N)", pth.decisions, mv(m))
        require(rep, g2, "recover: (r mod N) * Q has R-component s (mod N)  =>  (r mod N)*Q = s*R - z*G", pth.decisions, mv(m2))
        g, m = pth.ctx.prove((zg.t + z.t) % N == 0)
        require(rep, g, "recover: the G scalar is -z mod N", pth.decisions, mv(m))
    core.explore(run, on_path=on_path, ctx_kwargs=dict(mul="uf"))
    require(rep, seen["raise"] >= 2 and seen["ok"] >= 2, "recover: refusing and returning paths reachable (%s)" % seen, None, rp)
    rep.note("for the returned Q the ECDSA verification equation holds: u1*G + u2*Q with u1 = z/s, u2 = r/s equals R (ring identity, checked in ecdsa_verification_identity)")


@obligation("C19", "ecdsa_verification_identity", bound="identity in Z/N[z, r, s, rho] with r, s units")
def verification_identity(rep, tier):
    """for Q = r^-1 (s*R - z*G):  (z/s)*G + (r/s)*Q = R   (exponent model, R = rho*G)."""
    sp = mod(SP)
    N = sp.N
    rp = {"kind": "c19_recover", "args": {}}
    with core.Ctx() as ctx:
        R = Ring(N)
        ctx.ring = R
        z, r, s, rho = R.atom("z"), R.atom("r"), R.atom("s"), R.atom("rho")
        R.declare_nonzero(r)
        R.declare_nonzero(s)
        Q = (s * rho - z) * r._inverse()
        lhs = z * s._inverse() + r * s._inverse() * Q
        require(rep, R.prove_equal(lhs, rho), "signature (r, s) verifies for the recovered key: u1*G + u2*Q = R", None, rp)
        control(rep, R.prove_equal(lhs, rho + 1), "u1*G + u2*Q = R + G")


# ---------------------------------------------------------------------------
# C06

def HM():
    return sbytes._uf("HMAC_sha256", SEQ, SEQ, SEQ)


@obligation("C06", "rfc6979_nonce", bound="32-byte key, hash of every length 0..64 (quick: 0, 31, 32, 33, 64), contents symbolic; HMAC-SHA256 uninterpreted")
def rfc6979(rep, tier):
    sp = mod(SP)
    from .c15 import cat, lit
    rep.encoded(sp.deterministic_generate_k, sp.bytes_to_int)
    rep.stub("hmac.new(k, m, sha256).digest() -> HMAC_sha256(k, m) uninterpreted (32 bytes)")
    rp = {"kind": "c06_nonce", "args": {}}
    lens = (0, 31, 32, 33, 64) if tier == "quick" else range(0, 65)
    for L in lens:
        def run(ctx, L=L):
            ctx.hash_uf = True
            ctx.exact_os2ip = 64
            priv = SymBytes.var("priv", length=32)
            h = SymBytes.var("hash", length=L)
            return priv, h, sp.deterministic_generate_k(h, priv)

        def on_path(pth, L=L):
            rep.paths += 1
            if pth.kind != "ret":
                rep.fail("deterministic_generate_k raised %r" % (pth.value,), rp)
                return
            priv, h, k = pth.value
            # RFC 6979 3.2 b-h over x = priv, h1 = hash
            V = lit(b"\x01" * 32)
            K = lit(b"\x00" * 32)
            K = HM()(K, cat(V, lit(b"\x00"), priv.t, h.t))
            V = HM()(K, V)
            K = HM()(K, cat(V, lit(b"\x01"), priv.t, h.t))
            V = HM()(K, V)
            T = HM()(K, V)
            want = z3.IntVal(0)
            for i in range(32):
                want = want * 256 + z3.BV2Int(T[z3.IntVal(i)], False)
            g, m = pth.ctx.prove(SymZ.lift(k).t == want, timeout_ms=120000)
            require(rep, g, "deterministic_generate_k = bits2int of the RFC 6979 3.2 HMAC-DRBG output over (key || hash), |hash| = %d" % L, pth.decisions, rp)
        core.explore(run, on_path=on_path, ctx_kwargs=dict(branch_timeout_ms=60000))


@obligation("C06", "sign_outputs_and_low_s", timeout=900,
            bound="every 32-byte key with integer d in [1, N-1], every hash byte string of length 0..80 with z = OS2IP(whole string), every nonce k (value of the uninterpreted DRBG), every point (x_k, y_k) = k*G in [0,P)^2; QF_UFLIA")
def sign_outputs(rep, tier):
    sp = mod(SP)
    N, P = sp.N, sp.P
    rep.encoded(sp.ecdsa_raw_sign)
    rep.stub("deterministic_generate_k -> symbolic k; multiply(G, k) -> symbolic (x_k, y_k) in [0,P)^2; inv(k, N) -> inv0 contract")
    rp = {"kind": "c06_sign", "args": {}}
    rep.assume("probability ~2^-128 events are outside the claim (no witness can be built without a discrete log): x_k >= N, r == 0 (mod N), s == 0, k == 0 (mod N)")

    def run(ctx):
        M = Model(sp)
        # message hash: a byte string of ANY length 0..80; key: 32 bytes; their integers are OS2IP of the WHOLE strings
        OS2IP = sbytes._uf("OS2IP", SEQ, z3.IntSort())
        hb = SymBytes.var("hash", 0, 80)
        pb = SymBytes.var("priv", length=32)
        d = SymZ(OS2IP(pb.t))
        z = SymZ(OS2IP(hb.t))
        ctx.assume(z3.And(d.t >= 1, d.t <= N - 1))
        ctx.add_fact(z.t >= 0)
        k = SymZ.var("k", 0, 2 ** 256 - 1)
        xk = SymZ.var("xk", 0, P - 1)
        yk = SymZ.var("yk", 0, P - 1)
        dgk = []

        def b2i(b):
            t = SymBytes.lift(b).t
            ctx.add_fact(OS2IP(t) >= 0)
            return SymZ(OS2IP(t))
        with world.patched(sp, deterministic_generate_k=lambda h, p: dgk.append((h, p)) or k, multiply=lambda g, kk: (xk, yk), inv=M.inv,
                           bytes_to_int=b2i):
            v, r, s = sp.ecdsa_raw_sign(hb, pb)
        M.dgk = dgk
        M.hb, M.pb = hb, pb
        return M, d, z, k, xk, yk, v, r, s

    def on_path(pth):
        rep.paths += 1
        if pth.kind != "ret":
            rep.fail("ecdsa_raw_sign raised %r" % (pth.value,), rp)
            return
        M, d, z, k, xk, yk, v, r, s = pth.value
        v, r, s = SymZ.lift(v), SymZ.lift(r), SymZ.lift(s)
        a_inv, n_inv, ki = M.inv_calls[-1]
        s0 = (ki * (z + r * d)) % N            # the value before the low-s normalisation, built like the code builds it
        flipped = z3.Not(s0.t * 2 < N)
        nonce_ok = len(M.dgk) == 1 and isinstance(M.dgk[0][0], SymBytes) and isinstance(M.dgk[0][1], SymBytes)
        goals = [("the nonce is derived from the whole hash and the whole key (deterministic_generate_k(msghash, priv), once)",
                  z3.And(M.dgk[0][0].t == M.hb.t, M.dgk[0][1].t == M.pb.t) if nonce_ok else z3.BoolVal(False)),
                 ("inv is taken of k modulo N", z3.And(a_inv.t == k.t, z3.BoolVal(n_inv == N))),
                 ("r is the abscissa of k*G", r.t == xk.t),
                 ("v in {27, 28}", z3.Or(v.t == 27, v.t == 28)),
                 ("s = s0 or N - s0 with s0 = k^-1 (z + r d) mod N", z3.If(flipped, s.t == N - s0.t, s.t == s0.t)),
                 ("low-s: 2 s <= N  (s <= N/2)", s.t * 2 <= N),
                 ("s >= 1 unless s0 = 0", z3.Implies(s0.t != 0, s.t >= 1)),
                 ("v - 27 = parity(y_k) xor flipped", v.t - 27 == z3.If(flipped, 1 - (yk.t % 2), yk.t % 2))]
        for w, gl in goals:
            g, m = pth.ctx.prove(gl)
            require(rep, g, "ecdsa_raw_sign: " + w, pth.decisions, rp)
    core.explore(run, on_path=on_path, ctx_kwargs=dict(mul="uf"))


@obligation("C06", "sign_then_recover_algebra", bound="identities in Z/N[k, z, r, d] with k, r units: both the unflipped and the low-s-flipped signature recover d*G; the other v recovers a different key unless s = 0")
def sign_recover_algebra(rep, tier):
    sp = mod(SP)
    N = sp.N
    rp = {"kind": "c06_sign", "args": {}}
    with core.Ctx() as ctx:
        R = Ring(N)
        ctx.ring = R
        k, z, r, d = R.atom("k"), R.atom("z"), R.atom("r"), R.atom("d")
        R.declare_nonzero(k)
        R.declare_nonzero(r)
        s0 = (z + r * d) * k._inverse()
        # recovery (C19): Q = r^-1 (s * R - z * G); R = +k*G when v keeps the parity of y_k, R = -k*G for the flipped v
        Q_plain = (s0 * k - z) * r._inverse()
        Q_flip = ((-s0) * (-k) - z) * r._inverse()
        require(rep, R.prove_equal(Q_plain, d), "recover(sign) with s = s0, R = k*G returns d*G", None, rp)
        require(rep, R.prove_equal(Q_flip, d), "recover(sign) with s = N - s0, R = -k*G (v flipped with s) returns d*G", None, rp)
        Q_other = (s0 * (-k) - z) * r._inverse()
        # Q_other == d  <=>  2 (z + r d) == 0  <=>  s0 == 0
        require(rep, R.prove_equal((Q_other - d) * r, -(s0 * k) * 2), "the other v recovers d*G - 2 s0 k / r * G: different unless s0 = 0 (N odd)", None, rp)
        control(rep, R.prove_equal(Q_other, d), "other v recovers the same key")
