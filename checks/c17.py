"""C17 -- subgroup membership test is exact; cofactor clearing uses the RFC 9380 effective cofactors."""
import z3
from symx import core, world
world.install()
from symx.core import SymZ, SymBool
from symx.harness import obligation
from .common import mod, require, control
from .c07 import BLS_X, PINNED

G2P = "py_ecc.bls.g2_primitives"
CC = "py_ecc.optimized_bls12_381.optimized_clear_cofactor"

# RFC 9380 8.8.1 / 8.8.2 (literals pinned in the harness)
H_EFF_G1 = 0xd201000000010001
H_EFF_G2 = 0xbc69f08f2ee75b3584c6a0ea91b352888e2a8e9145ad7689986ff031508ffe1329c2f178731db956d82bf015d1212b02ec0ec69d7477c1ae954cbc06689f6a359894c0adebbf6b4e8020005aaa95551


class TP:
    """point of Z_r x T (T the cofactor torsion group, order coprime to r): exponent k and torsion tag t (0 iff trivial)."""

    def __init__(self, k, t):
        self.k, self.t = SymZ.lift(k), SymZ.lift(t)


@obligation("C17", "subgroup_check_exact", bound="every point (k, tau) of E = Z_r x T in the exponent/torsion model, any representative; the constant used is r; multiply and is_inf replaced by their contracts (C07 multiply_every_scalar, C13 is_inf)")
def subgroup_check(rep, tier):
    g = mod(G2P)
    o = mod("py_ecc.optimized_bls12_381")
    r = PINNED["bls12_381"]["r"]
    rep.encoded(g.subgroup_check)
    rp = {"kind": "c17_subgroup", "args": {}}
    require(rep, g.curve_order == r and o.curve_order == r, "subgroup_check uses the BLS12-381 subgroup order r", None, rp)
    rep.trust("E(F_p) = Z_r x T1 and E'(F_p^2) = Z_r x T2 with |T1| = h1, |T2| = h2 coprime to r (point counting): r*tau = 0 iff tau = 0 on the torsion part")
    seen = set()

    def run(ctx):
        k = SymZ.var("k")
        t = SymZ.var("t")
        calls = []

        def mul(P, n):
            calls.append((P, n))
            n = SymZ.lift(n)
            # contract of multiply: n*(k, tau) = (n*k, n*tau)
            nt = SymZ.var(ctx.fresh_name("ntau"))
            # lemma instance (gcd(r, |T|) = 1): n*tau = 0 iff tau = 0 for n = r
            ctx.add_fact((nt.t == 0) == (P.t.t == 0))
            return TP(P.k * n, nt)

        def is_inf(P):
            return SymBool(z3.And(P.k.t % r == 0, P.t.t == 0))
        with world.patched(g, multiply=mul, is_inf=is_inf):
            res = g.subgroup_check(TP(k, t))
            resb = bool(res)
        return k, t, resb, calls

    def on_path(pth):
        rep.paths += 1
        if pth.kind != "ret":
            rep.fail("subgroup_check raised %r" % (pth.value,), rp)
            return
        k, t, resb, calls = pth.value
        seen.add(resb)
        require(rep, len(calls) == 1 and calls[0][1] == r, "subgroup_check multiplies the point by r exactly once", pth.decisions, rp)
        g_, m = pth.ctx.prove((t.t == 0) if resb else (t.t != 0))
        require(rep, g_, "subgroup_check is %s exactly for points with %s cofactor component (identity and every multiple of the generator included)" % (resb, "trivial" if resb else "non-trivial"),
                pth.decisions, rp)
    core.explore(run, on_path=on_path)
    require(rep, seen == {True, False}, "subgroup_check answers both ways", None, rp)


@obligation("C17", "cofactor_clearing_constants", bound="ground: effective cofactors and cofactors re-derived from the curve parameter x = -0xd201000000010000; clearing = multiplication by them (call trace)")
def clearing(rep, tier):
    cc = mod(CC)
    cst = mod("py_ecc.optimized_bls12_381.constants")
    bc = mod("py_ecc.bls.constants")
    h2c = mod("py_ecc.bls.hash_to_curve")
    rep.encoded(cc.multiply_clear_cofactor_G1, cc.multiply_clear_cofactor_G2, h2c.clear_cofactor_G1, h2c.clear_cofactor_G2)
    rp = {"kind": "c17_clear", "args": {}}
    x = BLS_X
    p, r = PINNED["bls12_381"]["p"], PINNED["bls12_381"]["r"]
    h1 = (x - 1) ** 2 // 3
    h2 = (x ** 8 - 4 * x ** 7 + 5 * x ** 6 - 4 * x ** 4 + 6 * x ** 3 - 4 * x ** 2 - 4 * x + 13) // 9
    require(rep, (x - 1) ** 2 % 3 == 0 and h1 * r == p + 1 - (x + 1), "ground: #E(F_p) = p + 1 - t = h1 * r with t = x + 1, h1 = (x-1)^2/3", None, rp)
    require(rep, bc.G2_COFACTOR == h2, "G2_COFACTOR = (x^8 - 4x^7 + 5x^6 - 4x^4 + 6x^3 - 4x^2 - 4x + 13)/9", None, rp)
    require(rep, cst.H_EFF_G1 == H_EFF_G1 == 1 - x, "H_EFF_G1 = 1 - x = 0xd201000000010001 (RFC 9380 8.8.1)", None, rp)
    require(rep, cst.H_EFF_G2 == H_EFF_G2 == h2 * (3 * x ** 2 - 3), "H_EFF_G2 = h2 * (3x^2 - 3) = the RFC 9380 8.8.2 literal", None, rp)
    require(rep, h1 % 2 == 1 and h2 % 2 == 1 and __import__("math").gcd(h1, r) == 1 and __import__("math").gcd(h2, r) == 1, "ground: cofactors odd and coprime to r", None, rp)
    log = []
    class Opaque:
        """an arbitrary point: the clearing functions may only hand it to multiply."""
        def __init__(self, nm):
            self.nm = nm
    PP, QQ = Opaque("P"), Opaque("Q")
    a = b = None
    try:
        with world.patched(cc, multiply=lambda pt, n: log.append((pt, n)) or ("MUL", pt, n)):
            a = cc.multiply_clear_cofactor_G1(PP)
            b = cc.multiply_clear_cofactor_G2(QQ)
    except Exception as e:
        rep.note("call trace of the clearing functions on an opaque point raised %r" % (e,))
    if a == ("MUL", PP, H_EFF_G1) and b == ("MUL", QQ, H_EFF_G2) and len(log) == 2:
        rep.ok("cofactor clearing is exactly one multiply(P, h_eff) for G1 and G2 and never inspects the point (call trace on an opaque point)")
    else:
        rep.note("the clearing functions are not a single multiply(P, h_eff) on an opaque point; the exponent/torsion model below decides")
    r = PINNED["bls12_381"]["r"]
    for nm, fn_name, heff in (("G1", "multiply_clear_cofactor_G1", H_EFF_G1), ("G2", "multiply_clear_cofactor_G2", H_EFF_G2)):
        def run(ctx, fn_name=fn_name, heff=heff):
            k, t = SymZ.var("k"), SymZ.var("t")

            def mul(P, n):
                n = SymZ.lift(n)
                if not isinstance(P, TP) or n is None or not n._is_const():
                    raise core.Unsupported("model multiply(%r, %r)" % (P, n))
                nv = n._cval()
                nt = SymZ.var(ctx.fresh_name("ntau"))
                ctx.add_fact(z3.Implies(P.t.t == 0, nt.t == 0))
                if nv % r == 0 and nv != 0:
                    ctx.add_fact((nt.t == 0) == (P.t.t == 0))       # gcd(r, |T|) = 1
                if nv % heff == 0:
                    ctx.add_fact(nt.t == 0)                           # h_eff annihilates the cofactor torsion (trusted)
                if nv % r == 1:
                    ctx.add_fact((nt.t == P.t.t))
                return TP(P.k * nv, nt)

            def is_inf(P):
                return SymBool(z3.And(P.k.t % r == 0, P.t.t == 0))

            def unsupported(*a, **kw):
                raise core.Unsupported("point operation other than multiply / is_inf inside cofactor clearing is not modelled")
            names = dict(multiply=mul, is_inf=is_inf)
            for extra in ("add", "double", "neg", "eq", "normalize", "is_on_curve"):
                if extra in cc.__dict__:
                    names[extra] = unsupported
            with world.patched(cc, **names):
                out = getattr(cc, fn_name)(TP(k, t))
            return k, t, out

        def on_path(pth, nm=nm, heff=heff):
            rep.paths += 1
            if pth.kind != "ret":
                g_, mm = pth.ctx.satisfiable()
                if g_ != "unsat":
                    rep.fail("%s cofactor clearing raised %r" % (nm, pth.value), rp)
                return
            k, t, out = pth.value
            if not isinstance(out, TP):
                rep.fail("%s cofactor clearing returned %r" % (nm, out), rp)
                return
            g_, mm = pth.ctx.prove(z3.And((out.k.t - heff * k.t) % r == 0, out.t.t == 0))
            require(rep, g_, "%s cofactor clearing of EVERY point (k, tau) is h_eff * (k, tau): exponent h_eff*k mod r, trivial cofactor component" % nm, pth.decisions, rp)
        core.explore(run, on_path=on_path)
    with world.patched(h2c, multiply_clear_cofactor_G1=lambda q: ("C1", q), multiply_clear_cofactor_G2=lambda q: ("C2", q)):
        require(rep, h2c.clear_cofactor_G1("A") == ("C1", "A") and h2c.clear_cofactor_G2("B") == ("C2", "B"), "hash_to_curve's clear_cofactor_* delegate to the multiplications", None, rp)
    rep.trust("the cofactor torsion of E(F_p) has exponent dividing 1 - x and h_eff(G2) is a multiple of h2 acting as in RFC 9380 8.8.2 (Budroni-Pintore): clearing lands in the prime-order subgroup")
    # concrete anchors (ground, real arithmetic): a point of order 3 and a random non-subgroup point
    o = mod("py_ecc.optimized_bls12_381")
    g = mod(G2P)
    T3 = (o.FQ(0), o.FQ(2), o.FQ(1))
    require(rep, o.is_on_curve(T3, o.b) and not g.subgroup_check(T3) and o.is_inf(o.multiply(T3, 3)), "ground: (0, 2) is an on-curve point of order 3 and is rejected by subgroup_check", None, rp)
    require(rep, g.subgroup_check(o.G1) and g.subgroup_check(o.G2) and g.subgroup_check(o.Z1) and g.subgroup_check(o.Z2) and g.subgroup_check(o.multiply(o.G2, 12345)),
            "ground: generators, a multiple and the identity are accepted", None, rp)
    require(rep, o.is_inf(cc.multiply_clear_cofactor_G1(T3)) or g.subgroup_check(cc.multiply_clear_cofactor_G1(T3)), "ground: clearing maps the order-3 point into the subgroup", None, rp)
