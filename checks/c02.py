"""C02 -- see checks/bls_proto.py; plus the decoder contract the uniqueness argument consumes (owned by C11)."""
from symx.harness import obligation
from . import bls_proto  # noqa: F401
from . import c11 as _c11

# one signature per (key, message) needs the decoders to be functions of a canonical encoding: two different byte strings must
# never decode to the same point.  The protocol obligations use the ideal codec; these tie the real decoders to it.
obligation("C02", "codec_contract_decompress_G2", timeout=900,
           bound="every pair of 384-bit words: accepted only in canonical form, re-encoding gives the same words (the C11 obligation)")(_c11.decompress_g2_all_words)
obligation("C02", "codec_contract_byte_decoders",
           bound="every 48- / 96-byte string: the byte helpers hand exactly the big-endian words to the word decoders (the C11 obligation)")(_c11.byte_decoders)
