"""C13 -- projective / Jacobian formulas equal the affine law on every control path.

The real functions are executed on abstract field elements (symx.ring.Res atoms over Z, so
every identity holds in any commutative ring in which the cancelled constants 2, 3 are
units: "characteristic > 3").  Every branch the code takes is a recorded polynomial
literal; the harness (a) matches each literal with a predicate of the affine case analysis
(case-predicate match), (b) compares the result on that path with the textbook law for that
case as a cross-multiplied polynomial identity, (c) checks that the returned z is a product
of literals known non-zero (so the result is a valid representative), resp. identically 0
for identity results.  Inputs are arbitrary triples, hence arbitrary representatives.
"""
import z3
from symx import core, ring
from symx.ring import Ring, Res
from symx.harness import obligation
from .common import (aff_double, aff_add_generic, aff_neg, aff_line, proj_to_aff, jac_to_aff, rdiv,
                     lits_summary, mod, require, control)

CURVES = {"bn128": "py_ecc.optimized_bn128.optimized_curve",
          "bls12_381": "py_ecc.optimized_bls12_381.optimized_curve"}
PAIRINGS = {"bn128": "py_ecc.optimized_bn128.optimized_pairing",
            "bls12_381": "py_ecc.optimized_bls12_381.optimized_pairing"}


def _pt(R, s):
    return (R.atom("x" + s), R.atom("y" + s), R.atom("z" + s))


def _match(R, lit_comps, specs):
    """which spec predicate (name -> Res numerator polynomial) does this literal equal (up to sign)?"""
    if len(lit_comps) != 1:
        return None
    lit = Res({0: lit_comps[0]}, z3.IntVal(1), R)
    for name, sp in specs.items():
        if R.prove_equal(lit, sp) == "zero" or R.prove_equal(lit, -sp) == "zero":
            return name
    return None


def _classify(R, specs):
    """assignment name -> 'zero'/'nonzero' from the path's literals; unmatched literals listed."""
    asg, unmatched = {}, []
    for comps, is_zero, origin in R.lits:
        if origin == "assumed":
            continue
        n = _match(R, comps, specs)
        if n is None:
            unmatched.append(comps)
        else:
            asg[n] = "zero" if is_zero else "nonzero"
    return asg, unmatched


def _valid_z(R, z):
    """z is (after substitution) a product of literals decided/assumed non-zero."""
    if set(z.comp) - {0}:
        return False
    t = R._apply_subst(z.comp.get(0, z3.IntVal(0)))
    return R.status(t) == "nonzero"


def _proj_eq(R, rep, res, aff, what, path, replay):
    """projective result (X,Y,Z) represents the affine point aff=(x,y)."""
    X, Y, Z = res
    ok = require(rep, R.prove_equal(X, aff[0] * Z), what + ": x-coordinate", path, replay)
    ok &= require(rep, R.prove_equal(Y, aff[1] * Z), what + ": y-coordinate", path, replay)
    ok &= require(rep, _valid_z(R, Z), what + ": z is a product of non-zero literals", path, replay)
    return ok


def _same_point(R, rep, res, op, what, path, replay):
    """res is a representative of the same projective point as operand op (identity included)."""
    ok = require(rep, R.prove_equal(res[0] * op[2], op[0] * res[2]), what + ": x cross-multiplication", path, replay)
    ok &= require(rep, R.prove_equal(res[1] * op[2], op[1] * res[2]), what + ": y cross-multiplication", path, replay)
    # z of the result vanishes exactly when the operand's does: identical up to known units
    same = R.prove_equal(res[2], op[2]) == "zero"
    ok &= require(rep, same or (_valid_z(R, res[2]) and _valid_z(R, op[2])), what + ": z matches operand", path, replay)
    return ok


def _is_identity(R, rep, res, what, path, replay):
    return require(rep, R.prove_zero(res[2]), what + ": result is an identity representative (z == 0)", path, replay)


# ---------------------------------------------------------------------------
# add

def _check_add(rep, curve):
    from . import common
    oc = mod(CURVES[curve])
    common.WITNESS_MOD[0] = oc.field_modulus
    rep.encoded(oc.add, oc.double)
    replay = {"kind": "c13_curve", "args": {"curve": curve, "func": "add"}}

    def fn(R):
        p1, p2 = _pt(R, "1"), _pt(R, "2")
        R.declare_nonzero(p1[1])     # precondition: finite points have y != 0 (odd order; no 2-torsion)
        return p1, p2, oc.add(p1, p2)

    results = ring.run_paths(fn, lambda: Ring(None))
    cases_seen = set()
    for p, R in results:
        rep.paths += 1
        path = lits_summary(R)
        if p.kind != "ret":
            rep.fail("add raised/aborted: %r" % (p.value,), replay, detail=str(path))
            continue
        p1, p2, res = p.value
        x1, y1, z1 = p1
        x2, y2, z2 = p2
        specs = {"z1": z1, "z2": z2, "dx": x2 * z1 - x1 * z2, "dy": y2 * z1 - y1 * z2}
        asg, unmatched = _classify(R, specs)
        if asg.get("z2") == "zero":
            cases_seen.add("P+O")
            _same_point(R, rep, res, p1, "add(P, O) = P", path, replay)
        elif asg.get("z1") == "zero":
            cases_seen.add("O+Q")
            _same_point(R, rep, res, p2, "add(O, Q) = Q", path, replay)
        elif asg.get("z1") == "nonzero" and asg.get("z2") == "nonzero":
            if asg.get("dx") == "nonzero":
                cases_seen.add("generic")
                aff = aff_add_generic(proj_to_aff(p1), proj_to_aff(p2))
                _proj_eq(R, rep, res, aff, "add generic = chord law", path, replay)
            elif asg.get("dx") == "zero" and asg.get("dy") == "zero":
                cases_seen.add("double")
                aff = aff_double(proj_to_aff(p1))
                _proj_eq(R, rep, res, aff, "add(P, P) = tangent law", path, replay)
            elif asg.get("dx") == "zero" and asg.get("dy") == "nonzero":
                cases_seen.add("inverse")
                _is_identity(R, rep, res, "add(P, -P) = O", path, replay)
            else:
                rep.unknown("add returns without distinguishing doubling from inverse", detail=str(path))
        else:
            rep.unknown("add returns without deciding whether an operand is the identity", detail=str(path))
    for c in ("P+O", "O+Q", "generic", "double", "inverse"):
        if c not in cases_seen:
            rep.fail("add has no control path for case %s" % c, replay)
    # negative control
    R = Ring(None)
    with core.Ctx() as ctx:
        ctx.ring = R
        p1, p2 = _pt(R, "1"), _pt(R, "2")
        aff = aff_add_generic(proj_to_aff(p1), proj_to_aff(p2))
        control(rep, R.prove_equal(aff[0] + 1, aff[0]), "x3 + 1 == x3")


@obligation("C13", "add_bn128", bound="all coordinate triples over any field of characteristic > 3 (identity over Z); finite points have y != 0")
def add_bn128(rep, tier):
    _check_add(rep, "bn128")


@obligation("C13", "add_bls12_381", bound="all coordinate triples over any field of characteristic > 3 (identity over Z); finite points have y != 0")
def add_bls12_381(rep, tier):
    _check_add(rep, "bls12_381")


# ---------------------------------------------------------------------------
# double, neg, eq, is_on_curve, normalize, is_inf

def _check_unary(rep, curve):
    from . import common
    oc = mod(CURVES[curve])
    common.WITNESS_MOD[0] = oc.field_modulus
    rep.encoded(oc.double, oc.neg, oc.eq, oc.is_on_curve, oc.normalize, oc.is_inf)
    rp = lambda f: {"kind": "c13_curve", "args": {"curve": curve, "func": f}}

    # double, finite point
    def fn_double(R):
        p = _pt(R, "1")
        R.declare_nonzero(p[1])
        R.declare_nonzero(p[2])
        return p, oc.double(p)
    for p, R in ring.run_paths(fn_double, lambda: Ring(None)):
        rep.paths += 1
        path = lits_summary(R)
        if p.kind != "ret" or len([l for l in R.lits if l[2] != "assumed"]) != 0:
            rep.fail("double: unexpected branch or exception %r" % (p.value,), rp("double"), detail=str(path))
            continue
        pt, res = p.value
        _proj_eq(R, rep, res, aff_double(proj_to_aff(pt)), "double = tangent law", path, rp("double"))

    # double(O): any representative of infinity
    def fn_double_inf(R):
        p = (R.atom("x1"), R.atom("y1"), R.const(0))
        return oc.double(p)
    for p, R in ring.run_paths(fn_double_inf, lambda: Ring(None)):
        rep.paths += 1
        if p.kind != "ret":
            rep.fail("double(O) raised %r" % (p.value,), rp("double"))
            continue
        _is_identity(R, rep, p.value, "double(O) = O for any representative (x, y, 0)", lits_summary(R), rp("double"))

    # neg
    def fn_neg(R):
        p = _pt(R, "1")
        return p, oc.neg(p)
    for p, R in ring.run_paths(fn_neg, lambda: Ring(None)):
        rep.paths += 1
        if p.kind != "ret" or R.lits:
            rep.fail("neg: unexpected branch or exception %r" % (p.value,), rp("neg"))
            continue
        pt, res = p.value
        ok = require(rep, R.prove_equal(res[0], pt[0]), "neg keeps x", None, rp("neg"))
        ok &= require(rep, R.prove_equal(res[1], -pt[1]), "neg negates y", None, rp("neg"))
        ok &= require(rep, R.prove_equal(res[2], pt[2]), "neg keeps z (identity stays identity)", None, rp("neg"))

    # eq
    def fn_eq(R):
        p1, p2 = _pt(R, "1"), _pt(R, "2")
        for c in (p1[2], p2[2]):
            R.declare_nonzero(c)
        return p1, p2, oc.eq(p1, p2)
    outcomes = set()
    for p, R in ring.run_paths(fn_eq, lambda: Ring(None)):
        rep.paths += 1
        path = lits_summary(R)
        if p.kind != "ret":
            rep.fail("eq raised %r" % (p.value,), rp("eq"), detail=str(path))
            continue
        p1, p2, res = p.value
        a1, a2 = proj_to_aff(p1), proj_to_aff(p2)
        dx, dy = a1[0] - a2[0], a1[1] - a2[1]
        # numerators of the affine differences (denominator z1*z2 is a unit)
        specs = {"dx": Res(dx.comp, z3.IntVal(1), R), "dy": Res(dy.comp, z3.IntVal(1), R)}
        asg, unmatched = _classify(R, specs)
        if asg.get("dx") == "zero" and asg.get("dy") == "zero":
            expect = True
        elif asg.get("dx") == "nonzero" or asg.get("dy") == "nonzero":
            expect = False
        else:
            rep.fail("eq returns without comparing both coordinates", rp("eq"), detail=str(path))
            continue
        outcomes.add(expect)
        require(rep, res is expect or res == expect, "eq returns %s exactly when the affine points are %s" % (expect, "equal" if expect else "different"),
                path, rp("eq"))
    if outcomes != {True, False}:
        rep.fail("eq cannot return both True and False", rp("eq"))

    # is_on_curve
    def fn_onc(R):
        p = _pt(R, "1")
        b = R.atom("b")
        return p, b, oc.is_on_curve(p, b)
    outcomes = set()
    for p, R in ring.run_paths(fn_onc, lambda: Ring(None)):
        rep.paths += 1
        path = lits_summary(R)
        if p.kind != "ret":
            rep.fail("is_on_curve raised %r" % (p.value,), rp("is_on_curve"), detail=str(path))
            continue
        pt, b, res = p.value
        x, y, z = pt
        specs = {"z": z, "curve": y * y * z - x * x * x - b * z * z * z}
        asg, unmatched = _classify(R, specs)
        if asg.get("z") == "zero":
            expect = True
        elif asg.get("z") == "nonzero" and "curve" in asg:
            expect = asg["curve"] == "zero"
        else:
            rep.fail("is_on_curve returns without testing the equation", rp("is_on_curve"), detail=str(path))
            continue
        outcomes.add((asg.get("z"), expect))
        require(rep, res == expect, "is_on_curve = %s on path" % expect, path, rp("is_on_curve"))
    if outcomes != {("zero", True), ("nonzero", True), ("nonzero", False)}:
        rep.fail("is_on_curve path set differs from {infinity, on, off}: %s" % (sorted(map(str, outcomes)),), rp("is_on_curve"))
    # the curve polynomial is z^3 * (ya^2 - xa^3 - b)
    R = Ring(None)
    with core.Ctx() as ctx:
        ctx.ring = R
        pt = _pt(R, "1")
        b = R.atom("b")
        xa, ya = proj_to_aff(pt)
        x, y, z = pt
        require(rep, R.prove_equal(y * y * z - x * x * x - b * z * z * z, (ya * ya - xa * xa * xa - b) * z * z * z),
                "projective curve polynomial = z^3 * affine curve polynomial", None, rp("is_on_curve"))

    # normalize
    def fn_norm(R):
        p = _pt(R, "1")
        R.declare_nonzero(p[2])
        return p, oc.normalize(p)
    for p, R in ring.run_paths(fn_norm, lambda: Ring(None)):
        rep.paths += 1
        if p.kind != "ret":
            rep.fail("normalize raised %r" % (p.value,), rp("normalize"))
            continue
        pt, res = p.value
        a = proj_to_aff(pt)
        require(rep, R.prove_equal(res[0], a[0]), "normalize x = x/z", None, rp("normalize"))
        require(rep, R.prove_equal(res[1], a[1]), "normalize y = y/z", None, rp("normalize"))

    # is_inf
    def fn_inf(R):
        p = _pt(R, "1")
        return p, oc.is_inf(p)
    outs = set()
    for p, R in ring.run_paths(fn_inf, lambda: Ring(None)):
        rep.paths += 1
        if p.kind != "ret":
            rep.fail("is_inf raised %r" % (p.value,), rp("is_inf"))
            continue
        pt, res = p.value
        asg, unmatched = _classify(R, {"z": pt[2]})
        if "z" not in asg:
            rep.fail("is_inf does not test z == 0", rp("is_inf"), detail=str(lits_summary(R)))
            continue
        outs.add(asg["z"])
        require(rep, res == (asg["z"] == "zero"), "is_inf is z == 0 for any (x, y)", lits_summary(R), rp("is_inf"))
    if outs != {"zero", "nonzero"}:
        rep.fail("is_inf is constant", rp("is_inf"))


@obligation("C13", "unary_bn128", bound="all coordinate triples, any characteristic > 3")
def unary_bn128(rep, tier):
    _check_unary(rep, "bn128")


@obligation("C13", "unary_bls12_381", bound="all coordinate triples, any characteristic > 3")
def unary_bls12_381(rep, tier):
    _check_unary(rep, "bls12_381")


# ---------------------------------------------------------------------------
# scaling independence (explicit): add on rescaled representatives gives a representative
# of the same point and takes the corresponding path

def _check_scaling(rep, curve):
    from . import common
    oc = mod(CURVES[curve])
    common.WITNESS_MOD[0] = oc.field_modulus
    rep.encoded(oc.add, oc.double)
    replay = {"kind": "c13_curve", "args": {"curve": curve, "func": "add", "scaled": True}}

    def fn(R):
        p1, p2 = _pt(R, "1"), _pt(R, "2")
        lam, mu = R.atom("lam"), R.atom("mu")
        R.declare_nonzero(lam)
        R.declare_nonzero(mu)
        R.declare_nonzero(p1[1])
        q1 = tuple(lam * c for c in p1)
        q2 = tuple(mu * c for c in p2)
        a = oc.add(p1, p2)
        nl = len(R.lits)
        b = oc.add(q1, q2)
        return a, b, nl

    for p, R in ring.run_paths(fn, lambda: Ring(None)):
        rep.paths += 1
        path = lits_summary(R)
        if p.kind != "ret":
            rep.fail("add on scaled representatives raised %r" % (p.value,), replay, detail=str(path))
            continue
        a, b, nl = p.value
        require(rep, R.prove_equal(a[0] * b[2], b[0] * a[2]), "rescaled result: same x", path, replay)
        require(rep, R.prove_equal(a[1] * b[2], b[1] * a[2]), "rescaled result: same y", path, replay)
        za = R.prove_zero(a[2])
        zb = R.prove_zero(b[2])
        require(rep, (za == "zero") == (zb == "zero"), "rescaled result: identity iff identity", path, replay)


@obligation("C13", "scaling_bn128", bound="arbitrary non-zero scalings lam, mu of both operands; all paths")
def scaling_bn128(rep, tier):
    _check_scaling(rep, "bn128")


@obligation("C13", "scaling_bls12_381", bound="arbitrary non-zero scalings lam, mu of both operands; all paths")
def scaling_bls12_381(rep, tier):
    _check_scaling(rep, "bls12_381")


# ---------------------------------------------------------------------------
# line functions of the optimized pairing modules

def _check_linefunc(rep, curve):
    from . import common
    op = mod(PAIRINGS[curve])
    common.WITNESS_MOD[0] = op.field_modulus
    rep.encoded(op.linefunc)
    replay = {"kind": "c13_linefunc", "args": {"curve": curve}}

    def fn(R):
        P1, P2, T = _pt(R, "1"), _pt(R, "2"), _pt(R, "t")
        for c in (P1[2], P2[2], T[2], P1[1]):
            R.declare_nonzero(c)
        return P1, P2, T, op.linefunc(P1, P2, T)

    seen = set()
    for p, R in ring.run_paths(fn, lambda: Ring(None)):
        rep.paths += 1
        path = lits_summary(R)
        if p.kind != "ret":
            rep.fail("linefunc raised %r" % (p.value,), replay, detail=str(path))
            continue
        P1, P2, T, res = p.value
        x1, y1, z1 = P1
        x2, y2, z2 = P2
        specs = {"dx": x2 * z1 - x1 * z2, "dy": y2 * z1 - y1 * z2}
        asg, unmatched = _classify(R, specs)
        if asg.get("dx") == "nonzero":
            case = "chord"
        elif asg.get("dx") == "zero" and asg.get("dy") == "zero":
            case = "tangent"
        elif asg.get("dx") == "zero" and asg.get("dy") == "nonzero":
            case = "vertical"
        else:
            rep.fail("linefunc returns without a full case decision", replay, detail=str(path))
            continue
        seen.add(case)
        num, den = res
        spec = aff_line(proj_to_aff(P1), proj_to_aff(P2), proj_to_aff(T), case)
        require(rep, R.prove_equal(num, spec * den), "linefunc %s: num/den = affine line through the points evaluated at T" % case, path, replay)
        require(rep, _valid_z(R, den), "linefunc %s: denominator is a product of non-zero literals" % case, path, replay)
    if seen != {"chord", "tangent", "vertical"}:
        rep.fail("linefunc path set %s != chord/tangent/vertical" % sorted(seen), replay)


@obligation("C13", "linefunc_bn128", bound="all finite coordinate triples P1, P2, T (z != 0, y1 != 0), any characteristic > 3")
def linefunc_bn128(rep, tier):
    _check_linefunc(rep, "bn128")


@obligation("C13", "linefunc_bls12_381", bound="all finite coordinate triples P1, P2, T (z != 0, y1 != 0), any characteristic > 3")
def linefunc_bls12_381(rep, tier):
    _check_linefunc(rep, "bls12_381")


# ---------------------------------------------------------------------------
# secp256k1 Jacobian add / double / from_jacobian  (integers mod P)

def _jpt(R, s):
    return (R.atom("X" + s), R.atom("Y" + s), R.atom("Z" + s))


@obligation("C13", "secp256k1_jacobian_mod_P", bound="all coordinate triples as residues mod P = 2^256-2^32-977 (identity in Z/P[X..]); identity marker y == 0; finite points have z != 0")
def secp_jacobian(rep, tier):
    sp = mod("py_ecc.secp256k1.secp256k1")
    rep.encoded(sp.jacobian_add, sp.jacobian_double, sp.from_jacobian, sp.to_jacobian)
    P = sp.P
    rpj = lambda f: {"kind": "c13_jacobian", "args": {"func": f}}

    # jacobian_double
    def fn_d(R):
        p = _jpt(R, "1")
        return p, sp.jacobian_double(p)
    seen = set()
    for p, R in ring.run_paths(fn_d, lambda: Ring(P)):
        rep.paths += 1
        path = lits_summary(R)
        if p.kind != "ret":
            rep.fail("jacobian_double raised %r" % (p.value,), rpj("jacobian_double"), detail=str(path))
            continue
        pt, res = p.value
        asg, unmatched = _classify(R, {"y": pt[1]})
        if "y" not in asg:
            rep.fail("jacobian_double branches on an unexpected predicate", rpj("jacobian_double"), detail=str(path))
            continue
        seen.add(asg["y"])
        res = tuple(R.lift(c) for c in res)
        if asg["y"] == "zero":
            require(rep, R.prove_zero(res[1]), "jacobian_double(identity marker) is an identity marker", path, rpj("jacobian_double"))
        else:
            R.declare_nonzero(pt[2])
            aff = aff_double(jac_to_aff(pt))
            Z = res[2]
            require(rep, R.prove_equal(res[0], aff[0] * Z * Z), "jacobian_double x = tangent law", path, rpj("jacobian_double"))
            require(rep, R.prove_equal(res[1], aff[1] * Z * Z * Z), "jacobian_double y = tangent law", path, rpj("jacobian_double"))
            require(rep, _valid_z(R, Z), "jacobian_double z non-zero", path, rpj("jacobian_double"))
    if seen != {"zero", "nonzero"}:
        rep.fail("jacobian_double path set", rpj("jacobian_double"))

    # jacobian_add
    def fn_a(R):
        p, q = _jpt(R, "1"), _jpt(R, "2")
        return p, q, sp.jacobian_add(p, q)
    cases = set()
    for pth, R in ring.run_paths(fn_a, lambda: Ring(P)):
        rep.paths += 1
        path = lits_summary(R)
        if pth.kind != "ret":
            rep.fail("jacobian_add raised %r" % (pth.value,), rpj("jacobian_add"), detail=str(path))
            continue
        p, q, res = pth.value
        res = tuple(R.lift(c) for c in res)
        X1, Y1, Z1 = p
        X2, Y2, Z2 = q
        specs = {"y1": Y1, "y2": Y2, "du": X1 * Z2 * Z2 - X2 * Z1 * Z1, "ds": Y1 * Z2 * Z2 * Z2 - Y2 * Z1 * Z1 * Z1}
        asg, unmatched = _classify(R, specs)
        if asg.get("y1") == "zero":
            cases.add("O+Q")
            for i in range(3):
                require(rep, R.prove_equal(res[i], q[i]), "jacobian_add(O, Q) returns Q [%d]" % i, path, rpj("jacobian_add"))
        elif asg.get("y2") == "zero":
            cases.add("P+O")
            for i in range(3):
                require(rep, R.prove_equal(res[i], p[i]), "jacobian_add(P, O) returns P [%d]" % i, path, rpj("jacobian_add"))
        elif asg.get("y1") == "nonzero" and asg.get("y2") == "nonzero":
            R.declare_nonzero(Z1)
            R.declare_nonzero(Z2)
            if asg.get("du") == "nonzero":
                cases.add("generic")
                aff = aff_add_generic(jac_to_aff(p), jac_to_aff(q))
                Z = res[2]
                require(rep, R.prove_equal(res[0], aff[0] * Z * Z), "jacobian_add generic x = chord law", path, rpj("jacobian_add"))
                require(rep, R.prove_equal(res[1], aff[1] * Z * Z * Z), "jacobian_add generic y = chord law", path, rpj("jacobian_add"))
                require(rep, _valid_z(R, Z), "jacobian_add generic z non-zero", path, rpj("jacobian_add"))
            elif asg.get("du") == "zero" and asg.get("ds") == "nonzero":
                cases.add("inverse")
                require(rep, R.prove_zero(res[1]), "jacobian_add(P, -P) is an identity marker (y == 0)", path, rpj("jacobian_add"))
            elif asg.get("du") == "zero" and asg.get("ds") == "zero":
                cases.add("double")
                aff = aff_double(jac_to_aff(p))
                Z = res[2]
                require(rep, R.prove_equal(res[0], aff[0] * Z * Z), "jacobian_add(P, P) x = tangent law", path, rpj("jacobian_add"))
                require(rep, R.prove_equal(res[1], aff[1] * Z * Z * Z), "jacobian_add(P, P) y = tangent law", path, rpj("jacobian_add"))
                require(rep, _valid_z(R, Z), "jacobian_add(P, P) z non-zero", path, rpj("jacobian_add"))
            else:
                rep.fail("jacobian_add returns without distinguishing doubling from inverse", rpj("jacobian_add"), detail=str(path))
        else:
            rep.fail("jacobian_add returns without deciding identity operands", rpj("jacobian_add"), detail=str(path))
    for c in ("O+Q", "P+O", "generic", "inverse", "double"):
        if c not in cases:
            rep.fail("jacobian_add has no path for case %s" % c, rpj("jacobian_add"))

    # from_jacobian with the inv0 contract for inv
    real_inv = sp.inv

    def inv_stub(a, n):
        Rr = core.cur().ring
        a = Rr.lift(a)
        if n != P:
            raise core.Unsupported("inv called with modulus %r" % n)
        if a.is_zero():
            return 0
        return a._inverse()

    def fn_f(R):
        p = _jpt(R, "1")
        sp.inv = inv_stub
        try:
            return p, sp.from_jacobian(p)
        finally:
            sp.inv = real_inv
    rep.stub("secp256k1.inv(a, P) -> a^-1 with inv(0) = 0 (contract discharged in C18)")
    seen = set()
    for pth, R in ring.run_paths(fn_f, lambda: Ring(P)):
        rep.paths += 1
        path = lits_summary(R)
        if pth.kind != "ret":
            rep.fail("from_jacobian raised %r" % (pth.value,), rpj("from_jacobian"), detail=str(path))
            continue
        p, res = pth.value
        res = tuple(R.lift(c) for c in res)
        asg, unmatched = _classify(R, {"z": p[2]})
        if "z" not in asg:
            rep.fail("from_jacobian: unexpected branch", rpj("from_jacobian"), detail=str(path))
            continue
        seen.add(asg["z"])
        if asg["z"] == "nonzero":
            aff = jac_to_aff(p)
            require(rep, R.prove_equal(res[0], aff[0]), "from_jacobian x = X/Z^2", path, rpj("from_jacobian"))
            require(rep, R.prove_equal(res[1], aff[1]), "from_jacobian y = Y/Z^3", path, rpj("from_jacobian"))
        else:
            require(rep, R.prove_zero(res[0]), "from_jacobian(z = 0) x = 0 (inv0)", path, rpj("from_jacobian"))
            require(rep, R.prove_zero(res[1]), "from_jacobian(z = 0) y = 0 (inv0)", path, rpj("from_jacobian"))
    if seen != {"zero", "nonzero"}:
        rep.fail("from_jacobian path set", rpj("from_jacobian"))
    # identity representatives (0,0,z) map to (0,0)
    def fn_f0(R):
        p = (R.const(0), R.const(0), R.atom("Z1"))
        sp.inv = inv_stub
        try:
            return sp.from_jacobian(p)
        finally:
            sp.inv = real_inv
    for pth, R in ring.run_paths(fn_f0, lambda: Ring(P)):
        rep.paths += 1
        if pth.kind != "ret":
            rep.fail("from_jacobian((0,0,z)) raised", rpj("from_jacobian"))
            continue
        res = tuple(R.lift(c) for c in pth.value)
        require(rep, R.prove_zero(res[0]) == "zero" and R.prove_zero(res[1]) == "zero",
                "from_jacobian((0, 0, z)) = (0, 0) for every z", lits_summary(R), rpj("from_jacobian"))
    # to_jacobian
    with core.Ctx() as ctx:
        R = Ring(P)
        ctx.ring = R
        a = (R.atom("x"), R.atom("y"))
        j = sp.to_jacobian(a)
        aff = jac_to_aff(tuple(R.lift(c) for c in j))
        require(rep, R.prove_equal(aff[0], a[0]) == "zero" and R.prove_equal(aff[1], a[1]) == "zero",
                "to_jacobian(x, y) represents (x, y)", None, rpj("to_jacobian"))


@obligation("C13", "secp256k1_jacobian_range", bound="all coordinates in [0, P); outputs proven in [0, P) with products as uninterpreted atoms (QF_UFLIA)")
def secp_range(rep, tier):
    """every coordinate returned by jacobian_add / jacobian_double is a canonical residue."""
    sp = mod("py_ecc.secp256k1.secp256k1")
    rep.encoded(sp.jacobian_add, sp.jacobian_double)
    P = sp.P
    from symx.core import SymZ
    rpj = lambda f: {"kind": "c13_jacobian", "args": {"func": f}}

    def run_add(ctx):
        p = tuple(SymZ.var(n, 0, P - 1) for n in ("X1", "Y1", "Z1"))
        q = tuple(SymZ.var(n, 0, P - 1) for n in ("X2", "Y2", "Z2"))
        return p, q, sp.jacobian_add(p, q)

    def on_path(pth):
        rep.paths += 1
        if pth.kind != "ret":
            rep.fail("jacobian_add raised %r on reduced inputs" % (pth.value,), rpj("jacobian_add"))
            return
        for i, c in enumerate(pth.value[2]):
            c = SymZ.lift(c)
            r, m = pth.ctx.prove(z3.And(c.t >= 0, c.t < P))
            require(rep, r, "jacobian_add result[%d] in [0, P)" % i, pth.decisions, rpj("jacobian_add"))
    core.explore(run_add, ctx_kwargs=dict(mul="uf"), on_path=on_path)

    def run_dbl(ctx):
        p = tuple(SymZ.var(n, 0, P - 1) for n in ("X1", "Y1", "Z1"))
        return p, sp.jacobian_double(p)

    def on_path2(pth):
        rep.paths += 1
        if pth.kind != "ret":
            rep.fail("jacobian_double raised %r on reduced inputs" % (pth.value,), rpj("jacobian_double"))
            return
        for i, c in enumerate(pth.value[1]):
            c = SymZ.lift(c)
            r, m = pth.ctx.prove(z3.And(c.t >= 0, c.t < P))
            require(rep, r, "jacobian_double result[%d] in [0, P)" % i, pth.decisions, rpj("jacobian_double"))
    core.explore(run_dbl, ctx_kwargs=dict(mul="uf"), on_path=on_path2)


# ---------------------------------------------------------------------------
# thorough: the projective / Jacobian formulas on WHOLE small curves (exact bit-vectors, real control flow): the obligations of
# C07 (optimized modules against the reference affine law) and C18 (secp256k1 Jacobian code on a prime-order curve), which decide
# every special position -- equal, opposite, identity operands, every representative -- that the generic-path identities above
# reach only through their case analysis.  Imported lazily: c07 and c18 import this module.
def _small_opt(curve):
    def f(rep, tier):
        from . import c07
        p_, b_, n_ = [c for c in c07.small_curves(23) if c[0] == 7][0]
        rep.encoded(mod(CURVES[curve]).add, mod(CURVES[curve]).double, mod(CURVES[curve]).neg, mod(CURVES[curve]).multiply)
        c07._check_small_optimized(rep, curve, p_, b_, n_)
    return f


for _c in ("bn128", "bls12_381"):
    obligation("C13", "small_curve_optimized_vs_reference_%s_p7" % _c, tier="thorough", timeout=3000,
               bound="y^2 = x^3 + 2 over GF(7): optimized add / double / neg on EVERY pair of projective triples (every representative, z = 0 included) against the reference affine add; multiply for every n in [0, 19] (the C07 obligation)")(_small_opt(_c))


def _small_secp(part):
    def f(rep, tier):
        from . import c18
        sp = mod(c18.SP)
        rep.encoded(sp.jacobian_add, sp.jacobian_double, sp.from_jacobian, sp.to_jacobian)
        p_, b_, n_ = c18.SMALL_PRIME_ORDER[0]
        c18._small_secp(rep, p_, b_, n_, part)
    return f


obligation("C13", "small_prime_order_curve_p7_jacobian", tier="thorough", timeout=3000,
           bound="secp256k1 constants rebound to y^2 = x^3 + 3 over GF(7) (N = 13): jacobian_add / jacobian_double on every pair of points and EVERY Jacobian representative against the reference affine law (the C18 obligation)")(_small_secp("jacobian"))
