"""C06 -- obligations are registered in checks/c19.py (shared ECDSA model)."""
from . import c19  # noqa: F401
