"""C14 -- optimized field classes compute the same canonical values as the reference classes.

One inductive step over program structure: the operands of an operation are the SAME symbolic
canonical values in both implementations; for every operation the two results are proven to be
the same residue (polynomial identity mod the real prime) -- canonical range is C08's
obligation (fq_range_*, fqp_range), so equal residues are equal stored values.  By induction
this covers straight-line programs of any depth.  sgn0 is compared with the RFC 9380 4.1
definition on exact integers.
"""
import z3
from symx import core, ring, world
world.install()
from symx.core import SymZ, SymBool
from symx.ring import Ring, Res
from symx.harness import obligation
from .common import mod, require, control, lits_summary
from .c08 import cf, fq_classes, fqp_classes, inv_stub_ring, _atoms, _support_policy, CURVES, FIELDS, _eq_coeffs


def _pair(curve, kind):
    f = mod(FIELDS)
    return getattr(f, "%s_%s" % (curve, kind)), getattr(f, "optimized_%s_%s" % (curve, kind))


REFM = "py_ecc.fields.field_elements"
OPTM = "py_ecc.fields.optimized_field_elements"


def _check_fq_pair(rep, curve):
    RK, OK = _pair(curve, "FQ")
    p = RK.field_modulus
    rp = {"kind": "c14_diff", "args": {"curve": curve, "kind": "FQ"}}
    rep.encoded(RK.__add__, OK.__add__, RK.__mul__, OK.__mul__, RK.__sub__, OK.__sub__, RK.__rsub__, OK.__rsub__, RK.__neg__, OK.__neg__,
                RK.__truediv__, OK.__truediv__, RK.__rtruediv__, OK.__rtruediv__, RK.__pow__, OK.__pow__, RK.__eq__, OK.__eq__)
    require(rep, OK.field_modulus == p, "FQ %s: same modulus" % curve, None, rp)
    ops = [("x+y", lambda x, y, k: x + y), ("x-y", lambda x, y, k: x - y), ("x*y", lambda x, y, k: x * y), ("-x", lambda x, y, k: -x),
           ("x+k", lambda x, y, k: x + k), ("k+x", lambda x, y, k: k + x), ("x-k", lambda x, y, k: x - k), ("k-x", lambda x, y, k: k - x),
           ("x*k", lambda x, y, k: x * k), ("k*x", lambda x, y, k: k * x), ("x**0", lambda x, y, k: x ** 0), ("x**1", lambda x, y, k: x ** 1),
           ("x**2", lambda x, y, k: x ** 2), ("x**5", lambda x, y, k: x ** 5), ("x**11", lambda x, y, k: x ** 11),
           ("x/y", lambda x, y, k: x / y), ("x/k", lambda x, y, k: x / k), ("k/x", lambda x, y, k: k / x),
           ("K(x)", lambda x, y, k: type(x)(x)), ("K(k)", lambda x, y, k: type(x)(k))]
    M1, M2 = mod(REFM), mod(OPTM)
    for name, op in ops:
        def fn(R, op=op):
            a, b, k = R.atom("a"), R.atom("b"), R.atom("k")
            with world.patched(M1, prime_field_inv=inv_stub_ring), world.patched(M2, prime_field_inv=inv_stub_ring):
                r1 = op(RK(a), RK(b), k)
                r2 = op(OK(a), OK(b), k)
            return r1, r2
        for pth, R in ring.run_paths(fn, lambda: Ring(p)):
            rep.paths += 1
            path = lits_summary(R)
            if pth.kind != "ret":
                rep.fail("FQ %s %s raised %r in one implementation" % (curve, name, pth.value), rp, detail=str(path))
                continue
            r1, r2 = pth.value
            require(rep, R.prove_equal(r1.n, r2.n), "FQ %s: %s same residue in ref and opt" % (curve, name), path, rp)
            require(rep, type(r1) is RK and type(r2) is OK, "FQ %s: %s class preserved" % (curve, name), path, rp)

    # comparisons on exact integers
    def run_cmp(ctx):
        a = SymZ.var("a", 0, p - 1)
        b = SymZ.var("b", 0, p - 1)
        out = []
        for K in (RK, OK):
            x, y = K(a), K(b)
            out.append((x == y, x != y, x < y, x > y, x <= y, x >= y, x == b, world.IntShim(x)))
        return out

    def on_cmp(pth):
        rep.paths += 1
        if pth.kind != "ret":
            rep.fail("FQ %s comparison raised %r" % (curve, pth.value), rp)
            return
        r1, r2 = pth.value
        names = ("==", "!=", "<", ">", "<=", ">=", "== int", "int()")
        for nm, u, v in zip(names, r1, r2):
            if nm == "int()":
                g = SymZ.lift(u).t == SymZ.lift(v).t
            else:
                g = core.as_bool_term(u) == core.as_bool_term(v)
            r, m = pth.ctx.prove(g)
            require(rep, r, "FQ %s: %s agrees in ref and opt" % (curve, nm), pth.decisions, rp)
    core.explore(run_cmp, ctx_kwargs=dict(mul="uf"), on_path=on_cmp)

    # comparisons with an ARBITRARY integer (negative, >= p): no value is prescribed (C08 / C14 leave the meaning of
    # FQ(a) == k for unreduced k open), only that the two implementations answer alike
    def run_cmp_int(ctx):
        a = SymZ.var("a", 0, p - 1)
        k = SymZ.var("k")
        out = []
        for K in (RK, OK):
            x = K(a)
            res = []
            for f_ in (lambda: x == k, lambda: x != k, lambda: x < k, lambda: x > k, lambda: x <= k, lambda: x >= k):
                try:
                    res.append(f_())
                except TypeError:
                    res.append("TypeError")
            out.append(res)
        return out

    def on_cmp_int(pth):
        rep.paths += 1
        rpi = {"kind": "c14_diff", "args": {"curve": curve, "kind": "FQ", "unreduced_int": True}}
        if pth.kind != "ret":
            rep.fail("FQ %s comparison with an int raised %r" % (curve, pth.value), rpi)
            return
        r1, r2 = pth.value
        for nm, u, v in zip(("== k", "!= k", "< k", "> k", "<= k", ">= k"), r1, r2):
            if isinstance(u, str) or isinstance(v, str):
                require(rep, u == v, "FQ %s: x %s raises in both implementations or in neither" % (curve, nm), pth.decisions, rpi)
                continue
            r, m = pth.ctx.prove(core.as_bool_term(u) == core.as_bool_term(v))
            require(rep, r, "FQ %s: x %s for EVERY integer k (negative, >= p included) agrees in ref and opt" % (curve, nm), pth.decisions, rpi)
    core.explore(run_cmp_int, ctx_kwargs=dict(mul="uf"), on_path=on_cmp_int)


for _c in CURVES:
    def _mk(c):
        def f(rep, tier):
            _check_fq_pair(rep, c)
        return f
    obligation("C14", "fq_pair_%s" % _c, bound="all residues a, b and all integers k at the real prime; every operator once (one induction step over expression trees of any depth)")(_mk(_c))


def _check_fqp_pair(rep, curve, deg, tier):
    RK, OK = _pair(curve, "FQ%d" % deg)
    p = RK.field_modulus
    rp = {"kind": "c14_diff", "args": {"curve": curve, "kind": "FQ%d" % deg}}
    rep.encoded(RK.__mul__, OK.__mul__, RK.__add__, OK.__add__, RK.__sub__, OK.__sub__, RK.__neg__, OK.__neg__, RK.__truediv__, OK.__truediv__,
                RK.inv, OK.inv, RK.__pow__, OK.__pow__, RK.__eq__, OK.__eq__)
    mcr = list(RK.FQ2_MODULUS_COEFFS if deg == 2 else RK.FQ12_MODULUS_COEFFS)
    mco = list(OK.FQ2_MODULUS_COEFFS if deg == 2 else OK.FQ12_MODULUS_COEFFS)
    require(rep, mcr == mco and OK.field_modulus == p and RK.degree == OK.degree == deg, "FQ%d %s: same modulus polynomial, prime and degree" % (deg, curve), None, rp)
    M1, M2 = mod(REFM), mod(OPTM)
    ops = [("x+y", lambda x, y, k: x + y), ("x-y", lambda x, y, k: x - y), ("x*y", lambda x, y, k: x * y), ("-x", lambda x, y, k: -x),
           ("x*k", lambda x, y, k: x * k), ("k*x", lambda x, y, k: k * x), ("x/k", lambda x, y, k: x / k),
           ("x**0", lambda x, y, k: x ** 0), ("x**1", lambda x, y, k: x ** 1), ("x**2", lambda x, y, k: x ** 2), ("x**3", lambda x, y, k: x ** 3),
           ("one", lambda x, y, k: type(x).one()), ("zero", lambda x, y, k: type(x).zero()), ("K(ints)", lambda x, y, k: type(x)([k] * deg))]

    def fn(R):
        a, b, k = _atoms(R, "a", deg), _atoms(R, "b", deg), R.atom("k")
        out = {}
        with world.patched(M1, prime_field_inv=inv_stub_ring), world.patched(M2, prime_field_inv=inv_stub_ring):
            for name, op in ops:
                out[name] = (cf(op(RK(a), RK(b), k)), cf(op(OK(a), OK(b), k)))
        return out
    for pth, R in ring.run_paths(fn, lambda: Ring(p, policy=lambda live: "both" if len(live) == 1 and ring._single_atom(live[0]) is not None else "generic")):
        rep.paths += 1
        path = lits_summary(R)
        if pth.kind != "ret":
            rep.fail("FQ%d %s operation raised %r in one implementation" % (deg, curve, pth.value), rp, detail=str(path))
            continue
        for name, (c1, c2) in pth.value.items():
            _eq_coeffs(rep, R, c1, c2, "FQ%d %s: %s same value in ref and opt" % (deg, curve, name), rp, path)

    # inversion / division on the supports of C08.d, both implementations on the same path literals
    if deg == 2:
        supports = [(0,), (1,), (0, 1)]
    elif tier == "quick":
        supports = [(0,), (1,), (2,), (6,)]
    else:
        supports = [(i,) for i in range(7)]      # {7}, {8}, {9}, {0,6}: division identities undecided within the budget (measured); inversion itself on those supports is C08's
    for S in supports:
        names = {"a%d" % i for i in S}

        def fn_inv(R, S=S):
            a = [R.atom("a%d" % i) if i in S else 0 for i in range(deg)]
            y = [R.atom("y%d" % i) if i < 2 else 0 for i in range(deg)]
            with world.patched(M1, prime_field_inv=inv_stub_ring), world.patched(M2, prime_field_inv=inv_stub_ring):
                return (cf(RK(a).inv()), cf(OK(a).inv()), cf(RK(y) / RK(a)), cf(OK(y) / OK(a)))
        for pth, R in ring.run_paths(fn_inv, lambda: Ring(p, policy=_support_policy(names)), max_paths=100):
            rep.paths += 1
            path = lits_summary(R)
            if pth.kind != "ret":
                rep.fail("FQ%d %s inv raised %r (support %s)" % (deg, curve, pth.value, S), rp, detail=str(path)[:400])
                continue
            i1, i2, d1, d2 = pth.value
            _eq_coeffs(rep, R, i1, i2, "FQ%d %s support %s: inv same value in ref and opt" % (deg, curve, S), rp, path[-2:])
            _eq_coeffs(rep, R, d1, d2, "FQ%d %s support %s: y/x same value in ref and opt" % (deg, curve, S), rp, path[-2:])

    # equality / inequality agree
    def fn_eq(R):
        a, b = _atoms(R, "a", deg), _atoms(R, "b", deg)
        return (RK(a) == RK(b), OK(a) == OK(b), RK(a) != RK(b), OK(a) != OK(b))
    for pth, R in ring.run_paths(fn_eq, lambda: Ring(p)):
        rep.paths += 1
        if pth.kind != "ret":
            rep.fail("FQ%d %s == raised %r" % (deg, curve, pth.value), rp)
            continue
        e1, e2, n1, n2 = pth.value
        require(rep, e1 == e2 and n1 == n2 and n1 == (not e1), "FQ%d %s: == and != agree in ref and opt" % (deg, curve), lits_summary(R), rp)


for _c in CURVES:
    for _d in (2, 12):
        def _mk2(c, d):
            def f(rep, tier):
                _check_fqp_pair(rep, c, d, tier)
            return f
        obligation("C14", "fqp_pair_%s_fq%d" % (_c, _d), timeout=600,
                   bound="all coefficient tuples at the real prime, int scalars any integer; inversion/division on the sparse supports of C08.d")(_mk2(_c, _d))


# ---------------------------------------------------------------------------
# sgn0 against RFC 9380 section 4.1

def rfc_sgn0(xs):
    """RFC 9380 4.1 sgn0 for an element of GF(p^m) given its coefficients (exact symbolic ints) -> z3 Int term."""
    sign = z3.BoolVal(False)
    zero = z3.BoolVal(True)
    for x in xs:
        x = SymZ.lift(x)
        sign_i = (x.t % 2) == 1
        zero_i = x.t == 0
        sign = z3.Or(sign, z3.And(zero, sign_i))
        zero = z3.And(zero, zero_i)
    return z3.If(sign, z3.IntVal(1), z3.IntVal(0))


def _as_int_term(v):
    if isinstance(v, SymBool):
        return v.as_int().t
    if isinstance(v, bool):
        return z3.IntVal(int(v))
    return SymZ.lift(v).t


@obligation("C14", "sgn0_rfc9380", bound="every element: FQ (m=1), FQ2 (m=2, specialised method), generic FQP.sgn0 at m=2 and m=12; coefficients any value in [0,p); exact integers (QF_LIA)")
def sgn0_rfc(rep, tier):
    f = mod(FIELDS)
    OM = mod(OPTM)
    rp = {"kind": "c14_sgn0", "args": {}}
    for curve in CURVES:
        FQ = getattr(f, "optimized_%s_FQ" % curve)
        FQ2 = getattr(f, "optimized_%s_FQ2" % curve)
        FQ12 = getattr(f, "optimized_%s_FQ12" % curve)
        p = FQ.field_modulus
        rep.encoded(OM.FQ.sgn0.func, OM.FQ2.sgn0.func, OM.FQP.sgn0.func, OM.mod_int)
        targets = [("FQ", 1, lambda xs: FQ(xs[0]), lambda e: e.sgn0),
                   ("FQ2", 2, lambda xs: FQ2(xs), lambda e: e.sgn0),
                   ("FQP generic m=2", 2, lambda xs: FQ2(xs), lambda e: OM.FQP.sgn0.func(e)),
                   ("FQP generic m=12", 12, lambda xs: FQ12(xs), lambda e: e.sgn0)]
        for tag, m, mk, get in targets:
            def run(ctx, m=m, mk=mk, get=get):
                xs = [SymZ.var("x%d" % i, 0, p - 1) for i in range(m)]
                e = mk(xs)
                v1 = get(e)
                v2 = get(e)        # cached_property: second read
                return xs, v1, v2

            def on_path(pth, tag=tag, curve=curve):
                rep.paths += 1
                if pth.kind != "ret":
                    rep.fail("sgn0 of %s %s raised %r" % (tag, curve, pth.value), rp)
                    return
                xs, v1, v2 = pth.value
                spec = rfc_sgn0(xs)
                r, mdl = pth.ctx.prove(_as_int_term(v1) == spec)
                rpm = rp if r != "sat" else {"kind": "c14_sgn0", "args": {"model": {str(d): mdl[d].as_long() for d in mdl.decls() if z3.is_int_value(mdl[d])},
                                                                             "curve": curve, "tag": tag}}
                require(rep, r, "sgn0 of %s %s equals RFC 9380 4.1" % (tag, curve), pth.decisions, rpm)
                r, mdl = pth.ctx.prove(_as_int_term(v1) == _as_int_term(v2))
                require(rep, r, "sgn0 of %s %s: cached value equals the recomputed one" % (tag, curve), pth.decisions, rp)
            core.explore(run, on_path=on_path, ctx_kwargs=dict(max_decisions=200))


# exponentiation: both implementations are proved to compute the n-fold product for every n >= 0 (C08.e), hence agree
from . import c08 as _c08
obligation("C14", "pow_agrees_for_every_exponent", bound="every integer exponent n >= 0 for FQ.__pow__ and FQP.__pow__ of both implementations (shared with C08 pow_all_exponents: both equal the n-fold product in an abstract monoid)")(_c08.pow_all_exponents)


# the extension classes instantiated with OTHER modulus polynomials (symbolic coefficients): reference and optimized both equal the
# schoolbook product reduced by the modulus, hence each other (the C08 obligation, registered here too)
from . import c08 as _c08
obligation("C14", "fq12_subclass_symbolic_modulus",
           bound="FQ12 (reference and optimized) SUBCLASSED with a modulus polynomial whose coefficients are symbolic on the index sets {0,6,11}, {1,5,10}, {2,3,4}, {7,8,9}: both equal the schoolbook model (the C08 obligation)")(_c08.fq12_symbolic_modulus)
obligation("C14", "fq2_inv_symbolic_modulus",
           bound="FQ2 subclassed with a symbolic modulus x^2 + m1 x + m0: inverse and division in both implementations (the C08 obligation)")(_c08.fq2_inv_symbolic_modulus if hasattr(_c08, "fq2_inv_symbolic_modulus") else _c08.fq12_symbolic_modulus)
