"""Frame monitor shared by the C20 check (symbolic side) and its replay (plain interpreter): a deep, value-based
fingerprint of every module-level object and class attribute of the loaded py_ecc modules.  stdlib only."""
import sys
import types


def _val(o, depth=0, seen=None):
    seen = seen if seen is not None else set()
    if depth > 6:
        return ("deep", type(o).__name__)
    if o is None or isinstance(o, (bool, int, str, bytes, float)):
        return o
    if isinstance(o, bytearray):
        return ("bytearray", bytes(o))
    if isinstance(o, (tuple, list)):
        return (type(o).__name__,) + tuple(_val(x, depth + 1, seen) for x in o)
    if isinstance(o, (set, frozenset)):
        return (type(o).__name__,) + tuple(sorted(repr(_val(x, depth + 1, seen)) for x in o))
    if isinstance(o, dict):
        return ("dict",) + tuple(sorted((repr(k), repr(_val(v, depth + 1, seen))) for k, v in o.items()))
    if isinstance(o, (types.FunctionType, types.BuiltinFunctionType, types.ModuleType, type, staticmethod, classmethod, property)):
        return ("id", type(o).__name__, id(o))
    if hasattr(o, "coeffs") and hasattr(o, "modulus_coeffs"):
        return ("FQP", type(o).__name__, _val(tuple(o.coeffs), depth + 1, seen), _val(tuple(o.modulus_coeffs), depth + 1, seen))
    if hasattr(o, "n") and hasattr(type(o), "field_modulus"):
        return ("FQ", type(o).__name__, _val(o.n, depth + 1, seen))
    return ("obj", type(o).__name__, id(o))


def state_fp(prefix="py_ecc"):
    """name -> value fingerprint for every py_ecc module global and every data attribute of classes defined there."""
    out = {}
    for mn, m in sorted(sys.modules.items()):
        if m is None or not (mn == prefix or mn.startswith(prefix + ".")):
            continue
        for k, v in list(vars(m).items()):
            if k.startswith("__") and k.endswith("__"):
                continue
            out["%s.%s" % (mn, k)] = _val(v)
            if isinstance(v, type) and getattr(v, "__module__", "").startswith(prefix):
                for ak, av in list(vars(v).items()):
                    if ak.startswith("__") and ak.endswith("__"):
                        continue
                    out["%s.%s::%s" % (mn, k, ak)] = _val(av)
    return out


def diff(a, b):
    ks = set(a) | set(b)
    return sorted(k for k in ks if a.get(k, "<absent>") != b.get(k, "<absent>"))


def arg_fp(args):
    return _val(args)


def scan_sources(repo):
    """syntactic scan of py_ecc/: randomness / clock / environment imports, `global`, os.urandom / getenv, and statements inside
    functions that assign into or call a mutating method on a module-level name.  Returns (findings, allowed, n_files)."""
    import ast
    import os
    bad = []
    mutators = {"append", "extend", "insert", "pop", "remove", "clear", "update", "sort", "reverse", "setdefault", "popitem", "add", "discard"}
    n_files = 0
    for root, _, files in os.walk(os.path.join(repo, "py_ecc")):
        for fn in sorted(files):
            if not fn.endswith(".py"):
                continue
            n_files += 1
            path = os.path.join(root, fn)
            tree = ast.parse(open(path).read(), path)
            top = {t.id for n in tree.body if isinstance(n, (ast.Assign, ast.AnnAssign)) for t in (n.targets if isinstance(n, ast.Assign) else [n.target]) if isinstance(t, ast.Name)}
            for node in ast.walk(tree):
                if isinstance(node, (ast.Import, ast.ImportFrom)):
                    names = [a.name for a in node.names] + ([node.module] if isinstance(node, ast.ImportFrom) and node.module else [])
                    for nm in names:
                        if nm.split(".")[0] in ("random", "time", "secrets", "datetime", "uuid", "threading", "multiprocessing"):
                            bad.append((path, node.lineno, "imports " + nm))
                if isinstance(node, ast.Global):
                    bad.append((path, node.lineno, "global " + ",".join(node.names)))
                if isinstance(node, ast.Call) and isinstance(node.func, ast.Attribute) and isinstance(node.func.value, ast.Name) and node.func.value.id == "os" and node.func.attr in ("urandom", "getenv"):
                    bad.append((path, node.lineno, "os." + node.func.attr))
                if isinstance(node, ast.FunctionDef):
                    local = {a.arg for a in node.args.args + node.args.kwonlyargs} | {n.id for n in ast.walk(node) if isinstance(n, ast.Name) and isinstance(n.ctx, ast.Store)}
                    for n in ast.walk(node):
                        tgt = None
                        if isinstance(n, (ast.Assign, ast.AugAssign)):
                            for t in (n.targets if isinstance(n, ast.Assign) else [n.target]):
                                if isinstance(t, (ast.Subscript, ast.Attribute)) and isinstance(t.value, ast.Name):
                                    tgt = t.value.id
                        if isinstance(n, ast.Call) and isinstance(n.func, ast.Attribute) and n.func.attr in mutators and isinstance(n.func.value, ast.Name):
                            tgt = n.func.value.id
                        if tgt and tgt in top and tgt not in local:
                            bad.append((path, getattr(n, "lineno", 0), "mutates module-level %s" % tgt))
                        # class attributes written through cls / type(self) / a class name
                        if isinstance(n, (ast.Assign, ast.AugAssign)):
                            for t in (n.targets if isinstance(n, ast.Assign) else [n.target]):
                                if isinstance(t, ast.Attribute) and isinstance(t.value, ast.Name) and t.value.id == "cls":
                                    bad.append((path, getattr(n, "lineno", 0), "assigns class attribute cls.%s" % t.attr))
    allowed = [b for b in bad if b[0].endswith("py_ecc/__init__.py")]
    bad = [b for b in bad if b not in allowed]
    return bad, allowed, n_files
