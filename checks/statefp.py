"""Frame monitor shared by the C20 check (symbolic side) and its replay (plain interpreter): a deep, value-based
fingerprint of every module-level object and class attribute of the loaded py_ecc modules.  stdlib only."""
import sys
import types


def _val(o, depth=0, seen=None):
    seen = seen if seen is not None else set()
    if depth > 6:
        return ("deep", type(o).__name__)
    if o is None or isinstance(o, (bool, int, str, bytes, float)):
        return o
    if isinstance(o, bytearray):
        return ("bytearray", bytes(o))
    if isinstance(o, (tuple, list)):
        return (type(o).__name__,) + tuple(_val(x, depth + 1, seen) for x in o)
    if isinstance(o, (set, frozenset)):
        return (type(o).__name__,) + tuple(sorted(repr(_val(x, depth + 1, seen)) for x in o))
    if isinstance(o, dict):
        return ("dict",) + tuple(sorted((repr(k), repr(_val(v, depth + 1, seen))) for k, v in o.items()))
    if isinstance(o, (types.FunctionType, types.BuiltinFunctionType, types.ModuleType, type, staticmethod, classmethod, property)):
        return ("id", type(o).__name__, id(o))
    if hasattr(o, "coeffs") and hasattr(o, "modulus_coeffs"):
        return ("FQP", type(o).__name__, _val(tuple(o.coeffs), depth + 1, seen), _val(tuple(o.modulus_coeffs), depth + 1, seen))
    if hasattr(o, "n") and hasattr(type(o), "field_modulus"):
        return ("FQ", type(o).__name__, _val(o.n, depth + 1, seen))
    return ("obj", type(o).__name__, id(o))


def state_fp(prefix="py_ecc"):
    """name -> value fingerprint for every py_ecc module global and every data attribute of classes defined there."""
    out = {}
    for mn, m in sorted(sys.modules.items()):
        if m is None or not (mn == prefix or mn.startswith(prefix + ".")):
            continue
        for k, v in list(vars(m).items()):
            if k.startswith("__") and k.endswith("__"):
                continue
            out["%s.%s" % (mn, k)] = _val(v)
            if isinstance(v, type) and getattr(v, "__module__", "").startswith(prefix):
                for ak, av in list(vars(v).items()):
                    if ak.startswith("__") and ak.endswith("__"):
                        continue
                    out["%s.%s::%s" % (mn, k, ak)] = _val(av)
    return out


def diff(a, b):
    ks = set(a) | set(b)
    return sorted(k for k in ks if a.get(k, "<absent>") != b.get(k, "<absent>"))


def arg_fp(args):
    return _val(args)
