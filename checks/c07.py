"""C07 -- curve operations form the standard abelian group in all four curve modules."""
import z3
from symx import core, ring, world
world.install()
from symx.core import SymZ, SymBool
from symx.ring import Ring, Res
from symx.harness import obligation
from .common import (aff_double, aff_add_generic, aff_neg, rdiv, lits_summary, mod, require, control)
from . import c13, common

REF = {"bn128": "py_ecc.bn128.bn128_curve", "bls12_381": "py_ecc.bls12_381.bls12_381_curve"}
OPT = {"bn128": "py_ecc.optimized_bn128.optimized_curve", "bls12_381": "py_ecc.optimized_bls12_381.optimized_curve"}

# optimized modules: the formula obligations are C13's (same functions registered under C07)
for _c in ("bn128", "bls12_381"):
    obligation("C07", "optimized_add_%s" % _c, bound="all coordinate triples, characteristic > 3 (shared with C13)")(getattr(c13, "add_" + _c))
    obligation("C07", "optimized_unary_%s" % _c, bound="all coordinate triples (shared with C13)")(getattr(c13, "unary_" + _c))


def _apt(R, s):
    return (R.atom("x" + s), R.atom("y" + s))


def _check_reference(rep, curve):
    m = mod(REF[curve])
    common.WITNESS_MOD[0] = m.field_modulus
    rep.encoded(m.add, m.double, m.neg, m.is_on_curve, m.is_inf, m.eq)
    rp = lambda f: {"kind": "c07_ref", "args": {"curve": curve, "func": f}}

    def fn(R):
        p1, p2 = _apt(R, "1"), _apt(R, "2")
        R.declare_nonzero(p1[1])
        return p1, p2, m.add(p1, p2)
    cases = set()
    for pth, R in ring.run_paths(fn, lambda: Ring(None)):
        rep.paths += 1
        path = lits_summary(R)
        if pth.kind != "ret":
            rep.fail("reference add raised %r (its self-check 'Point addition is incorrect' must be unreachable)" % (pth.value,), rp("add"), detail=str(path))
            continue
        p1, p2, res = pth.value
        (x1, y1), (x2, y2) = p1, p2
        asg, unmatched = c13._classify(R, {"dx": x2 - x1, "dy": y2 - y1})
        if asg.get("dx") == "nonzero":
            cases.add("generic")
            aff = aff_add_generic(p1, p2)
            require(rep, res is not None and R.prove_equal(res[0], aff[0]) == "zero" and R.prove_equal(res[1], aff[1]) == "zero",
                    "reference add generic = chord law", path, rp("add"))
        elif asg.get("dx") == "zero" and asg.get("dy") == "zero":
            cases.add("double")
            aff = aff_double(p1)
            require(rep, res is not None and R.prove_equal(res[0], aff[0]) == "zero" and R.prove_equal(res[1], aff[1]) == "zero",
                    "reference add(P, P) = tangent law", path, rp("add"))
        elif asg.get("dx") == "zero" and asg.get("dy") == "nonzero":
            cases.add("inverse")
            require(rep, res is None, "reference add(P, -P) = O", path, rp("add"))
        else:
            rep.unknown("reference add path not classified", detail=str(path))
    require(rep, cases == {"generic", "double", "inverse"}, "reference add has generic / doubling / inverse paths (%s)" % sorted(cases), None, rp("add"))
    with core.Ctx() as ctx:
        R = Ring(None)
        ctx.ring = R
        p = _apt(R, "1")
        require(rep, m.add(None, p) is p and m.add(p, None) is p and m.add(None, None) is None, "reference add with identity operands returns the other operand", None, rp("add"))
        require(rep, m.double(None) is None and m.neg(None) is None and m.is_inf(None) is True and m.is_on_curve(None, R.atom("b")) is True,
                "reference double / neg / is_inf / is_on_curve on the identity", None, rp("double"))
        n = m.neg(p)
        require(rep, R.prove_equal(n[0], p[0]) == "zero" and R.prove_equal(n[1], -p[1]) == "zero", "reference neg = (x, -y)", None, rp("neg"))

    # eq
    def fn_eq(R):
        p1, p2 = _apt(R, "1"), _apt(R, "2")
        return p1, p2, m.eq(p1, p2), m.eq(p1, None), m.eq(None, None)
    outs = set()
    for pth, R in ring.run_paths(fn_eq, lambda: Ring(None)):
        rep.paths += 1
        if pth.kind != "ret":
            rep.fail("reference eq raised %r" % (pth.value,), rp("eq"))
            continue
        p1, p2, e, e_inf, e_ii = pth.value
        asg, un = c13._classify(R, {"dx": p2[0] - p1[0], "dy": p2[1] - p1[1]})
        same = asg.get("dx") == "zero" and asg.get("dy") == "zero"
        outs.add(bool(e))
        require(rep, bool(e) == same and not e_inf and e_ii, "reference eq is coordinate-wise equality; infinity equals only infinity", lits_summary(R), rp("eq"))
    require(rep, outs == {True, False}, "reference eq can answer both ways", None, rp("eq"))

    def fn_d(R):
        p = _apt(R, "1")
        R.declare_nonzero(p[1])
        return p, m.double(p)
    for pth, R in ring.run_paths(fn_d, lambda: Ring(None)):
        rep.paths += 1
        if pth.kind != "ret":
            rep.fail("reference double raised %r" % (pth.value,), rp("double"))
            continue
        p, res = pth.value
        aff = aff_double(p)
        require(rep, R.prove_equal(res[0], aff[0]) == "zero" and R.prove_equal(res[1], aff[1]) == "zero", "reference double = tangent law", lits_summary(R), rp("double"))

    def fn_c(R):
        p = _apt(R, "1")
        b = R.atom("b")
        return p, b, m.is_on_curve(p, b)
    outs = set()
    for pth, R in ring.run_paths(fn_c, lambda: Ring(None)):
        rep.paths += 1
        if pth.kind != "ret":
            rep.fail("reference is_on_curve raised %r" % (pth.value,), rp("is_on_curve"))
            continue
        (x, y), b, res = pth.value
        curve_t = y * y - x * x * x - b
        st = None
        if not (set(curve_t.comp) - {0}):
            st = R.status(R._apply_subst(curve_t.comp.get(0, z3.IntVal(0))))
        # the answer must be implied by the path: True only where the curve equation holds, False only where it fails
        ok = (bool(res) is True and st == "zero") or (bool(res) is False and st == "nonzero")
        if st is not None:
            outs.add(st)
        require(rep, ok, "reference is_on_curve(P, b) is True exactly when y^2 - x^3 == b (every finite coordinate pair, (0, 0) and zero coordinates included; this path decides it %s)" % st,
                lits_summary(R), rp("is_on_curve"))
    require(rep, outs == {"zero", "nonzero"}, "reference is_on_curve can answer both ways", None, rp("is_on_curve"))


for _c in ("bn128", "bls12_381"):
    def _mk(c):
        def f(rep, tier):
            _check_reference(rep, c)
        return f
    obligation("C07", "reference_formulas_%s" % _c, bound="all affine coordinate pairs over any field of characteristic > 3 (identities over Z); None = infinity; every control path incl. the unreachable self-check")(_mk(_c))


# ---------------------------------------------------------------------------
# C07.c  group axioms as hypothesis-free identities (formal square roots)

def _check_axioms(rep, curve, assoc):
    m = mod(REF[curve])
    o = mod(OPT[curve])
    common.WITNESS_MOD[0] = m.field_modulus
    rep.encoded(m.add, m.double, o.add)
    rp = {"kind": "c07_ref", "args": {"curve": curve, "func": "add"}}

    def mkring():
        return Ring(None, policy=lambda live: "generic", inv0=False)

    with core.Ctx() as ctx:
        R = mkring()
        if assoc:
            R.id_timeout_ms = 3000000
        ctx.ring = R
        x1, y1, x2, x3 = R.atom("x1"), R.atom("y1"), R.atom("x2"), R.atom("x3")
        b = y1 * y1 - x1 * x1 * x1                 # curve coefficient eliminated through P1
        s2 = R.add_root("s2", x2 * x2 * x2 + b)    # y2 = s2 with s2^2 = x2^3 + b
        P1, P2 = (x1, y1), (x2, s2)
        S = m.add(P1, P2)
        require(rep, S is not None and R.prove_zero(S[1] * S[1] - S[0] * S[0] * S[0] - b), "closure: P1 + P2 satisfies the curve equation (both operands on the curve)", None, rp)
        T = m.add(P2, P1)
        require(rep, R.prove_equal(S[0], T[0]) == "zero" and R.prove_equal(S[1], T[1]) == "zero", "commutativity: P1 + P2 = P2 + P1", None, rp)
        D = m.double(P2)
        require(rep, R.prove_zero(D[1] * D[1] - D[0] * D[0] * D[0] - b), "closure: 2*P2 satisfies the curve equation", None, rp)
        # optimized projective add with arbitrary scalings equals the reference affine add
        lam, mu = R.atom("lam"), R.atom("mu")
        Q = o.add((x1 * lam, y1 * lam, lam), (x2 * mu, s2 * mu, mu))
        require(rep, R.prove_equal(Q[0], S[0] * Q[2]) == "zero" and R.prove_equal(Q[1], S[1] * Q[2]) == "zero",
                "optimized add on any representatives (lam, mu) ~ reference affine add", None, rp)
        control(rep, R.prove_zero(S[1] * S[1] - S[0] * S[0] * S[0] - b - 1), "closure with b + 1")
        if assoc:
            s3 = R.add_root("s3", x3 * x3 * x3 + b)
            P3 = (x3, s3)
            L = m.add(m.add(P1, P2), P3)
            Rr = m.add(P1, m.add(P2, P3))
            require(rep, R.prove_equal(L[0], Rr[0], "assoc x") == "zero", "associativity on the generic locus: x((P1+P2)+P3) = x(P1+(P2+P3))", None, rp)
            require(rep, R.prove_equal(L[1], Rr[1], "assoc y") == "zero", "associativity on the generic locus: y-coordinate", None, rp)
    rep.bound("generic locus: every branch polynomial met (x2 - x1, intermediate abscissa differences) taken non-zero; special positions are covered by the case analysis of reference_formulas_* and by C13")


for _c in ("bn128", "bls12_381"):
    def _mk2(c, assoc):
        def f(rep, tier):
            _check_axioms(rep, c, assoc)
        return f
    obligation("C07", "group_axioms_%s" % _c, bound="three symbolic curve points over any field of characteristic > 3: curve coefficient eliminated, further y-coordinates formal square roots (hypothesis-free identities over Z)")(_mk2(_c, False))
obligation("C07", "associativity_generic_bn128", tier="thorough", timeout=7200,
           bound="associativity of the real reference add for three generic points (biquadratic extension of Z[x1,y1,x2,x3]); ~25 min")(_mk2("bn128", True))


# ---------------------------------------------------------------------------
# C07.d  multiply(P, n) is the n-fold sum for every n >= 0 (inductive step, all four modules)

class _FieldTok:
    def __init__(self, kind):
        self.kind = kind

    def one(self):
        return _FieldTok("one")

    def zero(self):
        return _FieldTok("zero")


class MPt:
    """k*B in the exponent model; behaves like a 3-tuple only as far as multiply's base case needs."""

    def __init__(self, k):
        self.k = SymZ.lift(k)

    def __getitem__(self, i):
        return _FieldTok("coord")


def _as_k(x):
    if isinstance(x, MPt):
        return x.k
    if x is None:
        return SymZ.const(0)
    if isinstance(x, tuple) and len(x) == 3 and all(isinstance(c, _FieldTok) for c in x) and x[2].kind == "zero":
        return SymZ.const(0)
    raise core.Unsupported("not a model point: %r" % (x,))


def _check_multiply(rep, name, modname):
    m = mod(modname)
    rep.encoded(m.multiply)
    rp = {"kind": "c07_multiply", "args": {"module": modname}}
    real = m.multiply
    seen = {"n": 0}
    from .c08 import _has_while, _pow_loop_step

    def dbl(pt):
        return MPt(_as_k(pt) * 2)

    def add(a, b):
        return MPt(_as_k(a) + _as_k(b))

    def is_pt(v):
        try:
            _as_k(v)
            return True
        except core.Unsupported:
            return False
    if _has_while(real, also_for=True):
        # ---- iterative form: every n < 2^K unrolled (each n its own path) + loop-cut invariant step acc + pw*e = n for all n
        K = 6

        def run_it(ctx):
            n = SymZ.var("n", 0, (1 << K) - 1)
            with world.patched(m, double=dbl, add=add):
                r = real(MPt(1), n)
            return n, r

        def on_it(pth):
            rep.paths += 1
            mdl = lambda mm: {"kind": "c07_multiply", "args": {"module": modname, "n": str(mm.eval(z3.Int("n"), model_completion=True)) if mm is not None else "5"}}
            if pth.kind != "ret":
                g, mm = pth.ctx.satisfiable()
                rep.fail("%s.multiply raised %r for some n < 2^%d" % (name, pth.value, K), mdl(mm))
                return
            n, r = pth.value
            g, mm = pth.ctx.prove(_as_k(r).t == n.t)
            require(rep, g, "%s.multiply(P, n) = n*P (iterative form unrolled, n < 2^%d)" % (name, K), pth.decisions, mdl(mm))
        core.explore(run_it, on_path=on_it, ctx_kwargs=dict(max_decisions=64))
        rep.bound("%s.multiply: loop unrolled for all n < 2^%d (every n is its own path)" % (name, K))
        # ground instances on the exponent model (no quantifier): large scalars of the property's list
        with core.Ctx() as gctx:
            for n0 in (2 ** 255, 2 ** 256, 2 ** 256 + 1, m.curve_order - 1, m.curve_order, m.curve_order + 1, 2 * m.field_modulus - m.curve_order, 2 ** 300 + 12345, 2 ** 640 - 1):
                try:
                    with world.patched(m, double=dbl, add=add):
                        r0 = real(MPt(1), n0)
                    k0 = _as_k(r0)
                    ok0 = gctx.prove(k0.t == z3.IntVal(n0))[0]
                except core.Unsupported as e_:
                    rep.unknown("%s.multiply on the model for n = %d bits: %s" % (name, n0.bit_length(), e_))
                    continue
                require(rep, ok0, "%s.multiply(P, n) = n*P on the exponent model for the %d-bit scalar of the property's list (ground)" % (name, n0.bit_length()), None,
                        {"kind": "c07_multiply", "args": {"module": modname, "n": str(n0)}})
        _pow_loop_step(rep, "%s.multiply" % name, real, rp, is_elt=is_pt, mk=lambda c_: MPt(c_), expo=_as_k, stubs=dict(double=dbl, add=add))
        return

    def run(ctx):
        n = SymZ.var("n", 0, None)
        calls = []

        def rec(pt, k):
            calls.append((pt, SymZ.lift(k)))
            return MPt(_as_k(pt) * SymZ.lift(k))

        def dbl(pt):
            return MPt(_as_k(pt) * 2)

        def add(a, b):
            return MPt(_as_k(a) + _as_k(b))
        with world.patched(m, multiply=rec, double=dbl, add=add):
            r = real(MPt(1), n)
        return n, r, calls

    def on_path(pth):
        rep.paths += 1
        seen["n"] += 1
        mdl = lambda mm: {"kind": "c07_multiply", "args": {"module": modname, "n": str(mm.eval(z3.Int("n"), model_completion=True)) if mm is not None else "5"}}
        if pth.kind != "ret":
            g, mm = pth.ctx.satisfiable()
            rep.fail("%s.multiply raised %r for some n >= 0" % (name, pth.value), mdl(mm))
            return
        n, r, calls = pth.value
        g, mm = pth.ctx.prove(_as_k(r).t == n.t)
        require(rep, g, "%s.multiply(P, n) = n*P given the contract for the recursive call" % name, pth.decisions, mdl(mm))
        for pt, k in calls:
            g, mm = pth.ctx.prove(z3.And(k.t >= 0, k.t < n.t))
            require(rep, g, "%s.multiply recursion: 0 <= exponent < n" % name, pth.decisions, mdl(mm))
    core.explore(run, on_path=on_path)
    require(rep, seen["n"] >= 4, "%s.multiply: n = 0, n = 1, even and odd paths explored" % name, None, rp)


@obligation("C07", "multiply_every_scalar", bound="EVERY integer n >= 0 (unbounded): one level of multiply with double / add / the recursive call replaced by their contracts, in each of the four modules")
def multiply_step(rep, tier):
    rep.stub("double / add -> exponent model (contract: reference_formulas_*, optimized_add_*); recursive multiply -> contract for smaller n")
    for c in ("bn128", "bls12_381"):
        _check_multiply(rep, "%s (reference)" % c, REF[c])
        _check_multiply(rep, "%s (optimized)" % c, OPT[c])


# ---------------------------------------------------------------------------
# C07.f  twist

TW = {"bn128": 9, "bls12_381": 1}


@obligation("C07", "twist_embedding", bound="every point of E'(F_p^2) with symbolic coefficients (4 resp. 6 residues mod the real prime), all four modules")
def twist(rep, tier):
    """twist(x, y[, z]) = (psi(x) w^a, psi(y) w^b[, psi(z) w^c]) for the ring embedding psi(c0 + c1 i) = (c0 - k c1) + c1 w^6,
    with exponents that make it the standard isomorphism (u^2 x, u^3 y), u = w or w^-1; psi is injective and multiplicative."""
    for curve in ("bn128", "bls12_381"):
        k = TW[curve]
        for impl, modname in (("ref", REF[curve]), ("opt", OPT[curve])):
            m = mod(modname)
            p = m.field_modulus
            FQ2, FQ12 = m.FQ2, m.FQ12
            rep.encoded(m.twist)
            rp = {"kind": "c07_twist", "args": {"curve": curve, "impl": impl}}
            w = m.w
            one12 = FQ12.one()
            require(rep, type(w) is FQ12 and [int(c) % p for c in w.coeffs] == [0, 1] + [0] * 10,
                    "%s %s ground: the module constant w is the adjoined root itself (the class of the indeterminate in F_p[w]/(modulus)): the standard embedding, not a conjugate or negative of it" % (impl, curve), None, rp)
            # ground: psi(i)^2 = psi(-1), i.e. (w^6 - k)^2 = -1, and b12 / b2 relation
            psi_i = w ** 6 - one12 * k
            require(rep, psi_i * psi_i == one12 * (-1), "%s %s ground: psi(i)^2 = -1 in F_p^12 (psi is a ring homomorphism F_p^2 -> F_p^12)" % (impl, curve), None, rp)
            b2 = m.b2
            psi_b2 = one12 * int(b2.coeffs[0]) + psi_i * int(b2.coeffs[1])
            inv = (curve == "bls12_381")      # BLS12-381 divides by w^2, w^3; BN254 multiplies
            u6 = w ** 6
            require(rep, (m.b12 * u6 == psi_b2) if inv else (psi_b2 * u6 == m.b12),
                    "%s %s ground: b12 = psi(b2) * u^6 (u = w%s): the twist maps E' onto the curve over F_p^12" % (impl, curve, "^-1" if inv else ""), None, rp)

            def fn(R, m=m, FQ2=FQ2, impl=impl):
                from .c08 import inv_stub_ring
                xs = [R.atom("x0"), R.atom("x1")]
                ys = [R.atom("y0"), R.atom("y1")]
                zs = [R.atom("z0"), R.atom("z1")]
                pt = (FQ2(xs), FQ2(ys)) if impl == "ref" else (FQ2(xs), FQ2(ys), FQ2(zs))
                return xs, ys, zs, m.twist(pt)
            from .c08 import cf
            for pth, R in ring.run_paths(fn, lambda: Ring(p)):      # every zero / non-zero case the code itself distinguishes
                rep.paths += 1
                path = lits_summary(R)
                if pth.kind != "ret":
                    rep.fail("%s %s twist raised %r" % (impl, curve, pth.value), rp, detail=str(path))
                    continue
                xs, ys, zs, tw = pth.value

                def psi_shift(c, e):
                    """coefficients of psi(c0 + c1 i) * w^e for 0 <= e < 6."""
                    out = [0] * 12
                    out[e] = c[0] - c[1] * k
                    out[e + 6] = c[1]
                    return out

                def unshift(coeffs, e_neg):
                    return coeffs
                if impl == "ref":
                    tx, ty = cf(tw[0]), cf(tw[1])
                    if not inv:      # bn128: (psi(x) w^2, psi(y) w^3)
                        ex, ey = psi_shift(xs, 2), psi_shift(ys, 3)
                        okx = all(R.prove_equal(R.lift(a), R.lift(b)) == "zero" for a, b in zip(tx, ex))
                        oky = all(R.prove_equal(R.lift(a), R.lift(b)) == "zero" for a, b in zip(ty, ey))
                    else:            # bls12-381: psi(x) / w^2, psi(y) / w^3: check after multiplying back
                        X = m.FQ12([R.lift(c) for c in tx]) * (w ** 2)
                        Y = m.FQ12([R.lift(c) for c in ty]) * (w ** 3)
                        okx = all(R.prove_equal(R.lift(a), R.lift(b)) == "zero" for a, b in zip(cf(X), psi_shift(xs, 0)))
                        oky = all(R.prove_equal(R.lift(a), R.lift(b)) == "zero" for a, b in zip(cf(Y), psi_shift(ys, 0)))
                    require(rep, okx and oky, "%s %s twist(x, y) = (psi(x) u^2, psi(y) u^3)" % (impl, curve), path, rp)
                else:
                    tx, ty, tz = cf(tw[0]), cf(tw[1]), cf(tw[2])
                    if not inv:      # bn128 optimized: (psi(x) w^2, psi(y) w^3, psi(z))
                        exp = (psi_shift(xs, 2), psi_shift(ys, 3), psi_shift(zs, 0))
                    else:            # bls optimized: (psi(x) w, psi(y), psi(z) w^3): affine x/z = psi(x/z) w^-2, y/z = psi(y/z) w^-3
                        exp = (psi_shift(xs, 1), psi_shift(ys, 0), psi_shift(zs, 3))
                    ok = all(R.prove_equal(R.lift(a), R.lift(b)) == "zero" for got, e in zip((tx, ty, tz), exp) for a, b in zip(got, e))
                    require(rep, ok, "%s %s twist(x, y, z) = (psi(x) w^a, psi(y) w^b, psi(z) w^c), projectively (psi(x/z) u^2, psi(y/z) u^3)" % (impl, curve), path, rp)
            # injectivity of psi: linear with trivial kernel
            with core.Ctx() as ctx:
                c0, c1 = z3.Int("c0"), z3.Int("c1")
                g, mm = ctx.prove(z3.Implies(z3.And((c0 - k * c1) % p == 0, c1 % p == 0), c0 % p == 0))
                require(rep, g, "%s %s: psi (hence twist) is injective" % (impl, curve), None, rp)
    rep.trust("(x, y) -> (u^2 x, u^3 y) is a group isomorphism from y^2 = x^3 + b onto y^2 = x^3 + b u^6 (the chord-and-tangent formulas are homogeneous); composed with the ring embedding psi this makes twist an injective homomorphism")


# ---------------------------------------------------------------------------
# C07.g  constants

BLS_X = -0xd201000000010000
BN_U = 4965661367192848881
PINNED = {
    "bn128": dict(
        p=21888242871839275222246405745257275088696311157297823662689037894645226208583,
        r=21888242871839275222246405745257275088548364400416034343698204186575808495617, b=3, G1=(1, 2),
        G2=((10857046999023057135944570762232829481370756359578518086990519993285655852781, 11559732032986387107991004021392285783925812861821192530917403151452391805634),
            (8495653923123431417604973247489272438418190587263600148770280649306958101930, 4082367875863433681332203403145435568316851327593401208105741076214120093531))),
    "bls12_381": dict(
        p=0x1a0111ea397fe69a4b1ba7b6434bacd764774b84f38512bf6730d2a0f6b0f6241eabfffeb153ffffb9feffffffffaaab,
        r=0x73eda753299d7d483339d80809a1d80553bda402fffe5bfeffffffff00000001, b=4,
        G1=(0x17f1d3a73197d7942695638c4fa9ac0fc3688c4f9774b905a14e3a3f171bac586c55e83ff97a1aeffb3af00adb22c6bb,
            0x08b3f481e3aaa0f1a09e30ed741d8ae4fcf5e095d5d00af600db18cb2c04b3edd03cc744a2888ae40caa232946c5e7e1),
        G2=((0x024aa2b2f08f0a91260805272dc51051c6e47ad4fa403b02b4510b647ae3d1770bac0326a805bbefd48056c8c121bdb8, 0x13e02b6052719f607dacd3a088274f65596bd0d09920b61ab5da61bbdc7f5049334cf11213945d57e5ac7d055d042b7e),
            (0x0ce5d527727d6e118cc9cdc6da2e351aadfd9baa8cbdd3a76d429a695160d12c923ac9cc3baca289e193548608b82801, 0x0606c4a02ea734cc32acd2b02bc28b99cb3e287e85a763af267492ab572e99ab3f370d275cec1da1aaa9075ff05f79be))),
}


@obligation("C07", "constants_and_generators", timeout=900, bound="ground: moduli / orders re-derived from the curve family parameter, coefficients and generators compared with literals pinned in the harness, r*G = O for G1, G2, G12 in the four modules")
def constants(rep, tier):
    rp = {"kind": "c07_consts", "args": {}}
    x, u = BLS_X, BN_U
    derived = {
        "bls12_381": dict(p=(x - 1) ** 2 * (x ** 4 - x ** 2 + 1) // 3 + x, r=x ** 4 - x ** 2 + 1),
        "bn128": dict(p=36 * u ** 4 + 36 * u ** 3 + 24 * u ** 2 + 6 * u + 1, r=36 * u ** 4 + 36 * u ** 3 + 18 * u ** 2 + 6 * u + 1),
    }
    for curve in ("bn128", "bls12_381"):
        pin = PINNED[curve]
        require(rep, derived[curve]["p"] == pin["p"] and derived[curve]["r"] == pin["r"], "ground: pinned p, r of %s follow from the family parameter" % curve, None, rp)
        for impl, modname in (("ref", REF[curve]), ("opt", OPT[curve])):
            m = mod(modname)
            t = "%s %s" % (impl, curve)
            require(rep, m.field_modulus == pin["p"] and m.curve_order == pin["r"], t + ": field modulus and curve order are the standard ones", None, rp)
            require(rep, int(m.b.n) == pin["b"] and [int(c) for c in m.b12.coeffs] == [pin["b"]] + [0] * 11, t + ": b and b12", None, rp)
            if curve == "bls12_381":
                require(rep, [int(c) for c in m.b2.coeffs] == [4, 4], t + ": b2 = 4(1 + i)", None, rp)
            else:
                # b2 = 3 / (9 + i)
                nine_i = m.FQ2([9, 1])
                require(rep, m.b2 * nine_i == m.FQ2([3, 0]), t + ": b2 = 3 / (9 + i)", None, rp)
            g1 = tuple(int(c.n) for c in m.G1[:2])
            g2 = tuple(tuple(int(c) for c in e.coeffs) for e in m.G2[:2])
            require(rep, g1 == pin["G1"] and g2 == pin["G2"], t + ": G1 and G2 are the published generators", None, rp)
            if impl == "opt":
                require(rep, int(m.G1[2].n) == 1 and [int(c) for c in m.G2[2].coeffs] == [1, 0], t + ": generators given with z = 1", None, rp)
            require(rep, m.is_on_curve(m.G1, m.b) and m.is_on_curve(m.G2, m.b2) and m.is_on_curve(m.G12, m.b12), t + ": generators on their curves", None, rp)
            require(rep, m.is_inf(m.multiply(m.G1, m.curve_order)) and m.is_inf(m.multiply(m.G2, m.curve_order)), t + ": r*G1 = O and r*G2 = O (ground)", None, rp)
            require(rep, m.is_inf(m.multiply(m.G12, m.curve_order)), t + ": r*G12 = O (ground)", None, rp)
            require(rep, pow(2, m.curve_order - 1, m.curve_order) == 1 and pow(3, m.curve_order - 1, m.curve_order) == 1, t + ": curve order passes Fermat tests", None, rp)
    rep.trust("r and p are prime; #E(F_p) = h*r (point counting)")


# ---------------------------------------------------------------------------
# C07.e  whole small curves, exact bit-vector arithmetic, real control flow of the reference add

def _curve_order(p, b):
    pts = [None] + [(x, y) for x in range(p) for y in range(p) if (y * y - x * x * x - b) % p == 0]
    return len(pts)


def small_curves(pmax):
    out = []
    for p in (5, 7, 11, 13, 17, 19, 23):
        if p > pmax:
            break
        for b in range(1, p):
            n = _curve_order(p, b)
            if n % 2 == 1 and n > 3:
                out.append((p, b, n))
                break
    return out


def _check_small_curve(rep, curve, p, b, order):
    m = mod(REF[curve])
    fe = mod("py_ecc.fields.field_elements")
    rp = {"kind": "c07_small", "args": {"curve": curve, "p": p, "b": b}}
    T = type("SmallFQ", (fe.FQ,), {"field_modulus": p})
    tag = "reference %s add on y^2 = x^3 + %d over GF(%d) (order %d)" % (curve, b, p, order)

    W = ((p - 1) * (p - 1) + p).bit_length() + 2      # every FQ operation reduces its result: intermediates stay below (p-1)^2 + p
    rem = lambda t: z3.URem(t, z3.BitVecVal(p, W))

    def inv_bv(a, n):
        ctx = core.cur()
        a = SymZ.lift(a)
        v = SymZ.var(ctx.fresh_name("inv"), 0, n - 1)
        am = a % n
        ctx.add_fact(z3.If(am.t == 0, v.t == 0, rem(am.t * v.t) == 1))
        return v

    def pt(ctx, nm):
        x, y = SymZ.var("x" + nm, 0, p - 1), SymZ.var("y" + nm, 0, p - 1)
        ctx.assume(rem(y.t * y.t) == rem(rem(rem(x.t * x.t) * x.t) + b))
        return (T(x), T(y))

    def same(A, B):
        if A is None or B is None:
            return z3.BoolVal(A is None and B is None)
        return z3.And(SymZ.lift(A[0].n).t == SymZ.lift(B[0].n).t, SymZ.lift(A[1].n).t == SymZ.lift(B[1].n).t)

    def on_curve(A):
        if A is None:
            return z3.BoolVal(True)
        x, y = SymZ.lift(A[0].n).t, SymZ.lift(A[1].n).t
        return z3.And(rem(y * y) == rem(rem(rem(x * x) * x) + b), z3.ULT(x, p), z3.ULT(y, p))

    def run(ctx):
        P, Q, R_ = pt(ctx, "1"), pt(ctx, "2"), pt(ctx, "3")
        with world.patched(fe, prime_field_inv=inv_bv):
            PQ = m.add(P, Q)
            QP = m.add(Q, P)
            L = m.add(PQ, R_)
            Rr = m.add(P, m.add(Q, R_))
            D = m.double(P)
            PP = m.add(P, P)
            Z = m.add(P, m.neg(P))
        return [("closure", on_curve(PQ)), ("commutativity", same(PQ, QP)), ("associativity (P+Q)+R = P+(Q+R)", same(L, Rr)),
                ("double(P) = P+P", same(D, PP)), ("P + (-P) = O", z3.BoolVal(Z is None))]

    def on_path(pth):
        rep.paths += 1
        if pth.kind != "ret":
            g, mm = pth.ctx.satisfiable()
            if g == "sat":
                rep.fail("%s raised %r" % (tag, pth.value), rp)
            elif g != "unsat":
                rep.unknown("%s: feasibility of a raising path undecided" % tag)
            return
        for w, gl in pth.value:
            g, mm = pth.ctx.prove(gl, timeout_ms=120000)
            rpm = rp
            if g == "sat":
                vals = {}
                for d_ in mm.decls():
                    if d_.name() in ("x1", "y1", "x2", "y2", "x3", "y3"):
                        vals[d_.name()] = mm[d_].as_long()
                rpm = {"kind": "c07_small", "args": dict(rp["args"], model=vals)}
            require(rep, g, "%s: %s for ALL triples of curve points" % (tag, w), pth.decisions, rpm)
        g, mm = pth.ctx.prove_side()
        if g != "unsat":
            rep.unknown("%s: bit-vector arithmetic may wrap" % tag)
    core.explore(run, ctx_kwargs=dict(backend=("bv", W), branch_timeout_ms=60000, max_decisions=200), on_path=on_path, max_paths=5000)
    rep.bound("bit-vector width %d (no-wrap side conditions proved per path)" % W)
    rep.stub("prime_field_inv(a, p) -> fresh v with a*v == 1 (mod p), inv0(0) = 0 (contract: C08 prime_field_inv_small)")


def _mk_small(curve, p):
    def f(rep, tier):
        cs = [c for c in small_curves(23) if c[0] == p]
        require(rep, len(cs) == 1, "an odd-order curve y^2 = x^3 + b exists over GF(%d)" % p, None, {"kind": "c07_small", "args": {"curve": curve, "p": p, "b": 2}})
        p_, b, n = cs[0]
        rep.encoded(mod(REF[curve]).add, mod(REF[curve]).double)
        _check_small_curve(rep, curve, p_, b, n)
    return f


for _p in (7, 13):
    obligation("C07", "small_curve_all_triples_p%d" % _p, tier="thorough", timeout=3000,
               bound="every triple of points of the odd-order curve y^2 = x^3 + 2 over GF(%d): closure, commutativity, associativity incl. all special positions (P = Q, P = -Q, intermediate sums meeting), doubling, inverse; real reference add/double/neg of bn128_curve over an FQ subclass, exact bit-vectors (8 resp. 10 bits, no-wrap side conditions), inversion by contract" % _p)(
        _mk_small("bn128", _p))


def _check_small_optimized(rep, curve, p, b, order):
    """optimized (projective) module against the reference (affine) module of the same curve family on a whole small curve."""
    mo, mr = mod(OPT[curve]), mod(REF[curve])
    fe = mod("py_ecc.fields.field_elements")
    ofe = mod("py_ecc.fields.optimized_field_elements")
    rp = {"kind": "c07_small_opt", "args": {"curve": curve, "p": p, "b": b}}
    T = type("SmallFQ", (fe.FQ,), {"field_modulus": p})
    TO = type("SmallOptFQ", (ofe.FQ,), {"field_modulus": p})
    tag = "optimized %s add/double/multiply on y^2 = x^3 + %d over GF(%d) (order %d)" % (curve, b, p, order)
    W = (8 * (p - 1) * (p - 1)).bit_length() + 2     # optimized FQ: (n * on) % p with int factors up to 8 folded in first
    bv = lambda v: z3.BitVecVal(v, W)
    rem = lambda t: z3.URem(t, bv(p))

    def inv_bv(a, n):
        ctx = core.cur()
        a = SymZ.lift(a)
        v = SymZ.var(ctx.fresh_name("inv"), 0, n - 1)
        am = a % n
        ctx.add_fact(z3.If(am.t == 0, v.t == 0, rem(am.t * v.t) == 1))
        return v

    def ppt(ctx, nm):
        x, y, z = (SymZ.var(c + nm, 0, p - 1) for c in "xyz")
        ctx.assume(z3.Or(z.t == 0, rem(rem(y.t * y.t) * z.t) == rem(rem(x.t * x.t * x.t) + rem(b * rem(z.t * z.t * z.t)))))
        return (x, y, z)

    def opt_pt(Pt):
        return tuple(TO(c) for c in Pt)

    def aff(ctx, Pt):
        if ctx.branch(Pt[2].t == 0):
            return None
        with world.patched(fe, prime_field_inv=inv_bv):
            return (T(Pt[0]) / T(Pt[2]), T(Pt[1]) / T(Pt[2]))

    def n_(c):
        return SymZ.lift(c.n).t

    def agrees(S, E):
        """projective S represents the affine point E (None = infinity)."""
        if E is None:
            return n_(S[2]) == 0
        return z3.And(n_(S[2]) != 0, n_(S[0]) == rem(n_(E[0]) * n_(S[2])), n_(S[1]) == rem(n_(E[1]) * n_(S[2])))

    def same_proj(A, B):
        za, zb = n_(A[2]), n_(B[2])
        return z3.If(z3.Or(za == 0, zb == 0), z3.And(za == 0, zb == 0),
                     z3.And(rem(n_(A[0]) * zb) == rem(n_(B[0]) * za), rem(n_(A[1]) * zb) == rem(n_(B[1]) * za)))

    def finish(pth, what):
        rep.paths += 1
        if pth.kind != "ret":
            g, mm = pth.ctx.satisfiable()
            if g == "sat":
                rep.fail("%s: %s raised %r" % (tag, what, pth.value), rp)
            elif g != "unsat":
                rep.unknown("%s: feasibility of a raising path undecided" % tag)
            return
        for w, gl in pth.value:
            g, mm = pth.ctx.prove(gl, timeout_ms=120000)
            require(rep, g, "%s: %s" % (tag, w), pth.decisions, rp)
        g, mm = pth.ctx.prove_side()
        if g != "unsat":
            rep.unknown("%s: bit-vector arithmetic may wrap (%s)" % (tag, what))
    kw = dict(backend=("bv", W), branch_timeout_ms=60000, max_decisions=300)

    def run_add(ctx):
        P, Q = ppt(ctx, "1"), ppt(ctx, "2")
        S = mo.add(opt_pt(P), opt_pt(Q))
        D = mo.double(opt_pt(P))
        Ng = mo.add(opt_pt(P), mo.neg(opt_pt(P)))
        aP, aQ = aff(ctx, P), aff(ctx, Q)
        with world.patched(fe, prime_field_inv=inv_bv):
            E = mr.add(aP, aQ)
            E2 = mr.add(aP, aP)
        return [("add(P~, Q~) represents the reference affine sum for ALL pairs and ALL projective representatives (z = 0: infinity)", agrees(S, E)),
                ("double(P~) represents P + P", agrees(D, E2)), ("P + (-P) is infinity", n_(Ng[2]) == 0)]
    core.explore(run_add, ctx_kwargs=kw, on_path=lambda pth: finish(pth, "add"), max_paths=3000)

    def run_mul(ctx):
        P = ppt(ctx, "1")
        n = SymZ.var("n", 0, 2 * order + 1)
        M0 = mo.multiply(opt_pt(P), n)
        M1 = mo.multiply(opt_pt(P), n + 1)
        Mr = mo.multiply(opt_pt(P), n + order)
        Z = mo.multiply(opt_pt(P), 0)
        return [("multiply(P, n + 1) ~ multiply(P, n) + P for EVERY n in [0, 2*order + 1] and every representative", same_proj(M1, mo.add(M0, opt_pt(P)))),
                ("multiply(P, n + order) ~ multiply(P, n)", same_proj(Mr, M0)), ("multiply(P, 0) is infinity", n_(Z[2]) == 0)]
    core.explore(run_mul, ctx_kwargs=kw, on_path=lambda pth: finish(pth, "multiply"), max_paths=6000)
    rep.stub("prime_field_inv(a, p) -> fresh v with a*v == 1 (mod p) (only in the affine oracle; the optimized code is division-free)")


for _c in ("bn128", "bls12_381"):
    def _mk_so(curve=_c):
        def f(rep, tier):
            cs = [c for c in small_curves(23) if c[0] == 7]
            p_, b, n = cs[0]
            rep.encoded(mod(OPT[curve]).add, mod(OPT[curve]).double, mod(OPT[curve]).multiply, mod(OPT[curve]).neg, mod(REF[curve]).add)
            _check_small_optimized(rep, curve, p_, b, n)
        return f
    obligation("C07", "small_curve_optimized_vs_reference_%s_p7" % _c, tier="thorough", timeout=3000,
               bound="y^2 = x^3 + 2 over GF(7) (order 9): optimized add/double/neg on EVERY pair of projective triples (every representative, z = 0 included) against the reference affine add; "
                     "multiply for every point and every n in [0, 19]; real optimized_%s code over an optimized-FQ subclass, exact 11-bit vectors with no-wrap side conditions" % _c)(_mk_so())
obligation("C07", "small_curve_all_triples_p7_bls12_381", tier="thorough", timeout=3000,
           bound="as small_curve_all_triples_p7 for the reference bls12_381_curve module")(_mk_small("bls12_381", 7))
