"""C16 -- HKDF and KeyGen match RFC 5869 and the BLS draft for all inputs.

HMAC-SHA256 and SHA-256 are uninterpreted functions (HMAC_sha256: Seq x Seq -> Seq of 32 bytes, H_sha256);
RFC 5869 section 2.2/2.3 and draft-irtf-cfrg-bls-signature-04 section 2.3 are transcribed below over the same
functions; the real hkdf_extract / hkdf_expand / KeyGen run on symbolic byte strings and a symbolic length.
"""
import z3
from symx import core, world
world.install()
from symx.core import SymZ, SymBool
from symx import sbytes
from symx.sbytes import SymBytes, SEQ
from symx.harness import obligation
from .common import mod, require, control
from .c15 import seq_of_int, cat, lit

R_ORDER = 52435875175126190479447740508185965837690552500527637822603658699938581184513


def HM():
    return sbytes._uf("HMAC_sha256", SEQ, SEQ, SEQ)


def rfc_hkdf_expand_blocks(prk, info, n):
    """T(1..n) inputs and terms (RFC 5869 2.3)."""
    T = []
    inputs = []
    prev = z3.Empty(SEQ)
    for i in range(1, n + 1):
        inp = cat(prev, info, lit(bytes([i]))) if i > 1 else cat(info, lit(bytes([i])))
        inputs.append(inp)
        prev = HM()(prk, inp)
        T.append(prev)
    return inputs, T


@obligation("C16", "hkdf_extract_expand", timeout=1500,
            bound="salt / IKM / PRK / info symbolic byte strings (every length 0..1024, contents only flow into HMAC), output length symbolic 0..8160 with ceil(L/32) <= 3 (quick) / <= 8 (thorough) blocks unrolled")
def hkdf(rep, tier):
    h = mod("py_ecc.bls.hash")
    rep.encoded(h.hkdf_extract, h.hkdf_expand)
    rep.stub("hmac.new(key, msg, sha256).digest() -> HMAC_sha256(key, msg) uninterpreted, 32 bytes")
    rp = {"kind": "c16_hkdf", "args": {}}
    nmax = 3 if tier == "quick" else 8

    # extract
    def run_x(ctx):
        ctx.hash_uf = True
        salt = SymBytes.var("salt", 0, 1024)
        ikm = SymBytes.var("ikm", 0, 1024)
        return salt, ikm, h.hkdf_extract(salt, ikm)

    def on_x(pth):
        rep.paths += 1
        if pth.kind != "ret":
            rep.fail("hkdf_extract raised %r" % (pth.value,), rp)
            return
        salt, ikm, out = pth.value
        g, m = pth.ctx.prove(SymBytes.lift(out).t == HM()(salt.t, ikm.t), timeout_ms=60000)
        rpx = rp
        if g == "sat":
            try:
                rpx = {"kind": "c16_hkdf", "args": {"salt_len": m.eval(z3.Length(salt.t), model_completion=True).as_long(),
                                                   "ikm_len": m.eval(z3.Length(ikm.t), model_completion=True).as_long()}}
            except Exception:
                pass
        require(rep, g, "hkdf_extract(salt, IKM) = HMAC-SHA256(key = salt, msg = IKM) for salts and IKMs of every length", pth.decisions, rpx)
    core.explore(run_x, on_path=on_x)

    seen = {}

    def run_e(ctx, mutable=False):
        ctx.hash_uf = True
        ctx.sym_bytearray = True
        ctx.unwind = nmax
        prk = SymBytes.var("prk", 0, 1024)
        info = SymBytes.var("info", 0, 1024)
        L = SymZ.var("L", 0, 8160)
        if mutable:
            # the caller passes bytearrays (the signature allows them): they must be read, never written
            a_prk, a_info = prk.thawed(), info.thawed()
            out = h.hkdf_expand(a_prk, a_info, L)
            ctx.notes.append(("args_after", a_prk.t, a_info.t))
            return prk, info, L, out
        return prk, info, L, h.hkdf_expand(prk, info, L)

    def on_e(pth):
        rep.paths += 1
        if pth.kind == "unwind":
            seen["unwind"] = seen.get("unwind", 0) + 1
            return
        if pth.kind != "ret":
            g, m = pth.ctx.satisfiable()
            rep.fail("hkdf_expand raised %r for some length <= 8160" % (pth.value,), {"kind": "c16_hkdf", "args": {"L": str(m.eval(z3.Int("L"))) if m else ""}})
            return
        prk, info, L, out = pth.value
        for nt in [c for c in pth.ctx.notes if c[0] == "args_after"]:
            g, m = pth.ctx.prove(z3.And(nt[1] == prk.t, nt[2] == info.t), timeout_ms=60000)
            require(rep, g, "hkdf_expand leaves bytearray arguments PRK and info unchanged", pth.decisions, {"kind": "c16_hkdf", "args": {"bytearray": True}})
        calls = [c for c in pth.ctx.notes if c[0] == "hmac"]
        n = len(calls)
        seen[n] = seen.get(n, 0) + 1
        rpm = lambda m: {"kind": "c16_hkdf", "args": {"L": str(m.eval(L.t, model_completion=True)) if m is not None else ""}}
        g, m = pth.ctx.prove(z3.And(32 * n >= L.t, 32 * (n - 1) < L.t) if n > 0 else L.t == 0, timeout_ms=60000)
        require(rep, g, "hkdf_expand computes N = ceil(L/32) blocks (N = %d on this path)" % n, pth.decisions, rpm(m))
        inputs, T = rfc_hkdf_expand_blocks(prk.t, info.t, n)
        for i, (c, want) in enumerate(zip(calls, inputs)):
            g, m = pth.ctx.prove(z3.And(c[2] == prk.t, c[3] == want), timeout_ms=120000)
            require(rep, g, "hkdf_expand N=%d: T(%d) = HMAC(PRK, T(%d) || info || 0x%02x) as in RFC 5869 2.3" % (n, i + 1, i, i + 1), pth.decisions, rpm(m))
        o = SymBytes.lift(out)
        uniform = cat(*T) if T else z3.Empty(SEQ)
        g, m = pth.ctx.prove(z3.And(z3.Length(o.t) == L.t, o.t == z3.SubSeq(uniform, 0, L.t)), timeout_ms=180000)
        require(rep, g, "hkdf_expand N=%d: OKM = first L octets of T(1) || ... || T(N)" % n, pth.decisions, rpm(m))
    core.explore(run_e, on_path=on_e, ctx_kwargs=dict(branch_timeout_ms=60000), max_paths=100)
    core.explore(lambda ctx: run_e(ctx, True), on_path=on_e, ctx_kwargs=dict(branch_timeout_ms=60000), max_paths=100)
    rep.bound("PRK and info passed as bytes and as bytearray (mutable shadow: in-place += / extend write through)")
    require(rep, set(k for k in seen if k != "unwind") >= set(range(0, nmax + 1)), "hkdf_expand: paths for N = 0..%d explored (%s)" % (nmax, sorted(map(str, seen))), None, rp)
    rep.bound("blocks N <= %d unrolled; %d longer path(s) cut by the unwinding assertion" % (nmax, seen.get("unwind", 0)))


@obligation("C16", "keygen_matches_draft_v4", timeout=1500,
            bound="IKM, key_info symbolic byte strings (every length 0..1024, opaque), the SK == 0 retry loop unrolled 2 times (the uninterpreted HMAC makes SK = 0 feasible), each iteration identical in form")
def keygen(rep, tier):
    cs = mod("py_ecc.bls.ciphersuites")
    h = mod("py_ecc.bls.hash")
    S = cs.G2ProofOfPossession
    rep.encoded(cs.BaseG2Ciphersuite.KeyGen, h.hkdf_expand, h.hkdf_extract)
    rep.stub("sha256 -> H_sha256 uninterpreted; HMAC-SHA256 uninterpreted; OS2IP uninterpreted with 0 <= OS2IP(b) < 256^|b|")
    rp = {"kind": "c16_keygen", "args": {}}
    H = sbytes._uf("H_sha256", SEQ, SEQ)
    OS2IP = sbytes._uf("OS2IP", SEQ, z3.IntSort())
    # L = ceil((3 * ceil(log2(r))) / 16) = 48: ground (float code in the tree)
    import math
    require(rep, math.ceil((1.5 * math.ceil(math.log2(R_ORDER))) / 8) == 48 and cs.curve_order == R_ORDER, "ground: L = 48 and r is the BLS12-381 subgroup order", None, rp)
    iters = 2
    seen = {"ret": 0, "cut": 0}

    def run(ctx):
        ctx.hash_uf = True
        ctx.sym_bytearray = True
        ctx.max_keygen_iters = iters
        ikm = SymBytes.var("ikm", 0, 1024)
        info = SymBytes.var("key_info", 0, 1024)
        # bound the retry loop: after `iters` failed attempts, cut (unwinding assertion)
        count = [0]
        real_extract = h.hkdf_extract

        def counted_extract(salt, ikm_):
            count[0] += 1
            if count[0] > iters:
                raise core.UnwindBound("KeyGen retry loop beyond %d iterations" % iters)
            return real_extract(salt, ikm_)
        with world.patched(cs, hkdf_extract=counted_extract):
            sk = S.KeyGen(ikm, info)
        return ikm, info, sk, count[0]

    def spec_sk(ikm, info, k):
        """SK candidate of attempt k (1-based) per draft v4 2.3."""
        salt = lit(b"BLS-SIG-KEYGEN-SALT-")
        for _ in range(k):
            salt = H(salt)
        prk = HM()(salt, cat(ikm, lit(b"\x00")))
        inputs, T = rfc_hkdf_expand_blocks(prk, cat(info, lit((48).to_bytes(2, "big"))), 2)
        okm = z3.SubSeq(cat(*T), 0, 48)
        return OS2IP(okm) % R_ORDER, okm

    def on_path(pth):
        rep.paths += 1
        if pth.kind == "unwind":
            seen["cut"] += 1
            return
        if pth.kind != "ret":
            rep.fail("KeyGen raised %r" % (pth.value,), rp)
            return
        ikm, info, sk, k = pth.value
        seen["ret"] += 1
        sk = SymZ.lift(sk)
        g, m = pth.ctx.prove(z3.And(sk.t >= 1, sk.t < R_ORDER), timeout_ms=60000)
        require(rep, g, "KeyGen returns a secret key in [1, r-1]", pth.decisions, rp)
        want, okm = spec_sk(ikm.t, info.t, k)
        # the OS2IP argument must be the same string for the uninterpreted function to agree: prove the strings equal first
        os_calls = [f for f in pth.ctx.pc if False]
        g, m = pth.ctx.prove(sk.t == want, timeout_ms=240000)
        require(rep, g, "KeyGen (attempt %d succeeds): SK = OS2IP(HKDF-Expand(HKDF-Extract(H^%d(salt0), IKM || 0x00), key_info || I2OSP(48, 2), 48)) mod r" % (k, k),
                pth.decisions, rp)
        for j in range(1, k):
            wj, _ = spec_sk(ikm.t, info.t, j)
            g, m = pth.ctx.prove(wj == 0, timeout_ms=240000)
            require(rep, g, "KeyGen retries only because attempt %d gave SK = 0 (salt re-hashed before every attempt)" % j, pth.decisions, rp)
    core.explore(run, on_path=on_path, ctx_kwargs=dict(branch_timeout_ms=60000), max_paths=50)
    require(rep, seen["ret"] >= 2, "KeyGen: first-attempt and retry paths explored", None, rp)
    rep.bound("retry loop unrolled %d times (%d path(s) cut); every iteration has the same form (salt := H(salt) first), so later iterations repeat the proven step" % (iters, seen["cut"]))
    rep.note("determinism: KeyGen's result is a term over (IKM, key_info) and the uninterpreted functions only -- no clock, randomness or global state is read")
