"""see checks/bls_proto.py"""
from . import bls_proto  # noqa: F401
