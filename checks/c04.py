"""C04 -- see checks/bls_proto.py; plus the decoder contracts "not the canonical encoding => False" consumes (owned by C11)."""
from symx.harness import obligation
from . import bls_proto  # noqa: F401
from . import c11 as _c11

# the protocol obligations decide the verifiers over the ideal codec (VALID / DK / DT); these tie the real decoders to it:
# a string is accepted only if it is THE canonical encoding of a curve point, anything else raises ValueError (turned into False)
obligation("C04", "codec_contract_decompress_G1",
           bound="every 384-bit word (and unbounded integers for the length contract): accepted only in canonical form, otherwise ValueError (the C11 obligation)")(_c11.decompress_g1_all_words)
obligation("C04", "codec_contract_decompress_G2", timeout=900,
           bound="every pair of 384-bit words: accepted only in canonical form, otherwise ValueError (the C11 obligation)")(_c11.decompress_g2_all_words)
obligation("C04", "codec_contract_byte_decoders",
           bound="every 48- / 96-byte string: the byte helpers hand exactly the big-endian words to the word decoders and propagate their ValueError (the C11 obligation)")(_c11.byte_decoders)
