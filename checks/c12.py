"""C12 -- obligations registered in checks/c05.py (shared pairing model)."""
from . import c05  # noqa: F401
