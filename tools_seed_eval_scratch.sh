#!/bin/sh
# usage: tools_seed_eval_scratch.sh <scratch worktree> <patch.diff> <prop> [<prop>...]
# pre-screening of a seeded change WITHOUT touching /repo: the patch is applied in a scratch worktree and the checks (and their
# replays) run against it through VERIF_REPO.  Evidence written by such a run is not kept (evidence/ is restored from git).
wt=$1; patch=$2; shift 2
cd "$wt" || exit 9
git checkout -q -- . ; git apply "$patch" || { echo "PATCH FAILED"; exit 8; }
for p in "$@"; do
  out=$(VERIF_REPO=$wt /verif/run.py $p 2>&1); rc=$?
  echo "  $p rc=$rc $(echo "$out" | grep -c '^VIOLATION') violation line(s); $(echo "$out" | tail -1 | cut -c1-160)"
  echo "$out" | grep -A1 "^VIOLATION" | grep "obligation" | head -2 | cut -c1-230
  echo "$out" | grep "^HARNESS-ERROR\|^INCONCLUSIVE" | head -2 | cut -c1-230
done
git checkout -q -- .
