#!/bin/sh
# usage: tools_seed_confirm.sh <worktree>   -- confirms every seed_out/m*/ in the worktree: tests pass with the patch, demo fails with it, demo passes without.
wt=$1
cd "$wt" || exit 9
git checkout -q -- . 
for m in seed_out/m*/; do
  n=$(basename $m)
  git checkout -q -- .
  if ! git apply --check $m/patch.diff 2>/dev/null; then echo "$wt $n: PATCH DOES NOT APPLY"; continue; fi
  PYTHONPATH=$wt /venv/bin/python $m/demo.py >/dev/null 2>&1; clean_rc=$?
  git apply $m/patch.diff
  PYTHONPATH=$wt /venv/bin/python $m/demo.py >/dev/null 2>&1; mut_rc=$?
  PYTHONPATH=$wt /venv/bin/python -m pytest -q -p no:cacheprovider -x -n 4 tests >/tmp/seedtest_$$.log 2>&1; t_rc=$?
  tl=$(tail -1 /tmp/seedtest_$$.log)
  git checkout -q -- .
  echo "$wt $n: demo_clean_rc=$clean_rc demo_mut_rc=$mut_rc tests_rc=$t_rc [$tl]"
done
rm -f /tmp/seedtest_$$.log
