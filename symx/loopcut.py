"""symx.loopcut -- split a function of the real source at its (single, top-level) while loop.

Given the live function object, its source is re-parsed and four functions are compiled in
the function's own globals:

  init(*params)      -> ("ret", value) if the prologue returns, else ("state", {var: value})
  cond(**state)      -> value of the loop test
  body(**state)      -> ("state", {...}) after ONE execution of the loop body
                        (or ("ret", value) if the body returns)
  tail(**state)      -> value returned by the code after the loop

so that a harness can run one inductive step of the loop from an arbitrary symbolic state.
This is the only place where the machinery transforms the source under test; if the
function has no (or more than one) top-level while loop, LoopCutError is raised and the
obligation is reported inconclusive.
"""
import ast
import inspect
import textwrap


class LoopCutError(Exception):
    pass


class _RetWrap(ast.NodeTransformer):
    def visit_Return(self, node):
        v = node.value or ast.Constant(value=None)
        return ast.copy_location(ast.Return(value=ast.Tuple(elts=[ast.Constant(value="ret"), v], ctx=ast.Load())), node)

    def visit_FunctionDef(self, node):     # do not descend into nested defs
        return node

    visit_Lambda = visit_FunctionDef


def _stored_names(stmts):
    out = []
    for s in stmts:
        for n in ast.walk(s):
            if isinstance(n, ast.Name) and isinstance(n.ctx, (ast.Store, ast.Del)) and n.id not in out:
                out.append(n.id)
    return out


def _state_return(names):
    # return ("state", {name: name for names that are bound})
    return ast.Return(value=ast.Tuple(elts=[
        ast.Constant(value="state"),
        ast.Call(func=ast.Name(id="__symx_pick__", ctx=ast.Load()),
                 args=[ast.Call(func=ast.Name(id="locals", ctx=ast.Load()), args=[], keywords=[]),
                       ast.Constant(value=tuple(names))], keywords=[])], ctx=ast.Load()))


def _pick(loc, names):
    return {k: loc[k] for k in names if k in loc}


def cut(func, rewriter=None):
    src = textwrap.dedent(inspect.getsource(func))
    tree = ast.parse(src)
    fdef = tree.body[0]
    if not isinstance(fdef, ast.FunctionDef):
        raise LoopCutError("not a function")
    loops = [i for i, s in enumerate(fdef.body) if isinstance(s, ast.While)]
    if len(loops) != 1:
        raise LoopCutError("%d top-level while loops in %s" % (len(loops), func.__name__))
    k = loops[0]
    loop = fdef.body[k]
    if loop.orelse:
        raise LoopCutError("while/else")
    for n in ast.walk(loop):
        if isinstance(n, (ast.Break, ast.Continue)):
            raise LoopCutError("break/continue in loop")
    pre, body, post = fdef.body[:k], loop.body, fdef.body[k + 1:]
    params = [a.arg for a in fdef.args.posonlyargs + fdef.args.args + fdef.args.kwonlyargs]
    names = list(params)
    for n in _stored_names(pre) + _stored_names(body):
        if n not in names:
            names.append(n)
    rw = _RetWrap()

    def mk(name, args, stmts, final):
        stmts = [rw.visit(s) for s in stmts]
        f = ast.FunctionDef(name=name, args=ast.arguments(posonlyargs=[], args=[ast.arg(arg=a) for a in args], vararg=None,
                                                          kwonlyargs=[], kw_defaults=[], kwarg=None,
                                                          defaults=[ast.Constant(value=None) for _ in args] if name != "__init_fn" else []),
                            body=stmts + [final], decorator_list=[], returns=None, type_params=[])
        return f
    import copy
    init_f = mk("__init_fn", params, copy.deepcopy(pre), _state_return(names))
    body_f = mk("__body_fn", names, copy.deepcopy(body), _state_return(names))
    cond_f = mk("__cond_fn", names, [], ast.Return(value=copy.deepcopy(loop.test)))
    tail_stmts = copy.deepcopy(post)
    tail_f = ast.FunctionDef(name="__tail_fn", args=ast.arguments(posonlyargs=[], args=[ast.arg(arg=a) for a in names], vararg=None,
                                                                  kwonlyargs=[], kw_defaults=[], kwarg=None,
                                                                  defaults=[ast.Constant(value=None) for _ in names]),
                             body=tail_stmts or [ast.Return(value=ast.Constant(value=None))], decorator_list=[], returns=None,
                             type_params=[])
    mod = ast.Module(body=[init_f, body_f, cond_f, tail_f], type_ignores=[])
    if rewriter is not None:
        mod = rewriter(mod)
    ast.fix_missing_locations(mod)
    g = dict(func.__globals__)
    g["__symx_pick__"] = _pick
    code = compile(mod, inspect.getsourcefile(func) or "<loopcut>", "exec")
    exec(code, g)
    return {"init": g["__init_fn"], "body": g["__body_fn"], "cond": g["__cond_fn"], "tail": g["__tail_fn"],
            "vars": names, "params": params, "globals": g}
