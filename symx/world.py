"""symx.world -- run the real /repo source with shadow-aware builtins.

install() puts a meta-path finder in front of the normal one for the package `py_ecc`.
Each module is read from the file currently in the repository, gets one mechanical AST
pass (method calls `o.m(a)` are routed through __symx_m__, which only intervenes when `o`
is an instance of a C-implemented type and an argument is a shadow value), and is executed
in a module dict in which the builtin names int, bytes, bytearray, len, range, pow, bool,
abs, ord, divmod, sum, min, max, set and the modules math, hmac, hashlib are bound to
shims.  The shims pass concrete values straight to the real builtins, so import-time
self-checks of py_ecc run concretely through the same instrumented code.
"""
import ast
import builtins
import importlib.abc
import importlib.machinery
import math as _math
import hmac as _hmac
import hashlib as _hashlib
import os
import sys

from . import core
from .core import SymZ, SymBool, SymQ, Unsupported, is_shadow

REPO = os.environ.get("VERIF_REPO", "/repo")

# --------------------------------------------------------------------------
# shims


def _is_sym_int(x):
    if isinstance(x, (SymZ,)):
        return True
    t = type(x)
    return getattr(t, "__symx_shadow__", False) and getattr(t, "__symx_int__", True) and not getattr(t, "__symx_bytes__", False)


class _IntMeta(type):
    def __instancecheck__(cls, x):
        return isinstance(x, builtins.int) or _is_sym_int(x)

    def __subclasscheck__(cls, c):
        return issubclass(c, builtins.int)

    def __eq__(cls, other):
        return other is cls or other is builtins.int

    def __hash__(cls):
        return hash(builtins.int)


class IntShim(metaclass=_IntMeta):
    def __new__(cls, x=0, base=None):
        if base is not None:
            return builtins.int(x, base)
        if isinstance(x, SymZ):
            return x
        if isinstance(x, SymBool):
            return x.as_int()
        if isinstance(x, SymQ):
            # int() truncates toward zero; only non-negative quotients are modelled
            return x.floor()
        if getattr(type(x), "__symx_shadow__", False):
            return x
        f = getattr(type(x), "__int__", None)
        if f is not None and not isinstance(x, (builtins.int, float, str, bytes)):
            r = f(x)
            if isinstance(r, (SymZ,)) or getattr(type(r), "__symx_shadow__", False):
                return r
            if isinstance(r, SymBool):
                return r.as_int()
            return builtins.int(r)
        return builtins.int(x)

    @staticmethod
    def from_bytes(b, byteorder="big", *, signed=False):
        from . import sbytes
        if isinstance(b, sbytes.SymBytes):
            return sbytes.bytes_to_int(b, byteorder, signed)
        return builtins.int.from_bytes(b, byteorder, signed=signed)

    @staticmethod
    def to_bytes(x, length=1, byteorder="big", *, signed=False):
        if isinstance(x, SymZ):
            return x.to_bytes(length, byteorder, signed)
        return builtins.int.to_bytes(x, length, byteorder, signed=signed)


class _BytesMeta(type):
    def __instancecheck__(cls, x):
        return isinstance(x, builtins.bytes) or getattr(type(x), "__symx_bytes__", False) and not getattr(x, "mutable", False)

    def __eq__(cls, other):
        return other is cls or other is builtins.bytes

    def __hash__(cls):
        return hash(builtins.bytes)


class BytesShim(metaclass=_BytesMeta):
    def __new__(cls, x=b"", *a):
        from . import sbytes
        if isinstance(x, sbytes.SymBytes):
            return x.frozen()
        if a:
            return builtins.bytes(x, *a)
        if isinstance(x, SymZ):
            n = core.concretize(x)
            return builtins.bytes(n)
        if not isinstance(x, (builtins.bytes, bytearray, builtins.int, str, memoryview)):
            items = list(x)
            if any(is_shadow(i) for i in items):
                return sbytes.from_items(items)
            return builtins.bytes(items)
        return builtins.bytes(x)

    fromhex = builtins.bytes.fromhex

    @staticmethod
    def join(sep, parts):
        return _join(sep, parts)


class _BytearrayMeta(type):
    def __instancecheck__(cls, x):
        return isinstance(x, builtins.bytearray) or (getattr(type(x), "__symx_bytes__", False) and getattr(x, "mutable", False))


class BytearrayShim(metaclass=_BytearrayMeta):
    def __new__(cls, x=b"", *a):
        from . import sbytes
        if isinstance(x, sbytes.SymBytes):
            return x.thawed()
        if isinstance(x, SymZ):
            x = core.concretize(x)
        if core.active() and getattr(core.cur(), "sym_bytearray", False):
            return sbytes.SymBytes.concrete(builtins.bytes(builtins.bytearray(x, *a))).thawed()
        return builtins.bytearray(x, *a)


def _join(sep, parts):
    from . import sbytes
    parts = list(parts)
    if any(isinstance(p, sbytes.SymBytes) for p in parts) or isinstance(sep, sbytes.SymBytes):
        out = sbytes.SymBytes.concrete(b"")
        first = True
        for p in parts:
            if not first and len(sep):
                out = out + sep
            out = out + p
            first = False
        return out
    return sep.join(parts)


def len_shim(x):
    f = getattr(type(x), "__symx_len__", None)
    if f is not None:
        return f(x)
    return builtins.len(x)


class _RangeMeta(type):
    def __instancecheck__(cls, x):
        return isinstance(x, builtins.range)


class RangeShim(metaclass=_RangeMeta):
    def __new__(cls, *a):
        if not any(isinstance(v, SymZ) for v in a):
            return builtins.range(*a)
        return _sym_range(*a)


def _sym_range(*a):
    """range with symbolic bounds: a generator that forks on `i < stop` each iteration, up to
    the context's unwinding bound (PathLimit beyond it -- an unwinding assertion)."""
    if len(a) == 1:
        start, stop, step = 0, a[0], 1
    elif len(a) == 2:
        start, stop, step = a[0], a[1], 1
    else:
        start, stop, step = a
    if isinstance(step, SymZ):
        step = core.concretize(step)
    if step == 0:
        raise ValueError("range() arg 3 must not be zero")
    ctx = core.cur()
    bound = getattr(ctx, "unwind", 64)

    def gen():
        i = start
        n = 0
        while True:
            cond = (i < stop) if step > 0 else (i > stop)
            if isinstance(cond, SymBool):
                cond = bool(cond)
            if not cond:
                return
            if n >= bound:
                raise core.UnwindBound("unwinding bound %d reached in range()" % bound)
            yield i
            i = i + step
            n += 1
    return gen()


def _modinv_contract(a, n):
    """builtin pow(a, -1, n) on exact symbolic integers (Python >= 3.8): the v in [0, n) with a*v == 1 (mod n); ValueError when a
    is not invertible.  Invertibility is decided for a == 0 (mod n) (not invertible) and assumed otherwise -- sound for prime n, the
    only moduli this code base inverts by; the assumption is checked for satisfiability on the path, else the call is Unsupported."""
    import z3
    ctx = core.cur()
    a, n = SymZ.lift(a), SymZ.lift(n)
    if a is None or n is None:
        raise Unsupported("pow(a, -1, n) on %r, %r" % (a, n))
    am = a % n
    if ctx.branch(am.t == am._c(0)):
        raise ValueError("base is not invertible for the given modulus")
    v = SymZ.var(ctx.fresh_name("modinv"), 0, None, assume_bounds=False)
    bv = isinstance(ctx.backend, tuple)
    fact = z3.And(v.t >= 0, v.t < n.t, ((am * v) % n).t == v._c(1)) if not bv else z3.And(v.t >= 0, v.t < n.t, ((am * v) % n).t == v._c(1))
    r, _ = ctx.satisfiable([fact], timeout_ms=20000)
    if r != "sat":
        raise Unsupported("pow(a, -1, n): invertibility of a modulo n not established on this path")
    ctx.add_fact(fact)
    if not bv:
        v.lo, v.hi = 0, n.hi - 1 if n.hi is not None else None
    return v


def pow_shim(b, e, m=None):
    if is_shadow(b) or is_shadow(e) or is_shadow(m):
        hook = getattr(core.cur(), "pow_hook", None) if core.active() else None
        if hook is not None:
            r = hook(b, e, m)
            if r is not None:
                return r
        if m is None:
            return b ** e
        if isinstance(b, SymZ) or isinstance(b, builtins.int):
            if isinstance(e, builtins.int) and 0 <= e <= 64:
                return SymZ.lift(b).__pow__(e, m)
            if isinstance(e, builtins.int) and e == -1:
                return _modinv_contract(b, m)
            raise Unsupported("modular exponentiation with %d-bit exponent on an exact integer (no contract installed)"
                              % (e.bit_length() if isinstance(e, builtins.int) else -1))
        return b.__pow__(e, m)
    return builtins.pow(b, e) if m is None else builtins.pow(b, e, m)


class _BoolMeta(type):
    def __instancecheck__(cls, x):
        return isinstance(x, builtins.bool)


class BoolShim(metaclass=_BoolMeta):
    def __new__(cls, x=False):
        return builtins.bool(x)      # forks through __bool__ of shadows


def abs_shim(x):
    return builtins.abs(x)


def ord_shim(x):
    if is_shadow(x):
        return x
    return builtins.ord(x)


def divmod_shim(a, b):
    if is_shadow(a) or is_shadow(b):
        return (a // b, a % b)
    return builtins.divmod(a, b)


def sum_shim(it, start=0):
    acc = start
    for x in it:
        acc = acc + x
    return acc


def _minmax(name):
    real = getattr(builtins, name)

    def f(*a, **k):
        flat = a[0] if len(a) == 1 else a
        flat = list(flat)
        if any(is_shadow(x) for x in flat):
            best = flat[0]
            for x in flat[1:]:
                c = (x < best) if name == "min" else (x > best)
                if c:
                    best = x
            return best
        return real(*a, **k)
    return f


class MathShim:
    def __getattr__(self, n):
        return getattr(_math, n)

    @staticmethod
    def ceil(x):
        if isinstance(x, SymQ):
            return x.ceil()
        if isinstance(x, SymZ):
            return x
        return _math.ceil(x)

    @staticmethod
    def floor(x):
        if isinstance(x, SymQ):
            return x.floor()
        if isinstance(x, SymZ):
            return x
        return _math.floor(x)


class HmacShim:
    def __getattr__(self, n):
        return getattr(_hmac, n)

    @staticmethod
    def new(key, msg=None, digestmod=None):
        from . import sbytes
        if sbytes.hash_model_active() or isinstance(key, sbytes.SymBytes) or isinstance(msg, sbytes.SymBytes):
            return sbytes.HmacObj(key, msg, digestmod)
        return _hmac.new(key, msg, digestmod)


class HashlibShim:
    def __getattr__(self, n):
        real = getattr(_hashlib, n)
        if n in ("sha256", "sha384", "sha512", "sha1", "sha3_256", "blake2b", "md5", "sha224"):
            from . import sbytes

            def ctor(data=b"", **kw):
                if sbytes.hash_model_active() or isinstance(data, sbytes.SymBytes):
                    return sbytes.HashObj(n, data)
                return real(data, **kw)
            ctor.__name__ = n
            ctor.__symx_hash_name__ = n
            return ctor
        return real


SHIMS = {
    "int": IntShim, "bytes": BytesShim, "bytearray": BytearrayShim, "len": len_shim, "range": RangeShim,
    "pow": pow_shim, "bool": BoolShim, "abs": abs_shim, "ord": ord_shim, "divmod": divmod_shim,
    "sum": sum_shim, "min": _minmax("min"), "max": _minmax("max"),
}
MODULE_SHIMS = {"math": MathShim(), "hmac": HmacShim(), "hashlib": HashlibShim()}

_C_TYPES = (builtins.bytes, builtins.bytearray, builtins.int, builtins.str, builtins.list, builtins.tuple)


def __symx_m__(obj, name, *args, **kw):
    """method-call dispatcher (AST pass).  Intervenes only for C-level receivers with shadow arguments."""
    if type(obj) in (builtins.bytes, builtins.bytearray) and name == "join":
        return _join(obj, args[0])
    if type(obj) is builtins.int and name == "to_bytes" and any(is_shadow(a) for a in args):
        raise Unsupported("int.to_bytes with symbolic length")
    if type(obj) is builtins.bytearray and name == "extend" and args and getattr(type(args[0]), "__symx_bytes__", False):
        raise Unsupported("bytearray.extend(shadow) on a concrete bytearray: enable ctx.sym_bytearray")
    return getattr(obj, name)(*args, **kw)


class _Rewriter(ast.NodeTransformer):
    def visit_Call(self, node):
        self.generic_visit(node)
        f = node.func
        if isinstance(f, ast.Attribute) and isinstance(f.ctx, ast.Load):
            if isinstance(f.value, ast.Call) and isinstance(f.value.func, ast.Name) and f.value.func.id == "super":
                return node
            if any(isinstance(a, ast.Starred) for a in node.args) or any(k.arg is None for k in node.keywords):
                return node
            new = ast.Call(
                func=ast.Name(id="__symx_m__", ctx=ast.Load()),
                args=[f.value, ast.Constant(value=f.attr)] + node.args,
                keywords=node.keywords)
            return ast.copy_location(new, node)
        return node


# --------------------------------------------------------------------------
# loader

class _Loader(importlib.abc.Loader):
    def __init__(self, origin):
        self.origin = origin

    def create_module(self, spec):
        return None

    def exec_module(self, module):
        d = module.__dict__
        d.update(SHIMS)
        d["__symx_m__"] = __symx_m__
        with open(self.origin) as f:
            src = f.read()
        tree = ast.parse(src, self.origin)
        tree = _Rewriter().visit(tree)
        ast.fix_missing_locations(tree)
        code = compile(tree, self.origin, "exec")
        # module-level `import math/hmac/hashlib` statements bind the real modules; rebind after exec
        exec(code, d)
        for k, v in MODULE_SHIMS.items():
            if k in d and getattr(d[k], "__name__", None) == k:
                d[k] = v
        # `from hashlib import sha256` (module level, and class attributes bound to it while the module body ran)
        real = {getattr(_hashlib, n): n for n in ("sha256", "sha384", "sha512", "sha3_256", "blake2b", "sha1") if hasattr(_hashlib, n)}
        for k, v in list(d.items()):
            try:
                if v in real:
                    d[k] = getattr(MODULE_SHIMS["hashlib"], real[v])
            except TypeError:
                continue
            if isinstance(v, type) and getattr(v, "__module__", None) == module.__name__:
                for ak, av in list(vars(v).items()):
                    try:
                        if av in real:
                            setattr(v, ak, staticmethod(getattr(MODULE_SHIMS["hashlib"], real[av])))
                    except TypeError:
                        pass

    def get_source(self, name):
        with open(self.origin) as f:
            return f.read()


class _Finder(importlib.abc.MetaPathFinder):
    def find_spec(self, name, path, target=None):
        if name == "py_ecc" or name.startswith("py_ecc."):
            if name == "py_ecc":
                spec = importlib.machinery.PathFinder.find_spec(name, [REPO])
            else:
                spec = importlib.machinery.PathFinder.find_spec(name, path)
            if spec is not None and spec.origin and spec.origin.endswith(".py"):
                if not os.path.realpath(spec.origin).startswith(os.path.realpath(REPO) + os.sep):
                    raise ImportError("py_ecc resolved outside %s: %s" % (REPO, spec.origin))
                spec.loader = _Loader(spec.origin)
            return spec
        return None


_INSTALLED = False


def install():
    global _INSTALLED
    if _INSTALLED:
        return
    for k in [k for k in sys.modules if k == "py_ecc" or k.startswith("py_ecc.")]:
        del sys.modules[k]
    sys.meta_path.insert(0, _Finder())
    sys.setrecursionlimit(max(100000, sys.getrecursionlimit()))
    _INSTALLED = True


def patched(module, **names):
    """context manager: temporarily rebind module globals (function-level stubbing)."""
    class _P:
        def __enter__(self_inner):
            self_inner.old = {k: module.__dict__.get(k, _MISSING) for k in names}
            module.__dict__.update(names)
            return module

        def __exit__(self_inner, *a):
            for k, v in self_inner.old.items():
                if v is _MISSING:
                    module.__dict__.pop(k, None)
                else:
                    module.__dict__[k] = v
            return False
    return _P()


_MISSING = object()
