"""symx.harness -- obligations, per-obligation worker processes, replay, evidence, exit codes.

An *obligation* is a Python function (in /verif/checks/cNN.py) that runs real py_ecc code
on symbolic values and asks the solver to discharge assertions.  The runner executes every
obligation of a property in its own process (killable, 16 at a time), replays every
counterexample against the unshimmed code under /venv/bin/python, consults
known_findings.json, writes evidence/<id>.json and sets the exit code:

  0  every obligation discharged (known findings are printed as KNOWN-FINDING lines)
  1  a replayed, reproducible counterexample that is not a known finding (VIOLATION line)
  2  inconclusive: solver unknown / outside the encoding / counterexample not reproduced
"""
import hashlib
import inspect
import json
import os
import subprocess
import sys
import time
import traceback

VERIF = os.path.dirname(os.path.dirname(os.path.abspath(__file__)))
REPO = os.environ.get("VERIF_REPO", "/repo")
PY = os.path.join(VERIF, ".venv", "bin", "python")
if not os.path.exists(PY):
    PY = "/verif/.venv/bin/python"      # snapshot worktrees (vp run) reuse the overlay built by setup.sh
PLAIN_PY = "/venv/bin/python"

REGISTRY = {}   # property id -> list of Obligation


class Obligation:
    def __init__(self, prop, name, fn, tier, bound, desc, timeout, group):
        self.prop = prop
        self.name = name
        self.fn = fn
        self.tier = tier          # "quick": run in both tiers; "thorough": thorough only
        self.bound = bound
        self.desc = desc
        self.timeout = timeout
        self.group = group


def obligation(prop, name=None, *, tier="quick", bound="", desc="", timeout=None, group=None):
    def deco(fn):
        nm = name or fn.__name__
        REGISTRY.setdefault(prop, []).append(
            Obligation(prop, nm, fn, tier, bound, desc or (fn.__doc__ or "").strip(), timeout, group))
        return fn
    return deco


class Report:
    """collected by an obligation while it runs (inside the worker)."""
    replay_hook = None

    def __init__(self, ob, tier):
        self.ob = ob
        self.tier = tier
        self.functions = {}
        self.discharged = []
        self.failed = []
        self.inconclusive = []
        self.notes = []
        self.paths = 0
        self.paths_infeasible = 0
        self.assumptions = []
        self.trusted = []
        self.stubs = []
        self.samples = []
        self.bounds = [ob.bound] if ob.bound else []
        self.nontrivial = set()
        self.replay_specs = {}      # distinct replay specifications attached to DISCHARGED goals (self-test of the replayers)

    def replay_seen(self, replay):
        try:
            k = json.dumps(replay, sort_keys=True)
        except Exception:
            return
        if k not in self.replay_specs and len(self.replay_specs) < 6:
            self.replay_specs[k] = replay

    # what was encoded
    def encoded(self, *fns):
        for f in fns:
            try:
                src = inspect.getsource(f)
                mod = getattr(f, "__module__", "?")
                qn = getattr(f, "__qualname__", getattr(f, "__name__", "?"))
                self.functions["%s:%s" % (mod, qn)] = hashlib.sha1(src.encode()).hexdigest()[:12]
            except Exception:
                self.functions[repr(f)] = "nosource"

    def ok(self, what, *, path=None, nontrivial=True):
        self.discharged.append(what)
        if nontrivial:
            self.nontrivial.add(what if path is None else "%s @ %s" % (what, path))
        if len(self.samples) < 4:
            self.samples.append({"obligation": self.ob.name, "query": what, "path": str(path), "verdict": "unsat"})

    def fail(self, what, replay, *, detail=""):
        """replay: {"kind": <function name in checks.replays>, "args": {...}} (JSON-able)."""
        if Report.replay_hook is not None and replay is not None:
            replay = Report.replay_hook(replay)
        self.failed.append({"what": what, "replay": replay, "detail": detail})

    def unknown(self, what, detail=""):
        self.inconclusive.append({"what": what, "detail": detail})

    def note(self, s):
        self.notes.append(s)

    def assume(self, s):
        if s not in self.assumptions:
            self.assumptions.append(s)

    def trust(self, s):
        if s not in self.trusted:
            self.trusted.append(s)

    def stub(self, s):
        if s not in self.stubs:
            self.stubs.append(s)

    def bound(self, s):
        if s not in self.bounds:
            self.bounds.append(s)

    def as_dict(self, stats, wall):
        return dict(prop=self.ob.prop, name=self.ob.name, desc=self.ob.desc, tier=self.tier,
                    functions=self.functions, discharged=self.discharged, failed=self.failed,
                    inconclusive=self.inconclusive, notes=self.notes, paths=self.paths,
                    paths_infeasible=self.paths_infeasible, assumptions=self.assumptions,
                    trusted=self.trusted, stubs=self.stubs, samples=self.samples, bounds=self.bounds,
                    nontrivial=sorted(self.nontrivial), stats=stats, wall_s=round(wall, 3),
                    replay_specs=list(self.replay_specs.values()))


def load_checks(prop):
    sys.path.insert(0, VERIF)
    __import__("checks.%s" % prop.lower())
    return REGISTRY.get(prop, [])


# ---------------------------------------------------------------------------
# worker

def worker_main(prop, name, tier, outfile):
    import resource
    try:
        resource.setrlimit(resource.RLIMIT_AS, (14 << 30, 14 << 30))
    except Exception:
        pass
    sys.setrecursionlimit(100000)
    try:
        sys.set_int_max_str_digits(0)
    except Exception:
        pass
    t0 = time.time()
    from . import core
    if "SYMX_CROSSCHECK" not in os.environ:
        # second-solver diff: a sample per obligation in the quick tier, a larger one in the thorough tier
        core.CROSS["max"] = 30 if tier == "quick" else 300
        core.CROSS["timeout_ms"] = 3000 if tier == "quick" else 10000
    if os.environ.get("SYMX_DEADLINE"):
        core.DEADLINE[0] = t0 + float(os.environ["SYMX_DEADLINE"])
    obs = {o.name: o for o in load_checks(prop)}
    ob = obs[name]
    rep = Report(ob, tier)
    try:
        ob.fn(rep, tier)
    except (core.Unsupported, core.PathLimit) as e:
        rep.unknown("outside the encoding: %s" % (e,), traceback.format_exc()[-1500:])
    except MemoryError:
        rep.unknown("out of memory in the worker")
    except Exception as e:
        modname = None
        tb = e.__traceback__
        while tb is not None:
            fr = tb.tb_frame
            if fr.f_code.co_name == "<module>" and fr.f_code.co_filename.startswith(os.path.realpath(REPO) + os.sep):
                modname = fr.f_globals.get("__name__")
            tb = tb.tb_next
        if modname:
            rep.fail("import of %s fails on this tree: %s: %s" % (modname, type(e).__name__, e),
                     {"kind": "import", "args": {"module": modname}})
        else:
            rep.unknown("harness exception: %s: %s" % (type(e).__name__, e), traceback.format_exc()[-2500:])
    for a in core.ABORTS[:20]:
        rep.unknown("path not covered: %s" % a)
    for i, txt in enumerate(core.STATS.cross_disagree[:3]):
        os.makedirs(os.path.join(VERIF, ".work"), exist_ok=True)
        pth = os.path.join(VERIF, ".work", "disagree_%s_%s_%d.smt2" % (prop, name, i))
        with open(pth, "w") as f:
            f.write(txt)
        rep.unknown("SOLVERS DISAGREE: z3 answered unsat, cvc5 answered sat on %s" % pth)
    d = rep.as_dict(core.STATS.as_dict(), time.time() - t0)
    with open(outfile, "w") as f:
        json.dump(d, f)


# ---------------------------------------------------------------------------
# runner

def _run_replay(path):
    """run replay under the plain interpreter (no shims).  0 = mismatch reproduced."""
    env = dict(os.environ)
    env["PYTHONPATH"] = VERIF if os.path.realpath(REPO) == "/repo" else REPO + os.pathsep + VERIF      # VERIF_REPO: replay against that tree
    env.pop("VERIF_WORLD", None)
    try:
        p = subprocess.run([PLAIN_PY, os.path.join(VERIF, "replay.py"), path], capture_output=True,
                           text=True, timeout=1800, env=env, cwd="/")
    except subprocess.TimeoutExpired:
        return 4, "replay timed out"
    return p.returncode, (p.stdout + p.stderr)[-3000:]


def load_known():
    p = os.path.join(VERIF, "known_findings.json")
    if not os.path.exists(p):
        return []
    with open(p) as f:
        return json.load(f).get("findings", [])


def match_known(prop, failure, known):
    """a finding matches when property and replay kind agree and every key of its `match`
    dict equals the corresponding replay argument."""
    rp = failure.get("replay") or {}
    for k in known:
        if k.get("status", "open") != "open" or k.get("property") != prop:
            continue
        if k.get("replay_kind") and k["replay_kind"] != rp.get("kind"):
            continue
        m = k.get("match", {})
        args = rp.get("args", {})
        if all(args.get(a) == v for a, v in m.items()):
            return k
    return None


def run_property(prop, tier, jobs=None, only=None):
    t_start = time.time()
    seed = int(os.environ.get("VERIF_SEED", "0") or 0)
    jobs = jobs or int(os.environ.get("VERIF_JOBS", "16"))
    obs = [o for o in load_checks(prop) if tier == "thorough" or o.tier == "quick"]
    if only:
        obs = [o for o in obs if any(s in o.name for s in only)]
    if not obs:
        print("no obligations registered for %s" % prop)
        return 2
    if seed:
        import random
        random.Random(seed).shuffle(obs)
    work = os.path.join(VERIF, ".work", "%s-%d" % (prop, os.getpid()))
    os.makedirs(work, exist_ok=True)
    os.makedirs(os.path.join(VERIF, "replays"), exist_ok=True)
    os.makedirs(os.path.join(VERIF, "evidence"), exist_ok=True)
    pending = list(obs)
    running = []
    results = {}
    default_to = 600 if tier == "quick" else 7200
    while pending or running:
        while pending and len(running) < jobs:
            o = pending.pop(0)
            out = os.path.join(work, o.name + ".json")
            log = open(os.path.join(work, o.name + ".log"), "w")
            env = dict(os.environ)
            env["PYTHONPATH"] = VERIF
            env["PYTHONHASHSEED"] = "0"
            to = o.timeout or default_to
            if tier == "thorough" and o.timeout:
                to = o.timeout * 4
            env["SYMX_DEADLINE"] = str(int(to * 0.8))
            p = subprocess.Popen([PY, os.path.join(VERIF, "run.py"), "--worker", prop, o.name, tier, out],
                                 stdout=log, stderr=subprocess.STDOUT, env=env, cwd=VERIF)
            running.append((o, p, time.time(), out, log, to))
        time.sleep(0.05)
        still = []
        for (o, p, t0, out, log, to) in running:
            rc = p.poll()
            if rc is None:
                if time.time() - t0 > to:
                    p.kill()
                    p.wait()
                    log.close()
                    results[o.name] = dict(prop=prop, name=o.name, desc=o.desc, tier=tier, functions={}, discharged=[],
                                           failed=[], inconclusive=[{"what": "worker timeout after %ds" % to, "detail": ""}],
                                           notes=[], paths=0, paths_infeasible=0, assumptions=[], trusted=[], stubs=[],
                                           samples=[], bounds=[o.bound], nontrivial=[], stats={}, wall_s=time.time() - t0)
                else:
                    still.append((o, p, t0, out, log, to))
                continue
            log.close()
            if os.path.exists(out):
                with open(out) as f:
                    results[o.name] = json.load(f)
            else:
                with open(os.path.join(work, o.name + ".log")) as f:
                    tail = f.read()[-2000:]
                results[o.name] = dict(prop=prop, name=o.name, desc=o.desc, tier=tier, functions={}, discharged=[], failed=[],
                                       inconclusive=[{"what": "worker died rc=%s" % rc, "detail": tail}], notes=[],
                                       paths=0, paths_infeasible=0, assumptions=[], trusted=[], stubs=[], samples=[],
                                       bounds=[o.bound], nontrivial=[], stats={}, wall_s=time.time() - t0)
        running = still

    # ---- verdicts
    known = load_known()
    violations = []
    known_hits = []
    harness_errors = []
    replay_cache = {}
    per_ob = {}
    tot_ob = {}
    for o in obs:
        r = results[o.name]
        for fl in r["failed"]:
            rp = fl.get("replay")
            ck = (o.name, json.dumps(rp, sort_keys=True))
            pk = (o.name, fl["what"].split(" [path")[0])
            per_ob[pk] = per_ob.get(pk, 0) + 1
            tot_ob[o.name] = tot_ob.get(o.name, 0) + (0 if ck in replay_cache else 1)
            if (per_ob[pk] > 3 or tot_ob[o.name] > 8) and ck not in replay_cache:
                fl["replay_skipped"] = "replay budget of this obligation used up (3 per query, 8 per obligation)"
                continue
            if ck in replay_cache:
                replay_cache[ck]["also"] = replay_cache[ck].get("also", 0) + 1
                continue
            replay_cache[ck] = fl
            if not rp:
                harness_errors.append("%s: counterexample without replay: %s" % (o.name, fl["what"]))
                continue
            blob = json.dumps({"property": prop, "obligation": o.name, "what": fl["what"], "replay": rp,
                               "detail": fl.get("detail", "")}, sort_keys=True, indent=1)
            dig = hashlib.sha1(blob.encode()).hexdigest()[:10]
            path = os.path.join(VERIF, "replays", "%s-%s.json" % (prop, dig))
            with open(path, "w") as f:
                f.write(blob)
            rc, outp = _run_replay(path)
            fl["replay_file"] = path
            fl["replay_rc"] = rc
            fl["replay_output"] = outp[-600:]
            if rc == 0:
                k = match_known(prop, fl, known)
                if k is not None:
                    known_hits.append((k, fl))
                else:
                    violations.append((o, fl, path))
            else:
                harness_errors.append("%s: counterexample did not reproduce on the real code (rc=%s): %s | %s"
                                      % (o.name, rc, fl["what"], outp[-300:]))
    inconclusive = [(o.name, i) for o in obs for i in results[o.name]["inconclusive"]]

    # self-test of the replayers (SYMX_SELFTEST_REPLAYS=1): a replay specification attached to a goal that was DISCHARGED must
    # not "reproduce" anything on this tree, otherwise the replayer would confirm any alarm
    if os.environ.get("SYMX_SELFTEST_REPLAYS"):
        done = set()
        for o in obs:
            if results[o.name]["failed"]:
                continue
            for rp in results[o.name].get("replay_specs", []):
                blob = json.dumps({"property": prop, "obligation": o.name, "what": "replayer self-test", "replay": rp}, sort_keys=True)
                if blob in done:
                    continue
                done.add(blob)
                k0 = [k for k in known if k.get("property") == prop and k.get("replay_kind") == rp.get("kind")]
                path = os.path.join(VERIF, ".work", "selftest-%s-%s.json" % (prop, hashlib.sha1(blob.encode()).hexdigest()[:10]))
                os.makedirs(os.path.dirname(path), exist_ok=True)
                with open(path, "w") as f:
                    f.write(blob)
                rc, outp = _run_replay(path)
                os.unlink(path)
                print("REPLAY-SELFTEST %s %s rc=%s %s" % (o.name, rp.get("kind"), rc, "" if rc == 3 else outp[-200:].replace("\n", " ")))
                if rc != 3 and not k0:
                    harness_errors.append("%s: replayer %s claims a reproduction (rc=%s) for a discharged goal: %s" % (o.name, rp.get("kind"), rc, outp[-200:]))

    seen = set()
    for k, fl in known_hits:
        if k["id"] in seen:
            continue
        seen.add(k["id"])
        print("KNOWN-FINDING: property=%s %s" % (prop, k["what"]))
    for o, fl, path in violations:
        print("VIOLATION property=%s replay=%s" % (prop, path))
        print("  obligation %s: %s" % (o.name, fl["what"]))
    for h in harness_errors:
        print("HARNESS-ERROR %s" % h)
    for n, i in inconclusive:
        print("INCONCLUSIVE %s: %s %s" % (n, i["what"], (i.get("detail") or "")[-400:].replace("\n", " | ")))

    # ---- evidence
    wall = time.time() - t_start
    n_ob = len(obs)
    n_dis = sum(1 for o in obs if not results[o.name]["failed"] and not results[o.name]["inconclusive"])
    queries = sum(results[o.name].get("stats", {}).get("queries", 0) for o in obs)
    nontrivial = set()
    for o in obs:
        for s in results[o.name]["nontrivial"]:
            nontrivial.add(o.name + "::" + s)
    functions = {}
    for o in obs:
        functions.update(results[o.name]["functions"])

    def uniq(key):
        out = []
        for o in obs:
            for s in results[o.name][key]:
                if s and s not in out:
                    out.append(s)
        return out
    samples = []
    for o in obs:
        samples.extend(results[o.name]["samples"][:1])
    samples = samples[:12] or [{"note": "no discharged query"}]
    ev = {
        "property_id": prop,
        "tier": tier,
        "seed": seed,
        "level": "model_checking",
        "wall_s": round(wall, 2),
        "violations": len(violations),
        "assumptions": uniq("assumptions") + ["TRUSTED: " + t for t in uniq("trusted")],
        "coverage": {
            "evaluations": queries + sum(len(results[o.name]["discharged"]) for o in obs),
            "distinct_nontrivial": len(nontrivial),
            "rule": "evaluations = solver queries issued (feasibility + obligation + identity queries) + harness assertions evaluated "
                    "(each discharged entry: a solver verdict turned into a report line, or a ground / call-trace comparison); "
                    "distinct_nontrivial = distinct (obligation, query, path) triples that were discharged with a "
                    "non-trivially-true goal on a feasible path, counted by the harness",
            "samples": samples,
            "obligations": n_ob,
            "discharged": n_dis,
            "inconclusive": len(inconclusive),
            "known_findings_hit": sorted(seen),
            "harness_errors": harness_errors,
            "paths_explored": sum(results[o.name]["paths"] for o in obs),
            "paths_infeasible": sum(results[o.name]["paths_infeasible"] for o in obs),
            "solver_s": round(sum(results[o.name].get("stats", {}).get("solver_s", 0) for o in obs), 2),
            "solver_verdicts": {k: sum(results[o.name].get("stats", {}).get(k, 0) for o in obs)
                                for k in ("unsat", "sat", "unknown", "identity_queries")},
            "second_solver": dict({k: round(sum(results[o.name].get("stats", {}).get(k, 0) for o in obs), 2)
                                   for k in ("cross_checked", "cross_agree", "cross_undecided", "cross_disagree", "cross_s")},
                                  what="cvc5 1.4 re-decides a sample of the queries z3 answered unsat (path pruning and goals); "
                                       "undecided = cvc5 timeout / unsupported syntax; a disagreement makes the obligation inconclusive"),
            "functions_encoded": functions,
            "bounds": uniq("bounds"),
            "stubs_and_contracts": uniq("stubs"),
            "trusted_base": uniq("trusted"),
            "per_obligation": [
                {"name": o.name, "desc": o.desc, "bound": o.bound,
                 "verdict": ("violated" if results[o.name]["failed"] else
                             "inconclusive" if results[o.name]["inconclusive"] else "discharged"),
                 "queries_discharged": len(results[o.name]["discharged"]),
                 "paths": results[o.name]["paths"], "wall_s": results[o.name]["wall_s"],
                 "solver": results[o.name].get("stats", {}), "notes": results[o.name]["notes"][:8]}
                for o in obs],
            "exhaustive": False,
            "repo": REPO,
        },
    }
    evp = os.path.join(VERIF, "evidence", "%s.json" % prop)
    with open(evp, "w") as f:
        json.dump(ev, f, indent=1, sort_keys=True)
    try:
        import jsonschema
        with open("/root/.vp/EVIDENCE.schema.json") as f:
            jsonschema.validate(ev, json.load(f))
    except ImportError:
        pass
    except FileNotFoundError:
        pass
    except Exception as e:
        print("EVIDENCE-INVALID %s" % (str(e).splitlines()[0],))
    # clean work dir
    try:
        import shutil
        shutil.rmtree(work)
    except Exception:
        pass
    print("%s tier=%s obligations=%d discharged=%d violations=%d known=%d inconclusive=%d harness_errors=%d queries=%d wall=%.1fs"
          % (prop, tier, n_ob, n_dis, len(violations), len(seen), len(inconclusive), len(harness_errors), queries, wall))
    if violations:
        return 1
    if harness_errors or inconclusive:
        return 2
    return 0
