"""symx.core -- path explorer, symbolic booleans and exact symbolic integers.

The code under test is the real py_ecc source (see symx.world).  Shadow values
defined here build z3 terms; every branch on a symbolic condition goes through
Ctx.branch, which asks the solver whether the condition is decided under the
current path condition and otherwise forks.  Exploration is depth first over
decision vectors with re-execution from scratch (the code under test is pure).
"""
import os
import time
import z3

# --------------------------------------------------------------------------
# control-flow exceptions (BaseException: never caught by the code under test)


class Unsupported(BaseException):
    """The code under test used an operation the encoding does not model."""


class PathLimit(BaseException):
    """Unwinding / path budget exhausted on this path."""


class UnwindBound(PathLimit):
    """a loop over a symbolic trip count wanted one more iteration than the stated unwinding bound
    (unwinding assertion): the path is handed to the harness as kind "unwind", not counted as covered."""


class Stats:
    def __init__(self):
        self.queries = 0
        self.unsat = 0
        self.sat = 0
        self.unknown = 0
        self.solver_s = 0.0
        self.identity_queries = 0
        # second solver (cvc5) on a sample of the queries z3 answered `unsat`
        self.cross_checked = 0
        self.cross_agree = 0
        self.cross_undecided = 0
        self.cross_disagree = []
        self.cross_s = 0.0

    def as_dict(self):
        return dict(queries=self.queries, unsat=self.unsat, sat=self.sat,
                    unknown=self.unknown, solver_s=round(self.solver_s, 3),
                    identity_queries=self.identity_queries,
                    cross_checked=self.cross_checked, cross_agree=self.cross_agree, cross_undecided=self.cross_undecided,
                    cross_disagree=len(self.cross_disagree), cross_s=round(self.cross_s, 3))


STATS = Stats()
ABORTS = []        # paths that left the encoding / hit a budget: reported as inconclusive by the worker
DEADLINE = [None]     # soft wall-clock deadline of the worker (checked at every decision)


def check_deadline():
    if DEADLINE[0] is not None and time.time() > DEADLINE[0]:
        raise PathLimit("time budget of the obligation exhausted")


CROSS = {"max": int(os.environ.get("SYMX_CROSSCHECK", "0") or 0), "timeout_ms": int(os.environ.get("SYMX_CROSSCHECK_MS", "8000"))}


def _cross_check(solver):
    """diff a second solver on a sample of `unsat` verdicts (the verdicts that prune paths and discharge goals): the first 12, then
    every 7th, up to CROSS["max"] per obligation.  cvc5 `sat` against z3 `unsat` is a harness error; cvc5 timeouts / unsupported
    syntax are counted as undecided."""
    n = STATS.unsat
    if STATS.cross_checked >= CROSS["max"] or (n > 12 and n % 7):
        return
    t0 = time.time()
    verdict = "undecided"
    try:
        import cvc5
        txt = solver.to_smt2()
        slv = cvc5.Solver()
        slv.setOption("tlimit-per", str(CROSS["timeout_ms"]))
        slv.setLogic("ALL")
        p = cvc5.InputParser(slv)
        p.setStringInput(cvc5.InputLanguage.SMT_LIB_2_6, txt, "q")
        sm = p.getSymbolManager()
        out = ""
        while True:
            cmd = p.nextCommand()
            if cmd.isNull():
                break
            out = str(cmd.invoke(slv, sm)).strip() or out
        if out == "unsat":
            verdict = "agree"
        elif out == "sat":
            verdict = "disagree"
    except BaseException as e:   # parse errors, unsupported operators, resource limits of the second solver
        if isinstance(e, (KeyboardInterrupt, SystemExit)):
            raise
        verdict = "undecided"
    STATS.cross_checked += 1
    STATS.cross_s += time.time() - t0
    if verdict == "agree":
        STATS.cross_agree += 1
    elif verdict == "disagree":
        STATS.cross_disagree.append(txt[:20000])
    else:
        STATS.cross_undecided += 1


def timed_check(solver, *extra):
    t0 = time.time()
    r = solver.check(*extra)
    STATS.solver_s += time.time() - t0
    STATS.queries += 1
    s = str(r)
    if s == "unsat":
        STATS.unsat += 1
        if CROSS["max"] and not extra:
            _cross_check(solver)
    elif s == "sat":
        STATS.sat += 1
    else:
        STATS.unknown += 1
    return s


# --------------------------------------------------------------------------
# context

_CUR = None


def cur():
    if _CUR is None:
        raise RuntimeError("no active symx context")
    return _CUR


def active():
    return _CUR is not None


class Ctx:
    """One path of one exploration."""

    def __init__(self, prefix=(), *, backend="int", mul="nia", branch_timeout_ms=10000,
                 max_decisions=400, cache=None):
        self.prefix = list(prefix)
        self.taken = []          # decisions actually taken at genuine forks
        self.pc = []             # z3 Bool terms (path condition, incl. assumptions)
        self.assumptions = []    # subset of pc that were harness assumptions
        self.backend = backend   # "int" or ("bv", width)
        self.mul = mul           # "nia" or "uf"
        self.solver = z3.Solver()
        self.solver.set("timeout", branch_timeout_ms)
        self.max_decisions = max_decisions
        self.notes = []          # free-form records (stub calls, monitors)
        self.fresh_counter = 0
        self.feas_unknown = False
        self.ring = None         # set by symx.ring
        self.forks = 0
        self.implied = 0
        self.cache = cache
        self.ev_idx = 0
        self.mul_pairs = set()
        self.side = []           # bit-vector backend: exact no-overflow conditions of this path

    # -- activation
    def __enter__(self):
        global _CUR
        self._prev = _CUR
        _CUR = self
        return self

    def __exit__(self, *a):
        global _CUR
        _CUR = self._prev
        return False

    # -- fresh symbols
    def fresh_name(self, base):
        self.fresh_counter += 1
        return "%s!%d" % (base, self.fresh_counter)

    # -- assumptions
    def assume(self, cond):
        t = as_bool_term(cond)
        self.pc.append(t)
        self.assumptions.append(t)
        self.solver.add(t)

    def add_fact(self, t):
        """A fact that holds by construction (stub contract instance)."""
        self.pc.append(t)
        self.solver.add(t)

    # -- branching
    def branch(self, cond):
        check_deadline()
        c = z3.simplify(cond)
        if z3.is_true(c):
            return True
        if z3.is_false(c):
            return False
        c = cond          # keep the literal as built: rewriting inside uninterpreted-function arguments breaks congruence
        # re-execution cache: the same condition after the same decisions was classified on an earlier path
        key = (tuple(self.taken), self.ev_idx)
        self.ev_idx += 1
        hit = self.cache.get(key) if self.cache is not None else None
        if hit is not None and hit[0].eq(c):
            kind = hit[1]
            if kind == "implied_false":
                self.pc.append(z3.Not(c))
                self.solver.add(z3.Not(c))
                return False
            if kind == "implied_true":
                self.pc.append(c)
                self.solver.add(c)
                return True
            if hit[2]:
                self.feas_unknown = True
            return self._fork(c)
        self.solver.push()
        self.solver.add(c)
        r_t = timed_check(self.solver)
        self.solver.pop()
        if r_t == "unsat":
            self.implied += 1
            self.pc.append(z3.Not(c))
            self.solver.add(z3.Not(c))
            if self.cache is not None:
                self.cache[key] = (c, "implied_false", False)
            return False
        self.solver.push()
        self.solver.add(z3.Not(c))
        r_f = timed_check(self.solver)
        self.solver.pop()
        if r_f == "unsat":
            self.implied += 1
            self.pc.append(c)
            self.solver.add(c)
            if self.cache is not None:
                self.cache[key] = (c, "implied_true", False)
            return True
        unk = (r_t == "unknown" or r_f == "unknown")
        if unk:
            self.feas_unknown = True
        if self.cache is not None:
            self.cache[key] = (c, "fork", unk)
        return self._fork(c)

    def _fork(self, c):
        # genuine fork
        i = len(self.taken)
        if i >= self.max_decisions:
            raise PathLimit("more than %d decisions on one path" % self.max_decisions)
        if i < len(self.prefix):
            d = self.prefix[i]
        else:
            d = True
        self.taken.append(d)
        self.forks += 1
        lit = c if d else z3.Not(c)
        self.pc.append(lit)
        self.solver.add(lit)
        return d

    # -- proving
    def prove(self, goal, timeout_ms=30000, extra=()):
        """Return ("unsat"|"sat"|"unknown", model-or-None) for pc /\\ extra /\\ not goal."""
        s = z3.Solver()
        s.set("timeout", timeout_ms)
        for p in self.pc:
            s.add(p)
        for p in extra:
            s.add(p)
        s.add(z3.Not(as_bool_term(goal)))
        r = timed_check(s)
        return r, (s.model() if r == "sat" else None)

    def prove_side(self, timeout_ms=60000):
        """bit-vector backend: no arithmetic operation on this path can wrap around, hence the
        bit-vector execution coincides with the exact-integer execution."""
        if not self.side:
            return "unsat", None
        return self.prove(z3.And(*self.side), timeout_ms=timeout_ms)

    def satisfiable(self, extra=(), timeout_ms=30000):
        s = z3.Solver()
        s.set("timeout", timeout_ms)
        for p in self.pc:
            s.add(p)
        for p in extra:
            s.add(as_bool_term(p))
        r = timed_check(s)
        return r, (s.model() if r == "sat" else None)


class Path:
    def __init__(self, ctx, kind, value):
        self.ctx = ctx
        self.kind = kind      # "ret" | "exc" | "unsupported" | "limit"
        self.value = value
        self.pc = ctx.pc
        self.decisions = list(ctx.taken)

    def __repr__(self):
        return "<Path %s %s %r>" % (self.kind, self.decisions, self.value if self.kind != "ret" else "...")


def explore(run, *, max_paths=4000, ctx_kwargs=None, on_path=None):
    """Explore every feasible path of run(ctx).  on_path(path) is called inside the
    still-active context (so harness code can prove things about the result)."""
    ctx_kwargs = dict(ctx_kwargs or {})
    ctx_kwargs.setdefault("cache", {})
    work = [[]]
    paths = []
    while work:
        if len(paths) >= max_paths:
            raise PathLimit("more than %d paths" % max_paths)
        prefix = work.pop()
        ctx = Ctx(prefix, **ctx_kwargs)
        with ctx:
            try:
                v = run(ctx)
                p = Path(ctx, "ret", v)
            except Unsupported as e:
                p = Path(ctx, "unsupported", e)
            except UnwindBound as e:
                p = Path(ctx, "unwind", e)
            except PathLimit as e:
                p = Path(ctx, "limit", e)
            except Exception as e:  # exception raised by the code under test
                p = Path(ctx, "exc", e)
            if p.kind in ("unsupported", "limit"):
                ABORTS.append("%s on path %s" % (p.value, p.decisions))
            elif on_path is not None:
                on_path(p)          # may fork further (real code called by the harness on the result)
            for i in range(len(prefix), len(ctx.taken)):
                work.append(ctx.taken[:i] + [not ctx.taken[i]])
        paths.append(p)
    return paths


# --------------------------------------------------------------------------
# symbolic booleans

def as_bool_term(x):
    if isinstance(x, SymBool):
        return x.t
    if isinstance(x, bool):
        return z3.BoolVal(x)
    if z3.is_expr(x):
        return x
    if isinstance(x, SymZ):
        return x.t != x._c(0)
    raise Unsupported("cannot use %r as a condition" % (type(x),))


class SymBool:
    __slots__ = ("t",)

    def __init__(self, t):
        self.t = t

    def __bool__(self):
        return cur().branch(self.t)

    def __invert__(self):
        return SymBool(z3.Not(self.t))

    def __and__(self, o):
        return SymBool(z3.And(self.t, as_bool_term(o)))

    __rand__ = __and__

    def __or__(self, o):
        return SymBool(z3.Or(self.t, as_bool_term(o)))

    __ror__ = __or__

    def __eq__(self, o):
        if isinstance(o, (SymBool, bool)):
            return SymBool(self.t == as_bool_term(o))
        if isinstance(o, (int, SymZ)):
            return self.as_int() == o
        return NotImplemented

    def __ne__(self, o):
        r = self.__eq__(o)
        if r is NotImplemented:
            return r
        return SymBool(z3.Not(r.t))

    __hash__ = None

    def as_int(self):
        return SymZ(z3.If(self.t, SymZ._c(1), SymZ._c(0)), 0, 1)

    def __repr__(self):
        return "SymBool(%s)" % _short(self.t)

    def __format__(self, spec):
        return repr(self)


def _short(t, n=120):
    s = t.sexpr() if hasattr(t, "sexpr") else str(t)
    s = " ".join(s.split())
    return s if len(s) <= n else s[:n] + "..."


# --------------------------------------------------------------------------
# exact symbolic integers (z3 Int, or signed BitVec with interval tracking)

_MUL = None


def mul_uf():
    global _MUL
    if _MUL is None:
        _MUL = z3.Function("MUL", z3.IntSort(), z3.IntSort(), z3.IntSort())
    return _MUL


def _backend():
    return cur().backend if _CUR is not None else "int"


def _is_bv():
    b = _backend()
    return isinstance(b, tuple)


def _iv_add(a, b):
    return None if a is None or b is None else a + b


class SymZ:
    """Shadow of a Python int.  lo/hi: conservative bounds or None."""
    __slots__ = ("t", "lo", "hi")

    def __init__(self, t, lo=None, hi=None):
        self.t = t
        self.lo = lo
        self.hi = hi
        if _is_bv():
            w = _backend()[1]
            if lo is None or hi is None or lo < -(1 << (w - 1)) or hi > (1 << (w - 1)) - 1:
                # the interval cannot exclude wrap-around: the operation must have registered an
                # exact no-overflow side condition (Ctx.side), proven per path by the harness
                self.lo = self.hi = None

    # ---- construction helpers
    @staticmethod
    def _c(v):
        if _is_bv():
            return z3.BitVecVal(v, _backend()[1])
        return z3.IntVal(v)

    @staticmethod
    def const(v):
        return SymZ(SymZ._c(v), v, v)

    @staticmethod
    def var(name, lo=None, hi=None, assume_bounds=True):
        c = cur()
        if _is_bv():
            t = z3.BitVec(name, c.backend[1])
        else:
            t = z3.Int(name)
        x = SymZ(t, lo, hi)
        if assume_bounds:
            if lo is not None:
                c.assume(x._ge(t, SymZ._c(lo)))
            if hi is not None:
                c.assume(x._le(t, SymZ._c(hi)))
        return x

    @staticmethod
    def lift(o):
        if isinstance(o, SymZ):
            return o
        if isinstance(o, bool):
            return SymZ.const(int(o))
        if isinstance(o, int):
            return SymZ.const(o)
        if isinstance(o, SymBool):
            return o.as_int()
        return None

    # ---- term-level comparisons (signed for BV)
    @staticmethod
    def _ge(a, b):
        return a >= b

    @staticmethod
    def _le(a, b):
        return a <= b

    # ---- arithmetic
    def _bin(self, o, f, ivf):
        o2 = SymZ.lift(o)
        if o2 is None:
            return NotImplemented
        return SymZ(f(self.t, o2.t), *ivf(self, o2))

    def _side(self, r, *conds):
        """bit-vector backend: if the result interval does not exclude wrap-around, record the exact
        no-overflow conditions of this operation as side conditions of the path."""
        if r is NotImplemented or not _is_bv():
            return r
        if r.lo is None or r.hi is None:
            cur().side.extend(conds)
        return r

    def __add__(self, o):
        r = self._bin(o, lambda a, b: a + b,
                      lambda a, b: (_iv_add(a.lo, b.lo), _iv_add(a.hi, b.hi)))
        if r is NotImplemented or not _is_bv():
            return r
        b = SymZ.lift(o)
        return self._side(r, z3.BVAddNoOverflow(self.t, b.t, True), z3.BVAddNoUnderflow(self.t, b.t))

    __radd__ = __add__

    def __sub__(self, o):
        r = self._bin(o, lambda a, b: a - b,
                      lambda a, b: (None if a.lo is None or b.hi is None else a.lo - b.hi,
                                    None if a.hi is None or b.lo is None else a.hi - b.lo))
        if r is NotImplemented or not _is_bv():
            return r
        b = SymZ.lift(o)
        return self._side(r, z3.BVSubNoOverflow(self.t, b.t), z3.BVSubNoUnderflow(self.t, b.t, True))

    def __rsub__(self, o):
        o2 = SymZ.lift(o)
        if o2 is None:
            return NotImplemented
        return o2.__sub__(self)

    def __neg__(self):
        r = SymZ(-self.t, None if self.hi is None else -self.hi, None if self.lo is None else -self.lo)
        if _is_bv():
            return self._side(r, z3.BVSNegNoOverflow(self.t))
        return r

    def __pos__(self):
        return self

    def __abs__(self):
        return SymZ(z3.If(self.t >= self._c(0), self.t, -self.t), 0 if self.lo is None else None,
                    None if self.lo is None or self.hi is None else max(abs(self.lo), abs(self.hi)))

    def _is_const(self):
        return z3.is_int_value(self.t) or z3.is_bv_value(self.t)

    def _cval(self):
        if z3.is_bv_value(self.t):
            return self.t.as_signed_long()
        return self.t.as_long()

    def __mul__(self, o):
        o2 = SymZ.lift(o)
        if o2 is None:
            return NotImplemented
        iv = (None, None)
        if None not in (self.lo, self.hi, o2.lo, o2.hi):
            c = [self.lo * o2.lo, self.lo * o2.hi, self.hi * o2.lo, self.hi * o2.hi]
            iv = (min(c), max(c))
        if (not _is_bv()) and _CUR is not None and _CUR.mul == "uf" and not self._is_const() and not o2._is_const():
            a, b = self.t, o2.t
            if a.get_id() > b.get_id():
                a, b = b, a
            # commutativity instance: ordering by term id is only canonical for syntactically equal
            # arguments; arithmetic-equal but differently built arguments may sort the other way round
            if not a.eq(b):
                key = (a.get_id(), b.get_id())
                if key not in _CUR.mul_pairs:
                    _CUR.mul_pairs.add(key)
                    _CUR.add_fact(mul_uf()(a, b) == mul_uf()(b, a))
            return SymZ(mul_uf()(a, b), *iv)
        r = SymZ(self.t * o2.t, *iv)
        if _is_bv():
            return self._side(r, z3.BVMulNoOverflow(self.t, o2.t, True), z3.BVMulNoUnderflow(self.t, o2.t))
        return r

    __rmul__ = __mul__

    def _require_positive(self, what):
        if self.lo is not None and self.lo > 0:
            return
        r, _ = cur().prove(self.t > self._c(0), timeout_ms=10000)
        if r != "unsat":
            raise Unsupported("%s by a value not known to be positive" % what)

    def __floordiv__(self, o):
        o2 = SymZ.lift(o)
        if o2 is None:
            return NotImplemented
        o2._require_positive("floor division")
        iv = (None, None)
        if None not in (self.lo, self.hi, o2.hi):
            dlo = max(o2.lo, 1) if o2.lo is not None else 1     # divisor proven positive above
            dhi = max(o2.hi, 1)
            c = [self.lo // dlo, self.lo // dhi, self.hi // dlo, self.hi // dhi]
            iv = (min(c), max(c))
        if _is_bv():
            m = z3.SRem(self.t, o2.t)  # sign follows dividend
            mm = z3.If(m < 0, m + o2.t, m)
            # (a - (a mod b)) is an exact multiple of b
            return SymZ((self.t - mm) / o2.t, *iv)
        return SymZ(self.t / o2.t, *iv)

    def __rfloordiv__(self, o):
        o2 = SymZ.lift(o)
        if o2 is None:
            return NotImplemented
        return o2.__floordiv__(self)

    def __mod__(self, o):
        o2 = SymZ.lift(o)
        if o2 is None:
            return NotImplemented
        o2._require_positive("modulo")
        iv = (0, None if o2.hi is None else max(o2.hi - 1, 0))
        if self.lo is not None and self.hi is not None and self.lo >= 0 and o2.lo is not None and self.hi < o2.lo:
            return self
        if _is_bv():
            m = z3.SRem(self.t, o2.t)
            return SymZ(z3.If(m < 0, m + o2.t, m), *iv)
        return SymZ(self.t % o2.t, *iv)

    def __rmod__(self, o):
        o2 = SymZ.lift(o)
        if o2 is None:
            return NotImplemented
        return o2.__mod__(self)

    def __divmod__(self, o):
        return (self // o, self % o)

    def __pow__(self, e, m=None):
        if isinstance(e, SymZ) and e._is_const():
            e = e._cval()
        if not isinstance(e, int) or e < 0 or e > 64:
            raise Unsupported("symbolic or large exponent on an exact integer")
        r = SymZ.const(1)
        for _ in range(e):
            r = r * self
        if m is not None:
            r = r % m
        return r

    def __rpow__(self, b):
        # 2**i with symbolic i is not modelled
        raise Unsupported("symbolic exponent")

    def __lshift__(self, k):
        k = _concrete_small(k)
        return self * (1 << k)

    def __rshift__(self, k):
        k = _concrete_small(k)
        return self // (1 << k)

    def __and__(self, o):
        o2 = SymZ.lift(o)
        if o2 is None:
            return NotImplemented
        a, b = self, o2
        if a._is_const() and not b._is_const():
            a, b = b, a
        if b._is_const():
            m = b._cval()
            if m >= 0 and (m & (m + 1)) == 0:      # 2^k - 1
                return a % (m + 1)
            if m > 0 and (m & (m - 1)) == 0:       # single bit
                return ((a // m) % 2) * m
        if _bit(a) and _bit(b):
            return a * b
        raise Unsupported("general bitwise and")

    __rand__ = __and__

    def __xor__(self, o):
        o2 = SymZ.lift(o)
        if o2 is None:
            return NotImplemented
        if _bit(self) and _bit(o2):
            return (self + o2) % 2
        raise Unsupported("general bitwise xor")

    __rxor__ = __xor__

    def __or__(self, o):
        o2 = SymZ.lift(o)
        if o2 is None:
            return NotImplemented
        if _bit(self) and _bit(o2):
            return self + o2 - self * o2
        # disjoint bit ranges: one operand is a non-negative multiple of 2^k and the other lies in [0, 2^k)  =>  a | b == a + b
        # (both facts are proved on the current path; anything else stays unsupported)
        if not _is_bv():
            ctx = cur()
            for a, b in ((self, o2), (o2, self)):
                ks = []
                if b._is_const() and b._cval() >= 0:
                    ks.append(b._cval().bit_length())
                elif b.hi is not None and b.lo is not None and b.lo >= 0:
                    ks.append(b.hi.bit_length())
                if a._is_const() and a._cval() > 0:
                    ks.append((a._cval() & -a._cval()).bit_length() - 1)      # trailing zeros of a
                for k in ks:
                    if k > 4096:
                        continue
                    r, _ = ctx.prove(z3.And(a.t >= 0, a.t % (1 << k) == 0, b.t >= 0, b.t < (1 << k)), timeout_ms=5000)
                    if r == "unsat":
                        return a + b
        raise Unsupported("general bitwise or")

    __ror__ = __or__

    def __truediv__(self, o):
        o2 = SymZ.lift(o)
        if o2 is None:
            return NotImplemented
        return SymQ(self, o2)

    def __rtruediv__(self, o):
        o2 = SymZ.lift(o)
        if o2 is None:
            return NotImplemented
        return SymQ(o2, self)

    # ---- comparisons
    def _cmp(self, o, f):
        o2 = SymZ.lift(o)
        if o2 is None:
            return NotImplemented
        return SymBool(f(self.t, o2.t))

    def __eq__(self, o):
        if o is None:
            return False
        return self._cmp(o, lambda a, b: a == b)

    def __ne__(self, o):
        if o is None:
            return True
        return self._cmp(o, lambda a, b: a != b)

    def __lt__(self, o):
        return self._cmp(o, lambda a, b: a < b)

    def __le__(self, o):
        return self._cmp(o, lambda a, b: a <= b)

    def __gt__(self, o):
        return self._cmp(o, lambda a, b: a > b)

    def __ge__(self, o):
        return self._cmp(o, lambda a, b: a >= b)

    def __hash__(self):
        # a dict / set keyed by a symbolic int: not modelled.  Raised as Unsupported (a BaseException) so that the code under
        # test cannot swallow it as the TypeError an unhashable object would give.
        raise Unsupported("hash of a symbolic integer (dict / set key)")

    def __bool__(self):
        return cur().branch(self.t != self._c(0))

    def __index__(self):
        return concretize(self)

    def __int__(self):
        raise Unsupported("int() on a symbolic integer outside the shimmed world")

    def __repr__(self):
        return "SymZ(%s)" % _short(self.t)

    __str__ = __repr__

    def __format__(self, spec):
        return repr(self)

    def to_bytes(self, length, byteorder="big", signed=False):
        from . import sbytes
        return sbytes.int_to_bytes(self, length, byteorder, signed)

    def bit_length(self):
        # decided by case split when the value is known to lie in a small range (bounded unrollings); unbounded otherwise
        if self._is_const():
            return abs(self._cval()).bit_length()
        if self.lo is not None and self.hi is not None and self.lo >= 0 and self.hi < (1 << 16) and not _is_bv():
            ctx = cur()
            for i in range(0, self.hi.bit_length() + 1):
                if ctx.branch(self.t < (1 << i)):
                    return i
            return self.hi.bit_length()
        if not _is_bv():
            return SymBitLen(self)
        raise Unsupported("bit_length of a symbolic integer")


class SymBitLen:
    """bit_length() of an unbounded symbolic integer x: usable only in comparisons with concrete ints, which are exact
    statements about |x| (bl <= k  <=>  |x| < 2^k).  Every other use is outside the model (Unsupported)."""
    __slots__ = ("x",)

    def __init__(self, x):
        self.x = x

    def _lt_pow(self, k):          # |x| < 2^k
        if k < 0:
            return z3.BoolVal(False)
        b = z3.IntVal(1 << k)
        return z3.And(self.x.t < b, self.x.t > -b)

    def _k(self, o):
        if isinstance(o, SymZ) and o._is_const():
            o = o._cval()
        if isinstance(o, bool) or not isinstance(o, int) or o > 8192:
            raise Unsupported("bit_length of a symbolic integer")
        return o

    def __le__(self, o):
        return SymBool(self._lt_pow(self._k(o)))

    def __lt__(self, o):
        return SymBool(self._lt_pow(self._k(o) - 1))

    def __gt__(self, o):
        return SymBool(z3.Not(self._lt_pow(self._k(o))))

    def __ge__(self, o):
        return SymBool(z3.Not(self._lt_pow(self._k(o) - 1)))

    def __eq__(self, o):
        k = self._k(o)
        return SymBool(z3.And(self._lt_pow(k), z3.Not(self._lt_pow(k - 1))))

    def __ne__(self, o):
        k = self._k(o)
        return SymBool(z3.Not(z3.And(self._lt_pow(k), z3.Not(self._lt_pow(k - 1)))))

    __hash__ = None

    def _unsupported(self, *a, **k):
        raise Unsupported("bit_length of a symbolic integer")

    __add__ = __radd__ = __sub__ = __rsub__ = __mul__ = __rmul__ = __floordiv__ = __rfloordiv__ = __mod__ = __index__ = \
        __int__ = __bool__ = __neg__ = __lshift__ = __rlshift__ = __rshift__ = __rrshift__ = _unsupported


def _bit(x):
    return x.lo is not None and x.hi is not None and 0 <= x.lo and x.hi <= 1


def _concrete_small(k):
    if isinstance(k, SymZ):
        if k._is_const():
            k = k._cval()
        else:
            k = concretize(k)
    if not isinstance(k, int) or k < 0 or k > 4096:
        raise Unsupported("shift amount")
    return k


def concretize(x):
    """Return the concrete value of x if the path condition determines it uniquely."""
    if isinstance(x, int):
        return x
    if x._is_const():
        return x._cval()
    c = cur()
    r, m = c.satisfiable()
    if r != "sat":
        raise Unsupported("cannot concretise: path condition %s" % r)
    v = m.eval(x.t, model_completion=True)
    r2, _ = c.prove(x.t == v)
    if r2 != "unsat":
        raise Unsupported("value needed concretely is not uniquely determined")
    return v.as_signed_long() if z3.is_bv_value(v) else v.as_long()


class SymQ:
    """Exact rational a/b, only produced by int / int; consumed by ceil/floor/int."""
    __slots__ = ("a", "b")

    def __init__(self, a, b):
        self.a = a
        self.b = b

    def ceil(self):
        return -((-self.a) // self.b)

    def floor(self):
        return self.a // self.b

    def __mul__(self, o):
        if isinstance(o, (int, SymZ)):
            return SymQ(self.a * o, self.b)
        raise Unsupported("float arithmetic")

    __rmul__ = __mul__


def symz_ite(cond, a, b):
    a = SymZ.lift(a)
    b = SymZ.lift(b)
    lo = None if a.lo is None or b.lo is None else min(a.lo, b.lo)
    hi = None if a.hi is None or b.hi is None else max(a.hi, b.hi)
    return SymZ(z3.If(as_bool_term(cond), a.t, b.t), lo, hi)


def is_shadow(x):
    return isinstance(x, (SymZ, SymBool, SymQ)) or getattr(type(x), "__symx_shadow__", False)
