"""symx.blsmodel -- ideal model of everything py_ecc/bls/ciphersuites.py imports.

The real ciphersuites.py (all classes, all methods) is executed with the names it imports rebound to
this model (function-level stubbing in the private module world):

  points      MP(group, k, t): k an exact integer exponent (UNREDUCED: the point is (k mod r)*G), t a torsion
              tag (0 iff the point lies in the prime-order subgroup); add / neg / multiply act componentwise.
  pairing     pairing(Q, P, final_exponentiate=False) = GT(k_Q * k_P), recorded for the monitor;
              GT * GT adds exponents; final_exponentiate is the identity on GT; FQ12.one() = GT(0);
              GT == GT  <=>  exponents congruent mod r   (bilinear, non-degenerate pairing of order r).
  codec       ENC1/ENC2: uninterpreted (k mod r, t) -> 48 / 96 byte strings; per-call axioms
              DK(ENC(k,t)) = k, DT(ENC(k,t)) = t, VALID(ENC(k,t)); decoding a string s:
              VALID(s) -> MP(DK(s), DT(s)) with 0 <= DK(s) < r and ENC(DK(s), DT(s)) = s, else ValueError.
              Length behaviour is the REAL decoders' (C11.c): pubkey_to_G1 refuses < 48 bytes and reads only
              the last 48 bytes of longer strings; signature_to_G2 on a string that is not 96 bytes long
              either raises ValueError or returns an arbitrary point (over-approximation).
  hash_to_G2  MP(G2, Hh(msg, DST), 0), Hh uninterpreted into [1, r-1], injective on (msg, DST) (random-oracle
              assumption, instantiated for every pair of calls on the path); calls are recorded.

Contracts are owned by C05/C12 (pairing), C07/C13/C17 (group law, subgroup check), C11 (codec), C10 (hash_to_G2).
"""
import z3
from . import core
from .core import SymZ, SymBool, Unsupported
from .sbytes import SymBytes, SEQ, AbsBytes, BYTES, LEN

R_ORDER = 52435875175126190479447740508185965837690552500527637822603658699938581184513

_F = {}


def F(name, *sorts):
    if name not in _F:
        _F[name] = z3.Function(name, *sorts)
    return _F[name]


I = z3.IntSort()
B = z3.BoolSort()


def lit(t):
    if isinstance(t, SymZ):
        return t.t
    if isinstance(t, bool):
        return z3.IntVal(int(t))
    if isinstance(t, int):
        return z3.IntVal(t)
    return t


class Poly:
    """integer polynomial over atom terms, kept in canonical sum-of-monomials form.  Monomials of degree >= 2
    are rendered as opaque integer constants (one per distinct commutative monomial): every query stays in
    linear arithmetic + UF ("products as atoms"); unsat answers are valid for the real products a fortiori."""
    _atoms = {}      # key -> z3 term
    _monos = {}      # monomial key tuple -> z3 Int const

    def __init__(self, terms=None):
        self.terms = {m: c for m, c in (terms or {}).items() if c != 0}

    @staticmethod
    def const(v):
        return Poly({(): int(v)})

    @staticmethod
    def atom(t):
        k = t.sexpr()
        Poly._atoms[k] = t
        return Poly({(k,): 1})

    @staticmethod
    def lift(x):
        if isinstance(x, Poly):
            return x
        if isinstance(x, SymZ):
            x = x.t
        if isinstance(x, bool):
            return Poly.const(int(x))
        if isinstance(x, int):
            return Poly.const(x)
        if z3.is_int_value(x):
            return Poly.const(x.as_long())
        if z3.is_app(x):
            k = x.decl().kind()
            ch = x.children()
            if k == z3.Z3_OP_ADD:
                r_ = Poly()
                for c in ch:
                    r_ = r_ + Poly.lift(c)
                return r_
            if k == z3.Z3_OP_SUB and len(ch) == 2:
                return Poly.lift(ch[0]) - Poly.lift(ch[1])
            if k == z3.Z3_OP_UMINUS:
                return -Poly.lift(ch[0])
            if k == z3.Z3_OP_MUL:
                r_ = Poly.const(1)
                for c in ch:
                    r_ = r_ * Poly.lift(c)
                return r_
        return Poly.atom(x)

    def __add__(self, o):
        o = Poly.lift(o)
        t = dict(self.terms)
        for m, c in o.terms.items():
            t[m] = t.get(m, 0) + c
        return Poly(t)

    __radd__ = __add__

    def __neg__(self):
        return Poly({m: -c for m, c in self.terms.items()})

    def __sub__(self, o):
        return self + (-Poly.lift(o))

    def __rsub__(self, o):
        return Poly.lift(o) - self

    def __mul__(self, o):
        o = Poly.lift(o)
        t = {}
        for m1, c1 in self.terms.items():
            for m2, c2 in o.terms.items():
                m = tuple(sorted(m1 + m2))
                t[m] = t.get(m, 0) + c1 * c2
        return Poly(t)

    __rmul__ = __mul__

    def z3(self):
        out = z3.IntVal(0)
        parts = []
        for m, c in sorted(self.terms.items()):
            if len(m) == 0:
                parts.append(z3.IntVal(c))
                continue
            if len(m) == 1:
                a = Poly._atoms[m[0]]
            else:
                if m not in Poly._monos:
                    Poly._monos[m] = z3.Int("mono!%d" % len(Poly._monos))
                a = Poly._monos[m]
            parts.append(a if c == 1 else c * a)
        if not parts:
            return z3.IntVal(0)
        return parts[0] if len(parts) == 1 else z3.Sum(parts)

    def __repr__(self):
        return "Poly(%s)" % core._short(self.z3(), 80)


class MP:
    """model point"""
    __symx_shadow__ = False

    def __init__(self, group, k, t):
        self.group = group
        self.kp = Poly.lift(k)
        self.tp = Poly.lift(t)

    @property
    def k(self):
        return self.kp.z3()

    @property
    def t(self):
        return self.tp.z3()

    def __repr__(self):
        return "MP(%s, %s, %s)" % (self.group, core._short(self.k, 60), core._short(self.t, 30))

    # tuple-like access is not part of the model: the ciphersuite never indexes points
    def __getitem__(self, i):
        raise Unsupported("ciphersuite code indexed a point")

    def __iter__(self):
        raise Unsupported("ciphersuite code unpacked a point")


class GT:
    def __init__(self, e):
        self.ep = Poly.lift(e)

    @property
    def e(self):
        return self.ep.z3()

    def __mul__(self, o):
        if not isinstance(o, GT):
            raise Unsupported("GT * %r" % (type(o),))
        return GT(self.ep + o.ep)

    __rmul__ = __mul__
    __imul__ = __mul__

    def __eq__(self, o):
        if not isinstance(o, GT):
            raise TypeError("Expected an FQP object, but got object of type %s" % type(o))
        return SymBool((self.ep - o.ep).z3() % R_ORDER == 0)

    def __ne__(self, o):
        return ~self.__eq__(o)

    __hash__ = None


class FQ12Model:
    @staticmethod
    def one():
        return GT(0)


class World:
    """one instance per explored path: the stubs and their call records."""

    def __init__(self, r=R_ORDER, abstract_bytes=True):
        self.r = r
        self.BS = BYTES if abstract_bytes else SEQ            # sort of byte strings
        self.BC = AbsBytes if abstract_bytes else SymBytes     # shadow class
        self.blen = LEN if abstract_bytes else z3.Length
        self.sfx = "a" if abstract_bytes else ""
        self.pairings = []      # (Q, P, final_exponentiate flag)
        self.hash_calls = []    # (msg SymBytes, dst, hash function object, exponent term)
        self.decodes = []       # ("g1"|"g2", SymBytes, MP or None)
        self.encodes = []
        self.final_exp_calls = 0

    # ---- group
    def add(self, a, b):
        self._chk(a, b)
        return MP(a.group, a.kp + b.kp, a.tp + b.tp)

    def neg(self, a):
        return MP(a.group, -a.kp, -a.tp)

    def multiply(self, a, n):
        n = SymZ.lift(n)
        if n is None:
            raise Unsupported("multiply by %r" % (n,))
        return MP(a.group, a.kp * Poly.lift(n.t), a.tp * Poly.lift(n.t))

    def is_inf(self, a):
        return SymBool(z3.And(a.k % self.r == 0, a.t == 0))

    def subgroup_check(self, a):
        return SymBool(a.t == 0)

    def _chk(self, a, b):
        if a.group != b.group:
            raise Unsupported("model: mixed groups")

    # ---- pairing
    def pairing(self, Q, P, final_exponentiate=True):
        if not isinstance(Q, MP) or not isinstance(P, MP) or Q.group != "G2" or P.group != "G1":
            raise Unsupported("model: pairing argument groups %r %r" % (Q, P))
        self.pairings.append((Q, P, final_exponentiate))
        return GT(Q.kp * P.kp)

    def final_exponentiate(self, g):
        self.final_exp_calls += 1
        return g

    # ---- codec
    def _enc(self, g, P):
        """canonical encoding of the point: ENC(kc, t) with kc = k mod r written WITHOUT a mod operator
        (kc = k + r*j for a fresh integer j, 0 <= kc < r) so that every later equation stays polynomial."""
        n = 48 if g == 1 else 96
        enc, dk, dt, valid = self.codec(g)
        c = core.cur()
        g0, _ = c.prove(z3.And(P.k >= 0, P.k < self.r), timeout_ms=5000)
        if g0 == "unsat":
            kc, kexpr = P.k, P.kp           # already the canonical representative
        else:
            j = z3.Int(c.fresh_name("j"))
            kc = z3.Int(c.fresh_name("kc"))
            kexpr = P.kp + Poly.atom(j) * self.r
            c.add_fact(z3.And(kc == kexpr.z3(), kc >= 0, kc < self.r))
        s = enc(kc, P.t)
        c.add_fact(self.blen(s) == n)
        c.add_fact(z3.And(dk(s) == kc, dt(s) == P.t, valid(s)))
        self.encodes.append((g, P, s, kexpr))
        return self.BC(s, n)

    def G1_to_pubkey(self, P):
        if P.group != "G1":
            raise Unsupported("G1_to_pubkey of a G2 point")
        return self._enc(1, P)

    def G2_to_signature(self, P):
        if P.group != "G2":
            raise Unsupported("G2_to_signature of a G1 point")
        return self._enc(2, P)

    def codec(self, g):
        x = self.sfx
        return (F("ENC%d%s" % (g, x), I, I, self.BS), F("DK%d%s" % (g, x), self.BS, I), F("DT%d%s" % (g, x), self.BS, I),
                F("VALID%d%s" % (g, x), self.BS, B))

    def _dec(self, g, s48or96):
        enc, dk, dt, valid = self.codec(g)
        c = core.cur()
        s = s48or96.t
        for (g2, P, s2, kexpr) in self.encodes:
            if g2 == g and s2.eq(s):
                # DEC(ENC(P)) = P: returned with the exponent as the polynomial k + r*j (= k mod r)
                return MP("G1" if g == 1 else "G2", kexpr, P.tp)
        if not SymBool(valid(s)):
            raise ValueError("model: not a canonical encoding of a curve point")
        c.add_fact(z3.And(dk(s) >= 0, dk(s) < self.r, enc(dk(s), dt(s)) == s))
        return MP("G1" if g == 1 else "G2", dk(s), dt(s))

    def pubkey_to_G1(self, pk):
        b = self.BC.lift(pk)
        if b is None:
            raise TypeError("cannot convert %r to bytes" % (type(pk),))
        L = SymZ.lift(b.length)
        if L < 48:
            self.decodes.append(("g1", b, None))
            raise ValueError("model: c_flag should be 1 (fewer than 48 bytes)")
        s = b if (isinstance(b.length, int) and b.length == 48) else b[-48:]
        if not isinstance(s.length, int):
            s = self.BC(s.t, 48)
            core.cur().add_fact(self.blen(s.t) == 48)
        P = self._dec(1, s)
        self.decodes.append(("g1", b, P))
        return P

    def signature_to_G2(self, sig):
        b = self.BC.lift(sig)
        if b is None:
            raise TypeError("cannot convert %r to bytes" % (type(sig),))
        L = SymZ.lift(b.length)
        c = core.cur()
        if L == 96:
            P = self._dec(2, b)
            self.decodes.append(("g2", b, P))
            return P
        # other lengths: over-approximation -- ValueError or an arbitrary point
        ok = z3.Bool(c.fresh_name("odd_len_sig_decodes"))
        if not SymBool(ok):
            raise ValueError("model: signature of length != 96 refused")
        P = MP("G2", z3.Int(c.fresh_name("k_any")), z3.Int(c.fresh_name("t_any")))
        self.decodes.append(("g2", b, P))
        return P

    # ---- hashing
    def hash_to_G2(self, message, DST, hash_function):
        m = self.BC.lift(message)
        d = self.BC.lift(DST)
        if m is None or d is None:
            raise Unsupported("hash_to_G2 on non-bytes")
        hh = F("Hh" + self.sfx, self.BS, self.BS, I)
        e = hh(m.t, d.t)
        c = core.cur()
        c.add_fact(z3.And(e >= 1, e < self.r))
        for (m2, d2, _, e2) in self.hash_calls:
            c.add_fact(z3.Implies(e == e2, z3.And(m.t == m2.t, d.t == d2.t)))
        self.hash_calls.append((m, d, hash_function, e))
        return MP("G2", e, 0)

    def bindings(self):
        """names of py_ecc.bls.ciphersuites to rebind."""
        return dict(G1=MP("G1", 1, 0), Z1=MP("G1", 0, 0), Z2=MP("G2", 0, 0), add=self.add, neg=self.neg, multiply=self.multiply,
                    pairing=self.pairing, final_exponentiate=self.final_exponentiate, FQ12=FQ12Model,
                    G1_to_pubkey=self.G1_to_pubkey, G2_to_signature=self.G2_to_signature, is_inf=self.is_inf,
                    pubkey_to_G1=self.pubkey_to_G1, signature_to_G2=self.signature_to_G2, subgroup_check=self.subgroup_check,
                    hash_to_G2=self.hash_to_G2)
