"""symx.ring -- residues / abstract field elements as fractions of integer polynomials.

An element is  (sum_mask c_mask * s^mask) / den  where the c_mask and den are z3 Int
terms (polynomials in atom variables) and s_i are formal square roots with
s_i^2 = W_i  (W_i a polynomial term).  Arithmetic never reduces anything: `% m` for
the ring's modulus m is the identity and equality is decided by the *identity
tactic*: z3 normalises  (lhs - rhs) % m != 0  to sum-of-monomials form; `unsat`
means the identity holds in Z/m[atoms] (m = None: in Z[atoms], hence in every
commutative ring).  A non-identity is witnessed by pinning the atoms to small
integers (`sat`).  Branches of the code under test on such equalities are decided
when the polynomial is identically zero (or a product of literals already decided
non-zero on this path); otherwise the path forks and the literal is recorded.
"""
import hashlib
import time
import z3
from . import core
from .core import Unsupported, STATS

_SOM = z3.With("simplify", som=True, som_blowup=10 ** 9)
_ID_TACTIC = z3.Then(_SOM, "smt")


class Ring:
    def __init__(self, modulus=None, *, policy=None, pow_hook=None, inv0=True, name="R"):
        self.modulus = modulus
        self.roots = []            # list of (name, W term)
        self.policy = policy       # callable(normal_terms) -> "both" | "generic" | "zero"
        self.pow_hook = pow_hook   # callable(base, exponent) -> Res or None
        self.inv0 = inv0           # x / 0 == 0  (fork on the divisor) instead of assuming non-zero
        self.name = name
        self.cancelled_constants = set()
        self.n_decisions = 0
        self.id_timeout_ms = 20000
        self.order_fork = False
        self.order_lits = []
        self.max_decisions = 20000
        # per-path state
        self.subst = []            # [(atom term, replacement term)]
        self.lits = []             # [(normal_terms(list), is_zero(bool), origin)]
        self.known = []            # [(term, fingerprint, is_zero)] literals decided on this path
        self.units = []            # atoms declared non-zero
        self._points = {}
        self._fp_cache = {}
        self._ev_memo = {}
        self._ev_keep = []
        self._ut = None
        self._ut_key = None
        self._Q = modulus if modulus is not None else (1 << 127) - 1
        self.divided_by = []       # normal terms of every divisor used
        self.identity_log = []

    def add_root(self, name, W):
        """declare a formal root s with s^2 = W.  W: integer term / Res whose denominator is 1; it may involve
        roots declared EARLIER (tower of quadratic extensions)."""
        if isinstance(W, Res):
            if not _is_one(W.den):
                raise Unsupported("root radicand must have denominator 1")
            i = len(self.roots)
            if any(m >> i for m in W.comp):
                raise Unsupported("root radicand involves a later root")
            Wr = W
        else:
            Wr = Res({0: W if z3.is_expr(W) else z3.IntVal(int(W))}, z3.IntVal(1), self)
        self.roots.append((name, Wr))
        i = len(self.roots) - 1
        return Res({1 << i: z3.IntVal(1)}, z3.IntVal(1), self)

    # ---- normalisation and identity decisions
    def _apply_subst(self, t):
        if self.subst:
            t = z3.substitute(t, *self.subst)
        return t

    def _point(self, v):
        """fixed pseudo-random evaluation point for an atom (fingerprints / witnesses)."""
        n = str(v)
        if n not in self._points:
            h = int.from_bytes(hashlib.sha256(n.encode()).digest(), "big")
            self._points[n] = 2 + h % (self._Q - 3)
        return self._points[n]

    def fp(self, t):
        """value of the polynomial t at the fixed point, mod Q (Q = ring modulus, or 2^127-1 over Z).
        fp != 0 refutes t == 0 as an identity; fp == 0 makes it a candidate for the identity tactic."""
        i = t.get_id()
        c = self._fp_cache.get(i)
        if c is not None and c[0].eq(t):
            return c[1]
        r = self._eval_mod(t)
        if r is None:
            vs = _vars_of(t)
            if vs:
                e = z3.simplify(z3.substitute(t, *[(v, z3.IntVal(self._point(v))) for v in vs]))
            else:
                e = z3.simplify(t)
            if not z3.is_int_value(e):
                raise Unsupported("polynomial did not evaluate to a number: %s" % core._short(e))
            r = int(e.as_string()) % self._Q
        self._fp_cache[i] = (t, r)
        return r

    def _eval_mod(self, t):
        """evaluate a pure +,*,- polynomial term DAG at the fixed point, modulo Q (iterative, memoised).
        Returns None when the term contains other operators."""
        Q = self._Q
        memo = self._ev_memo
        self._ev_keep.append(t)      # keep the DAG alive: z3 ast ids are only unique among live terms
        stack = [(t, False)]
        while stack:
            e, done = stack.pop()
            i = e.get_id()
            if i in memo:
                continue
            k = e.decl().kind()
            if z3.is_int_value(e):
                memo[i] = int(e.as_string()) % Q
                continue
            if k == z3.Z3_OP_UNINTERPRETED and e.num_args() == 0:
                memo[i] = self._point(e) % Q
                continue
            if k not in (z3.Z3_OP_ADD, z3.Z3_OP_MUL, z3.Z3_OP_SUB, z3.Z3_OP_UMINUS) and not \
                    (k == z3.Z3_OP_MOD and self.modulus is not None and z3.is_int_value(e.arg(1)) and e.arg(1).as_long() == self.modulus):
                return None
            ch = e.children()
            if not done:
                stack.append((e, True))
                for c in ch:
                    if c.get_id() not in memo:
                        stack.append((c, False))
                continue
            vals = [memo[c.get_id()] for c in ch]
            if k == z3.Z3_OP_ADD:
                v = sum(vals) % Q
            elif k == z3.Z3_OP_MUL:
                v = 1
                for x in vals:
                    v = v * x % Q
            elif k == z3.Z3_OP_SUB:
                v = vals[0]
                for x in vals[1:]:
                    v = (v - x) % Q
            elif k == z3.Z3_OP_UMINUS:
                v = (-vals[0]) % Q
            else:
                v = vals[0] % Q
            memo[i] = v
        return memo[t.get_id()]

    def is_identically_zero(self, t, timeout_ms=None):
        """Decide t == 0 (mod m) as an identity.  Returns "zero" | "nonzero" | "unknown".
        zero: the identity tactic (sum-of-monomials normal form, then smt) answers unsat.
        nonzero: the solver finds the formula satisfiable at a pinned integer point."""
        timeout_ms = timeout_ms or self.id_timeout_ms
        t = self._apply_subst(t)
        if z3.is_int_value(t):
            v = t.as_long()
            if self.modulus is not None:
                v %= self.modulus
            return "zero" if v == 0 else "nonzero"
        e = (t % self.modulus != 0) if self.modulus is not None else (t != 0)
        STATS.identity_queries += 1
        if self.fp(t) != 0:
            s2 = z3.Solver()
            s2.set("timeout", timeout_ms)
            s2.add(e)
            for v in _vars_of(t):
                s2.add(v == self._point(v))
            if core.timed_check(s2) == "sat":
                return "nonzero"
            return "unknown"
        s = _ID_TACTIC.solver()
        s.set("timeout", timeout_ms)
        s.add(e)
        r = core.timed_check(s)
        if r == "unsat":
            return "zero"
        return "unknown"

    def same(self, a, b):
        """a == b identically (fingerprint filter, then identity tactic)."""
        if self.fp(a) != self.fp(b):
            return False
        return self.is_identically_zero(a - b) == "zero"

    def _unit_table(self):
        """fingerprints of monomials (total degree <= 4) in the atoms declared non-zero."""
        key = tuple(str(u) for u in self.units)
        if self._ut_key != key:
            tab = {}
            us = list(self.units)
            import itertools
            for d in range(0, 5):
                for combo in itertools.combinations_with_replacement(range(len(us)), d):
                    f = 1
                    term = z3.IntVal(1)
                    for i in combo:
                        f = f * self._point(us[i]) % self._Q
                        term = _mul(term, us[i])
                    tab.setdefault(f, term)
            self._ut, self._ut_key = tab, key
        return self._ut

    def status(self, t, depth=0):
        """'zero' / 'nonzero' / None: is t decided on this path?  t is compared with every
        literal already decided, up to sign and up to a monomial in the unit atoms, and
        structurally factored."""
        t = self._apply_subst(t)
        if z3.is_int_value(t):
            v = t.as_long()
            if self.modulus is not None:
                v %= self.modulus
            elif v != 0:
                self.cancelled_constants.add(abs(v))
            return "zero" if v == 0 else "nonzero"
        f = self.fp(t)
        if f == 0:
            if self.is_identically_zero(t) == "zero":
                return "zero"
            return None
        Q = self._Q
        for (l, fl, is_zero) in self.known:
            if fl == 0:
                continue
            ratio = f * pow(fl, -1, Q) % Q
            for sign in (1, -1):
                r = ratio * sign % Q
                u = self._unit_table().get(r)
                if u is not None and self.is_identically_zero(t - sign * _mul(u, l)) == "zero":
                    return "zero" if is_zero else "nonzero"
                ri = pow(r, -1, Q)
                u = self._unit_table().get(ri)
                if u is not None and self.is_identically_zero(_mul(u, t) - sign * l) == "zero":
                    return "zero" if is_zero else "nonzero"
        fs = _factors(t)
        if len(fs) > 1 and depth < 3:
            sts = [self.status(x, depth + 1) for x in fs]
            if any(s == "zero" for s in sts):
                return "zero"
            if all(s == "nonzero" for s in sts):
                return "nonzero"
        return None

    def _record(self, t, is_zero):
        t = self._apply_subst(t)
        self.known.append((t, self.fp(t), is_zero))

    def decide_zero(self, comps, origin="=="):
        """comps: list of terms that must all vanish.  Returns bool (forking if undecided)."""
        ctx = core.cur()
        core.check_deadline()
        self.n_decisions += 1
        if self.n_decisions > self.max_decisions:
            raise core.PathLimit("more than %d ring decisions on one path" % self.max_decisions)
        comps = [self._apply_subst(c) for c in comps]
        sts = [self.status(c) for c in comps]
        if all(s == "zero" for s in sts):
            return True
        if any(s == "nonzero" for s in sts):
            return False
        live = [c for c, s in zip(comps, sts) if s != "zero"]
        for c in live:
            if self.fp(c) == 0:
                raise Unsupported("identity undecided for a branch condition")
        pol = self.policy(live) if self.policy else "both"
        if pol == "generic":
            d = False
        elif pol == "zero":
            d = True
        else:
            i = len(ctx.taken)
            d = ctx.prefix[i] if i < len(ctx.prefix) else False
            ctx.taken.append(d)
            ctx.forks += 1
        self.lits.append((live, d, origin))
        if d:
            for c in live:
                self._record(c, True)
                sv = self._solve_linear(c)
                if sv is not None:
                    self.subst.append(sv)
        else:
            if len(live) == 1:
                self._record(live[0], False)
        return d

    def _solve_linear(self, t):
        """t == 0 with t = c*v + d for a single atom v (c a unit): return (v, value)."""
        v = _single_atom(t)
        if v is not None:
            return (v, z3.IntVal(0))
        vs = _vars_of(t)
        if len(vs) != 1:
            return None
        v = vs[0]
        ev = lambda k: z3.simplify(z3.substitute(t, (v, z3.IntVal(k))))
        d, d1 = ev(0), ev(1)
        if not (z3.is_int_value(d) and z3.is_int_value(d1)):
            return None
        d, c = d.as_long(), d1.as_long() - d.as_long()
        if self.is_identically_zero(t - (c * v + d)) != "zero":
            return None
        if self.modulus is not None:
            if c % self.modulus == 0:
                return None
            val = (-d) * pow(c, -1, self.modulus) % self.modulus
        else:
            if c not in (1, -1):
                return None
            val = -d * c
        return (v, z3.IntVal(val))

    def witness(self, mod=None):
        """a concrete point consistent with the path: atom name -> int.  Substitutions are exact; every
        remaining zero-literal L == 0 is solved numerically (mod `mod`, default the ring's modulus / 2^127-1)
        for one atom in which L is linear, later atoms first.  (Replay input construction only.)"""
        M = mod or self._Q
        out = {k: v % M for k, v in self._points.items()}
        fixed = set()
        for v, val in self.subst:
            if z3.is_int_value(val):
                out[str(v)] = val.as_long() % M
                fixed.add(str(v))
        for (live, is_zero, origin) in self.lits:
            if not is_zero:
                continue
            for L in live:
                L = self._apply_subst(L)
                vs = sorted([str(v) for v in _vars_of(L)], reverse=True)
                if self.eval_at(L, out, M) == 0:
                    continue
                for name in vs:
                    if name in fixed:
                        continue
                    o0 = dict(out, **{name: 0})
                    o1 = dict(out, **{name: 1})
                    o2 = dict(out, **{name: 2})
                    b = self.eval_at(L, o0, M)
                    a = (self.eval_at(L, o1, M) - b) % M
                    if a == 0 or (self.eval_at(L, o2, M) - (2 * a + b)) % M != 0:
                        continue
                    try:
                        out[name] = (-b) * pow(a, -1, M) % M
                    except ValueError:
                        continue
                    fixed.add(name)
                    break
        return out

    def eval_at(self, t, values, M):
        """numeric value of the polynomial term t at `values` (atom name -> int), modulo M."""
        memo = {}
        stack = [(t, False)]
        while stack:
            e, done = stack.pop()
            i = e.get_id()
            if i in memo:
                continue
            k = e.decl().kind()
            if z3.is_int_value(e):
                memo[i] = int(e.as_string()) % M
                continue
            if k == z3.Z3_OP_UNINTERPRETED and e.num_args() == 0:
                memo[i] = values.get(str(e), self._point(e)) % M
                continue
            ch = e.children()
            if not done:
                stack.append((e, True))
                for c in ch:
                    if c.get_id() not in memo:
                        stack.append((c, False))
                continue
            vals = [memo[c.get_id()] for c in ch]
            if k == z3.Z3_OP_ADD:
                v = sum(vals) % M
            elif k == z3.Z3_OP_MUL:
                v = 1
                for x in vals:
                    v = v * x % M
            elif k == z3.Z3_OP_SUB:
                v = vals[0]
                for x in vals[1:]:
                    v = (v - x) % M
            elif k == z3.Z3_OP_UMINUS:
                v = (-vals[0]) % M
            elif k == z3.Z3_OP_MOD:
                v = vals[0] % M
            else:
                raise Unsupported("eval_at: operator %s" % e.decl().name())
            memo[i] = v
        return memo[t.get_id()]

    def _product_of_nonzero(self, t):
        return self.status(t) == "nonzero"

    def declare_nonzero(self, x):
        """harness precondition: x != 0."""
        x = self.lift(x)
        if set(x.comp) - {0}:
            raise Unsupported("declare_nonzero on an element with roots")
        t = x.comp.get(0, z3.IntVal(0))
        self._record(t, False)
        if z3.is_const(t) and t.decl().kind() == z3.Z3_OP_UNINTERPRETED and not any(t.eq(u) for u in self.units):
            self.units.append(t)
        self.lits.append(([t], False, "assumed"))

    # ---- element construction
    def atom(self, name):
        return Res({0: z3.Int(name)}, z3.IntVal(1), self)

    def const(self, v):
        return Res({0: z3.IntVal(int(v))}, z3.IntVal(1), self)

    def lift(self, o):
        if isinstance(o, Res):
            return o
        if isinstance(o, bool):
            return self.const(int(o))
        if isinstance(o, int):
            return self.const(o)
        return None

    # identity obligations used by harnesses -------------------------------
    def prove_equal(self, a, b, what=""):
        """a == b as an identity (cross-multiplied).  Returns "zero"/"nonzero"/"unknown"."""
        a = self.lift(a)
        b = self.lift(b)
        worst = "zero"
        for m in set(a.comp) | set(b.comp):
            ca = a.comp.get(m, z3.IntVal(0))
            cb = b.comp.get(m, z3.IntVal(0))
            t = _mul(ca, b.den) - _mul(cb, a.den)
            v = self.is_identically_zero(t)
            self.identity_log.append((what, m, v))
            if v == "nonzero":
                return "nonzero"
            if v == "unknown":
                worst = "unknown"
        return worst

    def prove_zero(self, a, what=""):
        return self.prove_equal(a, self.const(0), what)


def _is_one(t):
    return z3.is_int_value(t) and t.as_long() == 1


def _is_zero_val(t):
    return z3.is_int_value(t) and t.as_long() == 0


def _mul(a, b):
    if _is_one(a):
        return b
    if _is_one(b):
        return a
    if _is_zero_val(a) or _is_zero_val(b):
        return z3.IntVal(0)
    if z3.is_int_value(a) and z3.is_int_value(b):
        return z3.IntVal(a.as_long() * b.as_long())
    return a * b


def _add(a, b):
    if _is_zero_val(a):
        return b
    if _is_zero_val(b):
        return a
    if z3.is_int_value(a) and z3.is_int_value(b):
        return z3.IntVal(a.as_long() + b.as_long())
    return a + b


def _neg(a):
    if z3.is_int_value(a):
        return z3.IntVal(-a.as_long())
    return -a


def _vars_of(t):
    seen = set()
    out = {}
    stack = [t]
    while stack:
        e = stack.pop()
        i = e.get_id()
        if i in seen:
            continue
        seen.add(i)
        if z3.is_const(e) and e.decl().kind() == z3.Z3_OP_UNINTERPRETED:
            out[i] = e
        else:
            stack.extend(e.children())
    return list(out.values())


def _factors(t):
    """top-level multiplicative factors of a term (structural)."""
    if z3.is_mul(t):
        out = []
        for c in t.children():
            out.extend(_factors(c))
        return out
    if z3.is_app(t) and t.decl().kind() == z3.Z3_OP_UMINUS:
        return [z3.IntVal(-1)] + _factors(t.children()[0])
    return [t]


def _single_atom(t):
    """t is c*v (c a non-zero constant) for an atom v: return v."""
    fs = _factors(t)
    vs = [f for f in fs if not z3.is_int_value(f)]
    if len(vs) == 1 and z3.is_const(vs[0]) and vs[0].decl().kind() == z3.Z3_OP_UNINTERPRETED:
        return vs[0]
    return None


class Res:
    """ring element; also plays the role of a Python int (residue) inside the field classes
    and of a field-class instance inside the curve modules."""
    __symx_shadow__ = True
    __slots__ = ("comp", "den", "ring")

    def __init__(self, comp, den, ring):
        self.comp = {m: c for m, c in comp.items() if not _is_zero_val(c)}
        self.den = den
        self.ring = ring

    # field-class protocol ------------------------------------------------
    @classmethod
    def one(cls):
        return core.cur().ring.const(1)

    @classmethod
    def zero(cls):
        return core.cur().ring.const(0)

    # helpers ---------------------------------------------------------------
    def _lift(self, o):
        return self.ring.lift(o)

    def _scale(self, f):
        return {m: _mul(c, f) for m, c in self.comp.items()}

    def __add__(self, o):
        o = self._lift(o)
        if o is None:
            return NotImplemented
        if self.den.eq(o.den):
            a, b, d = self.comp, o.comp, self.den
        else:
            a, b, d = self._scale(o.den), o._scale(self.den), _mul(self.den, o.den)
        out = dict(a)
        for m, c in b.items():
            out[m] = _add(out[m], c) if m in out else c
        return Res(out, d, self.ring)

    __radd__ = __add__

    def __neg__(self):
        return Res({m: _neg(c) for m, c in self.comp.items()}, self.den, self.ring)

    def __pos__(self):
        return self

    def __sub__(self, o):
        o = self._lift(o)
        if o is None:
            return NotImplemented
        return self + (-o)

    def __rsub__(self, o):
        o = self._lift(o)
        if o is None:
            return NotImplemented
        return o + (-self)

    def __mul__(self, o):
        o = self._lift(o)
        if o is None:
            return NotImplemented
        out = {}
        roots = self.ring.roots
        for m1, c1 in self.comp.items():
            for m2, c2 in o.comp.items():
                t = _mul(c1, c2)
                common = m1 & m2
                m = m1 ^ m2
                if not common:
                    out[m] = _add(out[m], t) if m in out else t
                    continue
                # s_i^2 = W_i, W_i an element of the tower below s_i
                term = Res({m: t}, z3.IntVal(1), self.ring)
                i = 0
                while common:
                    if common & 1:
                        term = term * roots[i][1]
                    common >>= 1
                    i += 1
                for mm, cc in term.comp.items():
                    out[mm] = _add(out[mm], cc) if mm in out else cc
        return Res(out, _mul(self.den, o.den), self.ring)

    __rmul__ = __mul__

    @property
    def sgn0(self):
        h = getattr(self.ring, "sgn0_hook", None)
        if h is None:
            raise Unsupported("sgn0 of an abstract field element")
        return h(self)

    def conj(self, i):
        bit = 1 << i
        return Res({m: (_neg(c) if m & bit else c) for m, c in self.comp.items()}, self.den, self.ring)

    def _inverse(self):
        """multiplicative inverse, caller guarantees non-zero."""
        masks = set(self.comp)
        if masks <= {0}:
            num = self.comp.get(0, z3.IntVal(0))
            return Res({0: self.den}, num, self.ring)
        top = max(masks).bit_length() - 1
        c = self.conj(top)
        n = self * c          # free of root `top`
        n = Res({m: v for m, v in n.comp.items() if not (m >> top) & 1}, n.den, n.ring)
        return c * n._inverse()

    def is_zero(self):
        comps = list(self.comp.values())
        if not comps:
            return True
        return self.ring.decide_zero(comps, "zero-test")

    def __truediv__(self, o):
        o = self._lift(o)
        if o is None:
            return NotImplemented
        self.ring.divided_by.append(o)
        if self.ring.inv0:
            if o.is_zero():
                return self.ring.const(0)
        return self * o._inverse()

    def __rtruediv__(self, o):
        o = self._lift(o)
        if o is None:
            return NotImplemented
        return o.__truediv__(self)

    def __floordiv__(self, o):
        raise Unsupported("floor division on a residue")

    def __mod__(self, m):
        if isinstance(m, int) and m == self.ring.modulus:
            return self
        if isinstance(m, int) and m == 2 and getattr(self.ring, "parity_hook", None) is not None:
            return self.ring.parity_hook(self)      # parity of the canonical representative: not an algebraic notion
        raise Unsupported("reduction of a residue modulo %r (ring modulus %r)" % (m, self.ring.modulus))

    def __pow__(self, e, m=None):
        if m is not None and m != self.ring.modulus:
            raise Unsupported("pow with foreign modulus")
        if isinstance(e, core.SymZ):
            e = core.concretize(e)
        if not isinstance(e, int):
            raise Unsupported("non-integer exponent")
        if e < 0:
            raise Unsupported("negative exponent")
        if e > 64:
            if self.ring.pow_hook is not None:
                r = self.ring.pow_hook(self, e)
                if r is not None:
                    return r
            raise Unsupported("exponent %d bits on a residue without a contract" % e.bit_length())
        r = self.ring.const(1)
        b = self
        while e:
            if e & 1:
                r = r * b
            e >>= 1
            if e:
                b = b * b
        return r

    # comparisons ---------------------------------------------------------
    def _diff_comps(self, o):
        comps = []
        for m in set(self.comp) | set(o.comp):
            ca = self.comp.get(m, z3.IntVal(0))
            cb = o.comp.get(m, z3.IntVal(0))
            comps.append(_add(_mul(ca, o.den), _neg(_mul(cb, self.den))))
        return comps

    def __eq__(self, o):
        if o is None:
            return False
        o2 = self._lift(o)
        if o2 is None:
            return NotImplemented
        comps = self._diff_comps(o2)
        if not comps:
            return True
        return self.ring.decide_zero(comps, "==")

    def __ne__(self, o):
        r = self.__eq__(o)
        if r is NotImplemented:
            return r
        return not r

    def __bool__(self):
        return not self.is_zero()

    __hash__ = None

    def _order(self, o, op):
        """ordering of canonical representatives is not an algebraic notion: when the ring allows it
        (order_fork), the comparison is an unconstrained fork (both outcomes explored)."""
        if not getattr(self.ring, "order_fork", False):
            raise Unsupported("ordering on a residue")
        ctx = core.cur()
        i = len(ctx.taken)
        d = ctx.prefix[i] if i < len(ctx.prefix) else False
        ctx.taken.append(d)
        ctx.forks += 1
        self.ring.order_lits.append((op, d))
        return d

    def __lt__(self, o):
        return self._order(o, "<")

    def __gt__(self, o):
        return self._order(o, ">")

    def __le__(self, o):
        return self._order(o, "<=")

    def __ge__(self, o):
        return self._order(o, ">=")

    def __int__(self):
        raise Unsupported("int() on a residue outside the shimmed world")

    def __index__(self):
        raise Unsupported("residue used as an index")

    def __repr__(self):
        return "Res(%s / %s)" % ({m: core._short(c, 60) for m, c in self.comp.items()}, core._short(self.den, 40))

    __str__ = __repr__

    def __format__(self, spec):
        return repr(self)


def run_paths(fn, ring_factory, *, max_paths=500):
    """Explore fn(ring) over ring-mode decisions.  Returns list of (path, ring)."""
    out = []

    def run(ctx):
        ring = ring_factory()
        ctx.ring = ring
        return fn(ring)

    def on_path(p):
        out.append((p, p.ctx.ring))

    core.explore(run, max_paths=max_paths, on_path=on_path)
    return out
