"""symx.sbytes -- symbolic byte strings (z3 sequences of 8-bit vectors), hash / HMAC as
uninterpreted functions, integer <-> octet-string conversions."""
import builtins
import hashlib as _hashlib
import z3
from . import core
from .core import SymZ, SymBool, Unsupported

BV8 = z3.BitVecSort(8)
SEQ = z3.SeqSort(BV8)


class SymByte(SymZ):
    """one byte: an exact integer in [0, 255] that remembers its bit-vector term."""
    __slots__ = ("bv",)

    def __init__(self, bv):
        SymZ.__init__(self, z3.BV2Int(bv, False), 0, 255)
        self.bv = bv

    def __xor__(self, o):
        if isinstance(o, SymByte):
            return SymByte(self.bv ^ o.bv)
        if isinstance(o, int) and 0 <= o <= 255:
            return SymByte(self.bv ^ z3.BitVecVal(o, 8))
        return SymZ.__xor__(self, o)

    __rxor__ = __xor__

    def __and__(self, o):
        if isinstance(o, SymByte):
            return SymByte(self.bv & o.bv)
        if isinstance(o, int) and 0 <= o <= 255:
            return SymByte(self.bv & z3.BitVecVal(o, 8))
        return SymZ.__and__(self, o)

    __rand__ = __and__


def _to_bv8(x):
    if isinstance(x, SymByte):
        return x.bv
    if isinstance(x, SymZ):
        # bytes([x]) raises ValueError outside range(256): fork on it
        if not (x.lo is not None and x.hi is not None and 0 <= x.lo and x.hi <= 255):
            if bool((x < 0) | (x > 255)):
                raise ValueError("bytes must be in range(0, 256)")
        if core._is_bv():
            raise Unsupported("bytes of bit-vector backed ints")
        return z3.Int2BV(x.t, 8)
    if isinstance(x, int):
        if not 0 <= x <= 255:
            raise ValueError("bytes must be in range(0, 256)")
        return z3.BitVecVal(x, 8)
    raise Unsupported("cannot make a byte of %r" % (type(x),))


def _seq_of(b):
    """z3 sequence term for concrete bytes."""
    if len(b) == 0:
        return z3.Empty(SEQ)
    units = [z3.Unit(z3.BitVecVal(c, 8)) for c in b]
    return units[0] if len(units) == 1 else z3.Concat(*units)


class SymBytes:
    __symx_shadow__ = True
    __symx_bytes__ = True
    __symx_int__ = False

    def __init__(self, t, length, mutable=False):
        self.t = t
        self.length = length        # int or SymZ
        self.mutable = mutable

    # constructors
    @staticmethod
    def concrete(b):
        b = builtins.bytes(b)
        return SymBytes(_seq_of(b), len(b))

    @staticmethod
    def var(name, min_len=0, max_len=None, length=None):
        c = core.cur()
        t = z3.Const(name, SEQ)
        if length is not None:
            c.assume(z3.Length(t) == length)
            return SymBytes(t, length)
        L = SymZ(z3.Length(t), min_len, max_len)
        c.assume(z3.Length(t) >= min_len)
        if max_len is not None:
            c.assume(z3.Length(t) <= max_len)
        return SymBytes(t, L)

    @staticmethod
    def lift(o):
        if isinstance(o, SymBytes):
            return o
        if isinstance(o, (builtins.bytes, builtins.bytearray)):
            return SymBytes.concrete(o)
        return None

    def frozen(self):
        return SymBytes(self.t, self.length, False)

    def thawed(self):
        return SymBytes(self.t, self.length, True)

    # protocol
    def __symx_len__(self):
        return self.length

    def __len__(self):
        if isinstance(self.length, int):
            return self.length
        return core.concretize(self.length)

    def __add__(self, o):
        o2 = SymBytes.lift(o)
        if o2 is None:
            return NotImplemented
        return SymBytes(z3.Concat(self.t, o2.t) if True else None, self.length + o2.length, self.mutable)

    def __radd__(self, o):
        o2 = SymBytes.lift(o)
        if o2 is None:
            return NotImplemented
        return SymBytes(z3.Concat(o2.t, self.t), o2.length + self.length, o2.mutable if isinstance(o, SymBytes) else isinstance(o, builtins.bytearray))

    def __iadd__(self, o):
        r = self.__add__(o)
        if r is NotImplemented:
            return r
        if self.mutable:
            self.t, self.length = r.t, r.length
            return self
        return r

    def extend(self, o):
        if not self.mutable:
            raise AttributeError("'bytes' object has no attribute 'extend'")
        o2 = SymBytes.lift(o)
        if o2 is None:
            o2 = from_items(list(o))
        self.t = z3.Concat(self.t, o2.t)
        self.length = self.length + o2.length

    def __mul__(self, n):
        if isinstance(n, SymZ):
            n = core.concretize(n)
        out = SymBytes.concrete(b"")
        for _ in range(n):
            out = out + self
        return out

    __rmul__ = __mul__

    def __eq__(self, o):
        o2 = SymBytes.lift(o)
        if o2 is None:
            return False
        return SymBool(self.t == o2.t)

    def __ne__(self, o):
        r = self.__eq__(o)
        if r is False:
            return True
        return ~r

    def __hash__(self):
        return 0x5b

    def _norm_index(self, i):
        i = SymZ.lift(i)
        L = SymZ.lift(self.length)
        if i._is_const() and i._cval() < 0:
            i = L + i
        return i

    def __getitem__(self, k):
        if isinstance(k, slice):
            if k.step not in (None, 1):
                raise Unsupported("slice step")
            L = SymZ.lift(self.length)
            lo = SymZ.const(0) if k.start is None else self._norm_index(k.start)
            hi = L if k.stop is None else self._norm_index(k.stop)
            lo = _clamp(lo, L)
            hi = _clamp(hi, L)
            n = core.symz_ite(hi.t >= lo.t, hi - lo, 0)
            if lo._is_const() and n._is_const():
                nlen = n._cval()
            else:
                nlen = n
            t = z3.SubSeq(self.t, lo.t, n.t)
            r = SymBytes(t, nlen, self.mutable)
            r.origin = (self, lo, n)
            if core.active():
                core.cur().add_fact(z3.Length(t) == n.t)
            return r
        i = self._norm_index(k)
        L = SymZ.lift(self.length)
        if bool((i < 0) | (i >= L)):
            raise IndexError("index out of range")
        return SymByte(self.t[i.t])

    def __iter__(self):
        n = len(self)
        for i in range(n):
            yield SymByte(self.t[z3.IntVal(i)])

    def __bool__(self):
        L = self.length
        if isinstance(L, int):
            return L != 0
        return bool(L != 0)

    def __repr__(self):
        return "SymBytes(%s)" % core._short(self.t, 80)

    __str__ = __repr__

    def __format__(self, spec):
        return repr(self)

    def digest(self):
        raise AttributeError("digest")


def _clamp(i, L):
    """clamp index into [0, L] like Python slicing."""
    if i._is_const() and L._is_const():
        return SymZ.const(min(max(i._cval(), 0), L._cval()))
    if i._is_const() and i._cval() == 0:
        return i
    t = z3.If(i.t < 0, z3.IntVal(0), z3.If(i.t > L.t, L.t, i.t))
    return SymZ(z3.simplify(t), 0, L.hi)


def from_items(items):
    units = [z3.Unit(_to_bv8(x)) for x in items]
    if not units:
        return SymBytes.concrete(b"")
    t = units[0] if len(units) == 1 else z3.Concat(*units)
    return SymBytes(t, len(units))


# ---------------------------------------------------------------------------
# hash / hmac as uninterpreted functions

_UF = {}


def _uf(name, *sorts):
    if name not in _UF:
        _UF[name] = z3.Function(name, *sorts)
    return _UF[name]


def hash_model_active():
    return core.active() and getattr(core.cur(), "hash_uf", False)


_DIGEST = {}


def _sizes(name):
    if name not in _DIGEST:
        h = getattr(_hashlib, name)()
        _DIGEST[name] = (h.digest_size, h.block_size)
    return _DIGEST[name]


def hash_apply(name, data):
    """H_name(data) as an uninterpreted function; records the call and its length axiom."""
    d = SymBytes.lift(data)
    f = _uf("H_" + name, SEQ, SEQ)
    t = f(d.t)
    n = _sizes(name)[0]
    c = core.cur()
    c.add_fact(z3.Length(t) == n)
    c.notes.append(("hash", name, d.t))
    return SymBytes(t, n)


def hmac_apply(name, key, msg):
    k = SymBytes.lift(key)
    m = SymBytes.lift(msg)
    f = _uf("HMAC_" + name, SEQ, SEQ, SEQ)
    t = f(k.t, m.t)
    n = _sizes(name)[0]
    c = core.cur()
    c.add_fact(z3.Length(t) == n)
    c.notes.append(("hmac", name, k.t, m.t))
    return SymBytes(t, n)


class HashObj:
    def __init__(self, name, data=b""):
        self.name = name
        self.data = SymBytes.lift(data)
        if self.data is None:
            raise Unsupported("hash of %r" % (type(data),))
        self.digest_size, self.block_size = _sizes(name)

    def update(self, d):
        self.data = self.data + d

    def digest(self):
        return hash_apply(self.name, self.data)

    def copy(self):
        return HashObj(self.name, self.data)

    def hexdigest(self):
        raise Unsupported("hexdigest of a symbolic hash")


def _digest_name(digestmod):
    n = getattr(digestmod, "__symx_hash_name__", None)
    if n:
        return n
    if isinstance(digestmod, str):
        return digestmod
    n = getattr(digestmod, "__name__", "")
    if n.startswith("openssl_"):
        n = n[len("openssl_"):]
    if n:
        return n
    raise Unsupported("unknown digestmod %r" % (digestmod,))


class HmacObj:
    def __init__(self, key, msg, digestmod):
        self.name = _digest_name(digestmod)
        self.key = key
        self.msg = SymBytes.lift(msg if msg is not None else b"")
        self.digest_size = _sizes(self.name)[0]

    def update(self, d):
        self.msg = self.msg + d

    def digest(self):
        return hmac_apply(self.name, self.key, self.msg)


# ---------------------------------------------------------------------------
# integers <-> octet strings

def int_to_bytes(x, length, byteorder="big", signed=False):
    """model of int.to_bytes.  length <= 4: bit-precise; longer: the uninterpreted codec
    I2OSP_n with the axioms  |I2OSP_n(x)| = n  and  OS2IP(I2OSP_n(x)) = x  (per call)."""
    if signed or byteorder != "big":
        raise Unsupported("to_bytes(signed/little)")
    if isinstance(length, SymZ):
        length = core.concretize(length)
    x = SymZ.lift(x)
    c = core.cur()
    if bool((x < 0)):
        raise OverflowError("can't convert negative int to unsigned")
    if bool(x >= (1 << (8 * length))):
        raise OverflowError("int too big to convert")
    if length == 0:
        return SymBytes.concrete(b"")
    if x._is_const():
        return SymBytes.concrete(x._cval().to_bytes(length, "big"))
    if length <= 4:
        bv = z3.Int2BV(x.t, 8 * length)
        units = [z3.Unit(z3.Extract(8 * (length - i) - 1, 8 * (length - i - 1), bv)) for i in range(length)]
        t = units[0] if len(units) == 1 else z3.Concat(*units)
        return SymBytes(z3.simplify(t), length)
    f = _uf("I2OSP_%d" % length, z3.IntSort(), SEQ)
    g = _uf("OS2IP", SEQ, z3.IntSort())
    t = f(x.t)
    c.add_fact(z3.Length(t) == length)
    c.add_fact(g(t) == x.t)
    return SymBytes(t, length)


def bytes_to_int(b, byteorder="big", signed=False):
    """model of int.from_bytes on a symbolic string.  concrete length <= 4: bit-precise;
    otherwise the uninterpreted OS2IP with 0 <= OS2IP(b) < 256^|b| (and I2OSP_n(OS2IP(b)) = b
    when |b| = n is concrete)."""
    if signed:
        raise Unsupported("from_bytes(signed)")
    if byteorder != "big":
        # a different (uninterpreted) function: comparisons with the big-endian specification fail
        b = SymBytes.lift(b)
        g = _uf("OS2IP_LE", SEQ, z3.IntSort())
        t = g(b.t)
        core.cur().add_fact(t >= 0)
        return SymZ(t, 0, None)
    b = SymBytes.lift(b)
    c = core.cur()
    L = b.length
    if isinstance(L, int) and L <= getattr(c, "exact_os2ip", 4):
        if L == 0:
            return 0
        acc = None
        for i in range(L):
            by = z3.BV2Int(b.t[z3.IntVal(i)], False)
            acc = by if acc is None else acc * 256 + by
        return SymZ(acc, 0, (1 << (8 * L)) - 1)
    g = _uf("OS2IP", SEQ, z3.IntSort())
    t = g(b.t)
    if isinstance(L, int):
        c.add_fact(z3.And(t >= 0, t < (1 << (8 * L))))
        f = _uf("I2OSP_%d" % L, z3.IntSort(), SEQ)
        c.add_fact(f(t) == b.t)
        return SymZ(t, 0, (1 << (8 * L)) - 1)
    c.add_fact(t >= 0)
    if L.hi is not None:
        c.add_fact(t < (1 << (8 * L.hi)))
    return SymZ(t, 0, None if L.hi is None else (1 << (8 * L.hi)) - 1)


# ---------------------------------------------------------------------------
# abstract byte strings: an uninterpreted sort with LEN and CAT.  Used by the protocol-level obligations,
# where only length, concatenation and equality of strings matter; avoids the (slow) sequence theory.

BYTES = z3.DeclareSort("Bytes")
LEN = z3.Function("LEN", BYTES, z3.IntSort())
CAT = z3.Function("CAT", BYTES, BYTES, BYTES)
SLICE = z3.Function("SLICE", BYTES, z3.IntSort(), z3.IntSort(), BYTES)


class AbsBytes:
    __symx_shadow__ = True
    __symx_bytes__ = True
    __symx_int__ = False

    def __init__(self, t, length, mutable=False, literal=None):
        self.t = t
        self.length = length
        self.mutable = mutable
        self.literal = literal

    @staticmethod
    def _reg():
        c = core.cur()
        if not hasattr(c, "abs_lits"):
            c.abs_lits = {}
            c.abs_cats = []
        return c

    @staticmethod
    def concrete(b):
        b = builtins.bytes(b)
        c = AbsBytes._reg()
        if b in c.abs_lits:
            return AbsBytes(c.abs_lits[b], len(b), literal=b)
        t = z3.Const("lit!%s" % (b.hex()[:24] + "_" + str(len(c.abs_lits))), BYTES)
        c.add_fact(LEN(t) == len(b))
        for b2, t2 in c.abs_lits.items():
            c.add_fact(t != t2)
        c.abs_lits[b] = t
        return AbsBytes(t, len(b), literal=b)

    @staticmethod
    def var(name, min_len=0, max_len=None, length=None):
        c = AbsBytes._reg()
        t = z3.Const(name, BYTES)
        if length is not None:
            c.assume(LEN(t) == length)
            return AbsBytes(t, length)
        L = SymZ(LEN(t), min_len, max_len)
        c.assume(LEN(t) >= min_len)
        if max_len is not None:
            c.assume(LEN(t) <= max_len)
        return AbsBytes(t, L)

    @staticmethod
    def lift(o):
        if isinstance(o, AbsBytes):
            return o
        if isinstance(o, (builtins.bytes, builtins.bytearray)):
            return AbsBytes.concrete(o)
        return None

    def frozen(self):
        return AbsBytes(self.t, self.length, False, self.literal)

    def thawed(self):
        return AbsBytes(self.t, self.length, True, self.literal)

    def __symx_len__(self):
        return self.length

    def __len__(self):
        if isinstance(self.length, int):
            return self.length
        return core.concretize(self.length)

    def _cat(self, a, b):
        if a.literal is not None and b.literal is not None:
            return AbsBytes.concrete(a.literal + b.literal)
        if a.literal == b"":
            return b
        if b.literal == b"":
            return a
        c = AbsBytes._reg()
        t = CAT(a.t, b.t)
        c.add_fact(LEN(t) == LEN(a.t) + LEN(b.t))
        # cancellation instances: equal concatenations with equally long left parts have equal parts
        for (a2, b2, t2) in c.abs_cats:
            if not t2.eq(t):
                c.add_fact(z3.Implies(z3.And(t == t2, LEN(a.t) == LEN(a2)), z3.And(a.t == a2, b.t == b2)))
        # a concatenation differs from a literal of another length / equals no shorter part: only length facts are used
        c.abs_cats.append((a.t, b.t, t))
        return AbsBytes(t, a.length + b.length)

    def __add__(self, o):
        o2 = AbsBytes.lift(o)
        if o2 is None:
            return NotImplemented
        return self._cat(self, o2)

    def __radd__(self, o):
        o2 = AbsBytes.lift(o)
        if o2 is None:
            return NotImplemented
        return self._cat(o2, self)

    def __eq__(self, o):
        o2 = AbsBytes.lift(o)
        if o2 is None:
            return False
        return SymBool(self.t == o2.t)

    def __ne__(self, o):
        r = self.__eq__(o)
        if r is False:
            return True
        return ~r

    def __hash__(self):
        return 0x5c

    def startswith(self, o):
        o2 = AbsBytes.lift(o)
        if o2 is None:
            raise TypeError("startswith first arg must be bytes")
        pre = z3.Function("BYTES_PREFIX", BYTES, BYTES, z3.BoolSort())     # "o is a prefix of self", uninterpreted
        c = AbsBytes._reg()
        c.add_fact(z3.Implies(pre(self.t, o2.t), LEN(o2.t) <= LEN(self.t)))
        for (a2, b2, t2) in getattr(c, "abs_cats", []):
            if t2.eq(self.t):
                c.add_fact(z3.Implies(a2 == o2.t, pre(self.t, o2.t)))
        return SymBool(pre(self.t, o2.t))

    def __lt__(self, o):
        o2 = AbsBytes.lift(o)
        if o2 is None:
            return NotImplemented
        lt = z3.Function("BYTES_LT", BYTES, BYTES, z3.BoolSort())     # lexicographic order, uninterpreted
        return SymBool(lt(self.t, o2.t))

    def __gt__(self, o):
        o2 = AbsBytes.lift(o)
        if o2 is None:
            return NotImplemented
        return o2.__lt__(self)

    def __getitem__(self, k):
        if not isinstance(k, slice) or k.step not in (None, 1):
            raise Unsupported("indexing an abstract byte string")
        L = SymZ.lift(self.length)
        lo = SymZ.const(0) if k.start is None else SymZ.lift(k.start)
        hi = L if k.stop is None else SymZ.lift(k.stop)
        if lo._is_const() and lo._cval() < 0:
            lo = L + lo
        if hi._is_const() and hi._cval() < 0:
            hi = L + hi
        lo = _clamp(lo, L)
        hi = _clamp(hi, L)
        n = core.symz_ite(hi.t >= lo.t, hi - lo, 0)
        c = AbsBytes._reg()
        t = SLICE(self.t, lo.t, hi.t)
        c.add_fact(LEN(t) == n.t)
        c.add_fact(z3.Implies(z3.And(lo.t == 0, hi.t == L.t), t == self.t))
        nlen = n._cval() if n._is_const() else n
        return AbsBytes(t, nlen)

    def __bool__(self):
        L = self.length
        if isinstance(L, int):
            return L != 0
        return bool(L != 0)

    def __iter__(self):
        raise Unsupported("iterating an abstract byte string")

    def __repr__(self):
        return "AbsBytes(%s)" % core._short(self.t, 60)

    __str__ = __repr__

    def __format__(self, spec):
        return repr(self)
