#!/usr/bin/env python
"""run.py CNN [--tier quick|thorough] [--only substr ...]   -- quick_cmd / thorough_cmd of every check.
Re-executes itself under the overlay venv; --worker runs one obligation (internal)."""
import os
import sys

VERIF = os.path.dirname(os.path.abspath(__file__))
PY = os.path.join(VERIF, ".venv", "bin", "python")
if not os.path.exists(PY):
    PY = "/verif/.venv/bin/python"      # snapshot worktrees (vp run) reuse the overlay built by setup.sh


def main():
    if os.path.realpath(sys.executable) != os.path.realpath(PY) and os.environ.get("SYMX_REEXEC") != "1":
        if not os.path.exists(PY):
            os.system("sh %s/setup.sh >/dev/null" % VERIF)
        os.environ["SYMX_REEXEC"] = "1"
        os.environ["PYTHONPATH"] = VERIF
        os.execv(PY, [PY, os.path.abspath(__file__)] + sys.argv[1:])
    sys.path.insert(0, VERIF)
    from symx import harness
    a = sys.argv[1:]
    if a and a[0] == "--worker":
        harness.worker_main(a[1], a[2], a[3], a[4])
        return 0
    prop = a[0]
    tier = os.environ.get("VERIF_TIER", "quick")
    only = []
    i = 1
    while i < len(a):
        if a[i] == "--tier":
            tier = a[i + 1]
            i += 2
        elif a[i] == "--only":
            only = a[i + 1:]
            break
        else:
            i += 1
    return harness.run_property(prop, tier, only=only)


if __name__ == "__main__":
    sys.exit(main())
