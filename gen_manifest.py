#!/usr/bin/env python3
"""regenerates MANIFEST.json from the table below (kept in one place so it stays valid)."""
import json, os
V = os.path.dirname(os.path.abspath(__file__))
props = [json.loads(l) for l in open(os.path.join(V, "properties.jsonl"))]
CLAIMED = json.load(open(os.path.join(V, "claims.json")))
checks, na = [], []
for p in props:
    i = p["id"]
    c = CLAIMED.get(i)
    if not c or c.get("not_applicable"):
        na.append({"property_id": i, "reason": (c or {}).get("not_applicable", "check not built yet at this commit (planned in DESIGN.md section 4)")})
        continue
    checks.append({
        "property_id": i,
        "quick_cmd": "./run.py %s --tier quick" % i,
        "thorough_cmd": "./run.py %s --tier thorough" % i,
        "evidence_file": "evidence/%s.json" % i,
        "replay_cmd_template": "/venv/bin/python replay.py {path}",
        "engine": "symx",
        "level_claimed": {"category": "model_checking", "text": c["text"], "design_ref": c.get("design_ref", "DESIGN.md section 4, " + i)},
        "level_note": c["note"],
        "technique": c["technique"],
    })
m = {
    "version": 1,
    "setup_cmd": "sh ./setup.sh",
    "hooks": {"guard": "PY_ECC_VERIF", "enable": "none needed: checks load /repo's working-tree source through symx.world (a private import hook); no source hooks are compiled in",
              "baseline_off_cmd": "cd /repo && /venv/bin/python -m pytest -ra -q -p no:cacheprovider --timeout=900 --continue-on-collection-errors",
              "source_commits": [], "add_only": True},
    "engines": [{"name": "symx", "path": "symx/", "serves_properties": [c["property_id"] for c in checks],
                 "kind_free_text": "own symbolic executor for the real py_ecc source (shadow ints/bytes/field elements building z3 terms, path forking decided by z3, identity tactic for polynomial identities, UF for hashes), z3 5.1.0 Python API"}],
    "checks": checks,
    "not_applicable": na,
    "notes": "Exit codes: 0 all obligations discharged; 1 VIOLATION (replayed on the real code); 2 inconclusive (solver unknown / outside encoding / unreproduced counterexample). known_findings.json lists recorded and fixed defects.",
}
json.dump(m, open(os.path.join(V, "MANIFEST.json"), "w"), indent=1)
print("claimed", [c["property_id"] for c in checks], "not_applicable", len(na))
